"""Regenerates MANIFEST.json from props.json (single source)."""
import json, os
ROOT = os.path.dirname(os.path.dirname(os.path.abspath(__file__)))
props = json.load(open(os.path.join(ROOT, 'props.json')))
allp = [json.loads(l) for l in open(os.path.join(ROOT, 'properties.jsonl'))]
checks = []
for pid, P in sorted(props['properties'].items()):
    checks.append({
        'property_id': pid,
        'quick_cmd': f'./check {pid} --tier quick',
        'thorough_cmd': f'./check {pid} --tier thorough',
        'evidence_file': f'/verif/evidence/{pid}.json',
        'replay_cmd_template': f'./check {pid} --replay {{path}}',
        'engine': 'contracts',
        'level_claimed': {'category': P.get('level', 'proof'), 'text': P['claim'], 'design_ref': f'DESIGN.md §5 {pid}'},
        'level_note': P['trusted'],
        'technique': P['technique'],
    })
na = [{'property_id': p['id'], 'reason': props['not_applicable'].get(p['id'], 'not yet built: no contract unit claims this property at this commit')}
      for p in allp if p['id'] not in props['properties']]
m = {
    'version': 1,
    'setup_cmd': 'python3 -c "import fw.gen, fw.verus, fw.driver" && verus --version >/dev/null',
    'hooks': {'guard': 'cfg(kani) (set by cargo-kani only, in scratch copies; nothing is committed to /repo)',
              'enable': 'no hooks in /repo: contracts, harness modules and stand-in crates are applied to text extracted from /repo or to a scratch copy of the working tree on every run',
              'baseline_off_cmd': 'cd /repo && cargo test --workspace --no-fail-fast --offline',
              'source_commits': props.get('source_commits', []), 'add_only': True},
    'engines': [{'name': 'contracts', 'path': '/verif/check', 'serves_properties': sorted(props['properties']),
                 'kind_free_text': 'contract-based deductive verification: Verus on text extracted mechanically from /repo each run (+ Kani function contracts / complete harnesses on the real crates)'}],
    'checks': checks,
    'notes': props.get('notes', ''),
    'not_applicable': na,
}
json.dump(m, open(os.path.join(ROOT, 'MANIFEST.json'), 'w'), indent=1)
print('MANIFEST.json:', len(checks), 'checks,', len(na), 'not applicable')

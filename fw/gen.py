"""Template -> generated Verus file.

A unit template (units/<unit>/unit.rs) is a Verus source file with directive lines `//@...`.
Everything that is not a directive is copied through (prelude, spec fns, lemmas, canaries).
Directives pull *text from /repo's current working tree* and splice contract clauses into it:

  //@item FILE :: PATH [rules=a,b]
        copy one item (struct / enum / const / type / fn without contract) verbatim.
  //@fn FILE :: PATH [rules=a,b] [rename=new] [name=ctx]
  //@spec                         lines inserted between signature and body (requires/ensures/decreases)
  //@loop N [iter=name]           lines inserted between head of the N-th loop (1-based, textual
                                  order inside the function) and its body; `iter=` adds the Verus
                                  ghost iterator binder `name:` after `in` of a `for` loop
  //@before /regex/               lines inserted before the line on which regex first matches
  //@after /regex/                lines inserted after the statement line on which regex first matches
  //@end
  //@region FILE :: PATH name=ctx start=/re/ end=/re/ [rules=a,b]
  //@head                         wrapper signature + contract (up to, not including, `{`)
  //@tail                         lines placed after the region text, before the closing `}`
  //@loop / //@before / //@after  as for //@fn
  //@end

Rules are the only edits made to extracted text; each is newline-preserving so that every line
of the generated file maps back to a line of /repo (or to a template line).
"""
import hashlib
import os
import re

from .rustsrc import Source, SliceError, lex, find_loops, fn_parts, OPEN, CLOSE

REPO = os.environ.get('VERIF_REPO', '/repo')


# --------------------------------------------------------------------------- rules

def _blank(text):
    """Replace text by the same number of newlines (keeps line numbering)."""
    return '\n' * text.count('\n')


def _match_paren(text, open_off):
    """offset of the bracket matching text[open_off], token aware."""
    toks = [t for t in lex(text[open_off:]) if t.kind not in ('comment', 'doc')]
    depth = 0
    for t in toks:
        if t.kind == 'punct' and t.text in OPEN:
            depth += 1
        elif t.kind == 'punct' and t.text in CLOSE:
            depth -= 1
            if depth == 0:
                return open_off + t.s
    raise SliceError('unbalanced in rule application')


def _split_args(text):
    """split macro/call argument text at top-level commas (token aware)."""
    toks = [t for t in lex(text) if t.kind not in ('comment', 'doc')]
    depth = 0
    cuts = []
    for t in toks:
        if t.kind == 'punct' and t.text in OPEN:
            depth += 1
        elif t.kind == 'punct' and t.text in CLOSE:
            depth -= 1
        elif t.kind == 'punct' and t.text == ',' and depth == 0:
            cuts.append(t.s)
    parts, prev = [], 0
    for c in cuts:
        parts.append(text[prev:c])
        prev = c + 1
    parts.append(text[prev:])
    return parts


def _code_spans(text):
    """yield (start,end) of code tokens only (so regexes never fire inside strings/comments)."""
    return [(t.s, t.e, t) for t in lex(text)]


def _find_macro_calls(text, names):
    """yield (start, open_paren, close_paren, name) for `name!(` occurrences (path prefix included
    when it is `tracing::` etc. given in names as 'tracing::*')."""
    toks = [t for t in lex(text) if t.kind not in ('comment', 'doc')]
    out = []
    for i, t in enumerate(toks):
        if t.kind == 'ident' and i + 2 < len(toks) and toks[i + 1].text == '!' and toks[i + 2].text in ('(', '[', '{'):
            start = t.s
            qual = t.text
            # path prefix a::b::name
            k = i
            while k >= 3 and toks[k - 1].text == ':' and toks[k - 2].text == ':' and toks[k - 3].kind == 'ident':
                k -= 3
                qual = toks[k].text + '::' + qual
                start = toks[k].s
            for nm in names:
                if nm.endswith('::*'):
                    ok = qual.startswith(nm[:-1])
                else:
                    ok = (qual == nm or t.text == nm)
                if ok:
                    o = toks[i + 2].s
                    out.append((start, o, _match_paren(text, o), qual))
                    break
    return out


def rule_drop_tracing(text, dropped):
    calls = _find_macro_calls(text, ['tracing::*'])
    for start, o, c, qual in reversed(calls):
        end = c + 1
        m = re.match(r'\s*;', text[end:])
        if m:
            end += m.end()
        dropped.append(('drop-tracing', text[start:end]))
        text = text[:start] + _blank(text[start:end]) + text[end:]
    return text


def rule_assert_eq(text, dropped):
    calls = _find_macro_calls(text, ['assert_eq', 'strict_assert_eq', 'debug_assert_eq', 'assert_ne', 'strict_assert_ne',
                                     'debug_assert_ne', 'strict_assert', 'debug_assert', 'assert'])
    for start, o, c, qual in reversed(calls):
        name = qual.split('::')[-1]
        args = _split_args(text[o + 1:c])
        if name.endswith('_eq') or name.endswith('_ne'):
            op = '==' if name.endswith('_eq') else '!='
            if len(args) < 2:
                raise SliceError('assert_eq with <2 args')
            new = f'assert!({args[0].strip()} {op} {args[1].strip()})'
            extra = args[2:]
        else:
            new = f'assert!({args[0].strip()})'
            extra = args[1:]
        old = text[start:c + 1]
        if new == old:
            continue
        # keep newline count
        nl = old.count('\n') - new.count('\n')
        if nl < 0:
            new = re.sub(r'\s*\n\s*', ' ', new)
            nl = old.count('\n')
        dropped.append(('assert-eq', f'{old}  =>  {new}' + (f'  (message args dropped: {extra})' if extra else '')))
        text = text[:start] + new + '\n' * nl + text[c + 1:]
    return text


def rule_mem_take(text, dropped):
    new = re.sub(r'\bstd::mem::take\(', 'verif_take(', text)
    if new != text:
        dropped.append(('mem-take', 'std::mem::take(x) => verif_take(x)'))
    return new


def rule_de_async(text, dropped):
    toks = [t for t in lex(text) if t.kind not in ('comment', 'doc')]
    edits = []
    for i, t in enumerate(toks):
        if t.kind == 'ident' and t.text == 'async' and i + 1 < len(toks) and toks[i + 1].text == 'fn':
            edits.append((t.s, toks[i + 1].s, ''))
        if t.kind == 'punct' and t.text == '.' and i + 1 < len(toks) and toks[i + 1].text == 'await':
            edits.append((t.s, toks[i + 1].e, ''))
        # `async move {` / `async {` block expressions become plain blocks
        if t.kind == 'ident' and t.text == 'async' and i + 1 < len(toks) and toks[i + 1].text in ('move', '{'):
            e = toks[i + 1].e if toks[i + 1].text == 'move' else t.e
            edits.append((t.s, e, ''))
    for s, e, r in sorted(edits, reverse=True):
        text = text[:s] + r + _blank(text[s:e]) + text[e:]
    if edits:
        dropped.append(('de-async', f'{len(edits)} `async`/`.await` tokens removed'))
    return text


def rule_err_ctx(text, dropped):
    # .with_context(k, v)  -> removed ; format!(..) -> verif_fmt()
    changed = True
    while changed:
        changed = False
        toks = [t for t in lex(text) if t.kind not in ('comment', 'doc')]
        for i, t in enumerate(toks):
            if (t.kind == 'punct' and t.text == '.' and i + 2 < len(toks) and toks[i + 1].text == 'with_context'
                    and toks[i + 2].text == '('):
                c = _match_paren(text, toks[i + 2].s)
                # swallow preceding whitespace/newline before the dot, keep newlines
                s = t.s
                ws = re.search(r'\s*$', text[:s])
                s = ws.start()
                dropped.append(('err-ctx', text[t.s:c + 1]))
                text = text[:s] + _blank(text[s:c + 1]) + text[c + 1:]
                changed = True
                break
    for start, o, c, qual in reversed(_find_macro_calls(text, ['format'])):
        dropped.append(('err-ctx', text[start:c + 1]))
        text = text[:start] + 'verif_fmt()' + _blank(text[start:c + 1]) + text[c + 1:]
    return text


def rule_flag_as_membership(text, dropped):
    n = 0

    def rep(kind):
        nonlocal text, n
        pat = re.compile(r'\b([A-Za-z_][A-Za-z0-9_]*)(?:\.as_ref\(\))?\.is_in_' + kind + r'\(\)')
        fld = 'eviction' if kind == 'eviction' else 'indexer'

        def f(m):
            nonlocal n
            n += 1
            return f'self.{fld}.holds(&{m.group(1)})'
        text = pat.sub(f, text)
    rep('eviction')
    rep('indexer')
    if n:
        dropped.append(('flag-as-membership', f'{n} flag reads replaced by container membership queries'))
    return text


def _stmt_tokens(text):
    toks = [t for t in lex(text) if t.kind not in ('comment', 'doc')]
    match = {}
    st = []
    for i, t in enumerate(toks):
        if t.kind == 'punct' and t.text in OPEN:
            st.append(i)
        elif t.kind == 'punct' and t.text in CLOSE and st:
            o = st.pop()
            match[o] = i
            match[i] = o
    return toks, match


def rule_let_chain(text, dropped):
    """`if A && let P = E && B { body } [else { e }]`  ->  nested ifs, else duplicated.
    Only `if` heads that contain a `let` after a top-level `&&` are touched."""
    guard = 0
    while True:
        guard += 1
        if guard > 50:
            raise SliceError('let-chain: too many rewrites')
        toks, match = _stmt_tokens(text)
        target = None
        for i, t in enumerate(toks):
            if t.kind == 'ident' and t.text == 'if':
                # find body open at depth 0
                k = i + 1
                conds = [[]]
                has_let_chain = False
                while k < len(toks):
                    tt = toks[k]
                    if tt.kind == 'punct' and tt.text in ('(', '['):
                        conds[-1].append((toks[k].s, toks[match[k]].e))
                        k = match[k] + 1
                        continue
                    if tt.kind == 'punct' and tt.text == '{':
                        break
                    if tt.kind == 'punct' and tt.text == '&' and k + 1 < len(toks) and toks[k + 1].text == '&' and toks[k + 1].s == tt.e:
                        conds.append([])
                        k += 2
                        continue
                    conds[-1].append((tt.s, tt.e))
                    k += 1
                if k >= len(toks):
                    continue
                parts = [text[c[0][0]:c[-1][1]] for c in conds if c]
                if len(parts) > 1 and any(re.match(r'let\b', p) for p in parts):
                    target = (i, k, parts)
                    break
        if target is None:
            return text
        i, k, parts = target
        body_o, body_c = toks[k].s, toks[match[k]].e
        body = text[body_o:body_c]
        # else part
        rest_idx = match[k] + 1
        else_txt = None
        end = body_c
        if rest_idx < len(toks) and toks[rest_idx].text == 'else':
            if toks[rest_idx + 1].text == '{':
                eo = rest_idx + 1
                else_txt = text[toks[eo].s:toks[match[eo]].e]
                end = toks[match[eo]].e
            else:
                raise SliceError('let-chain: `else if` after a let chain is not handled')
        old = text[toks[i].s:end]
        # group consecutive non-let conditions
        groups = []
        for p in parts:
            if re.match(r'let\b', p) or not groups or re.match(r'let\b', groups[-1]):
                groups.append(p)
            else:
                groups[-1] = groups[-1] + ' && ' + p
        new = ''
        for g in groups:
            new += f'if {g} {{ '
        new += body
        for _ in groups:
            new += (f' }} else {else_txt}' if else_txt else ' }')
        # the innermost body already carries its own braces: fix first closing
        # layout: if g1 { if g2 { BODY } else E } else E
        new = ''
        depth = len(groups)
        new = ''.join(f'if {g} {{ ' for g in groups[:-1]) + f'if {groups[-1]} ' + body
        if else_txt:
            new += f' else {else_txt}'
        for _ in groups[:-1]:
            new += ' }' + (f' else {else_txt}' if else_txt else '')
        nl = old.count('\n') - new.count('\n')
        if nl < 0:
            raise SliceError('let-chain: rewrite would add lines')
        dropped.append(('let-chain', re.sub(r'\s+', ' ', old[:old.find('{')]) + ' => nested ifs' + (' (else duplicated)' if else_txt else '')))
        text = text[:toks[i].s] + new + '\n' * nl + text[end:]


def rule_derive_structural(text, dropped):
    # used on enum items: attributes were already stripped; prepend normalized derive
    dropped.append(('derive-structural', 'derive list normalised to Clone, Copy, PartialEq, Eq, Structural; other attributes dropped'))
    dm = re.search(r'#\[default\]\s*(?:///[^\n]*\n\s*)*(\w+)', text)
    nm = re.search(r'\benum\s+(\w+)', text)
    text = _strip_inner_attrs(text, dropped)
    tail = ''
    if dm and nm:
        # `#[derive(Default)]` + `#[default] Variant` spelled out, so the default value is known to the verifier
        tail = (f' impl Default for {nm.group(1)} {{ fn default() -> (r: Self) ensures r == {nm.group(1)}::{dm.group(1)} '
                f'{{ {nm.group(1)}::{dm.group(1)} }} }}')
        dropped.append(('derive-structural', f'#[default] {dm.group(1)} => explicit impl Default'))
    return '#[derive(Clone, Copy, PartialEq, Eq, Structural)] ' + text + tail


def _strip_inner_attrs(text, dropped):
    """remove `#[...]` attributes and doc comments inside an item (on fields / variants)."""
    toks = lex(text)
    edits = []
    i = 0
    sig = [t for t in toks if t.kind != 'comment']
    for idx, t in enumerate(sig):
        if t.kind == 'doc':
            edits.append((t.s, t.e))
        if t.kind == 'punct' and t.text == '#' and idx + 1 < len(sig) and sig[idx + 1].text == '[':
            c = _match_paren(text, sig[idx + 1].s)
            edits.append((t.s, c + 1))
    for s, e in sorted(edits, reverse=True):
        if not text[s:e].startswith('//'):
            dropped.append(('attr', text[s:e]))
        text = text[:s] + _blank(text[s:e]) + text[e:]
    return text


def rule_strip_attrs(text, dropped):
    return _strip_inner_attrs(text, dropped)


def rule_derive_clone_copy(text, dropped):
    dropped.append(('derive', 'derive list normalised to Clone, Copy'))
    text = _strip_inner_attrs(text, dropped)
    return '#[derive(Clone, Copy)] ' + text


def rule_anon_lifetime(text, dropped):
    return text


def rule_drop_metrics(text, dropped):
    """delete statements `self.metrics.<path>.<method>(..);` / `metrics.<..>;` (pure counters)."""
    toks, match = _stmt_tokens(text)
    edits = []
    for i, t in enumerate(toks):
        if t.kind == 'ident' and t.text == 'metrics' and (i == 0 or toks[i - 1].text in ('.', ';', '{', '}')):
            # statement start: walk back over `self .` / `ctx .`
            s = i
            while s >= 2 and toks[s - 1].text == '.' and toks[s - 2].kind == 'ident':
                s -= 2
            if s > 0 and toks[s - 1].text not in (';', '{', '}'):
                continue
            # statement end: next `;` at depth 0
            k = i
            ok = True
            while k < len(toks) and toks[k].text != ';':
                if toks[k].text in OPEN:
                    k = match[k]
                elif toks[k].text in ('=', '{', '}'):
                    ok = False
                    break
                k += 1
            if ok and k < len(toks):
                edits.append((toks[s].s, toks[k].e))
    for s, e in sorted(set(edits), reverse=True):
        dropped.append(('drop-metrics', re.sub(r'\s+', ' ', text[s:e])))
        text = text[:s] + _blank(text[s:e]) + text[e:]
    return text


def rule_for_tuple_pattern(text, dropped):
    """`for (a, b) in EXPR {`  =>  `for verif_item in EXPR { let (a, b) = verif_item;` (Verus rejects
    patterns in for heads; textbook desugaring, body verbatim)."""
    while True:
        toks, match = _stmt_tokens(text)
        hit = None
        for i, t in enumerate(toks):
            if t.kind == 'ident' and t.text == 'for' and i + 1 < len(toks) and toks[i + 1].text == '(':
                c = match[i + 1]
                if c + 1 < len(toks) and toks[c + 1].text == 'in':
                    # body open
                    k = c + 2
                    while k < len(toks):
                        if toks[k].text in ('(', '['):
                            k = match[k] + 1
                            continue
                        if toks[k].text == '{':
                            break
                        k += 1
                    hit = (toks[i + 1].s, toks[c].e, toks[k].e)
                    break
        if hit is None:
            return text
        ps, pe, bo = hit
        pat = text[ps:pe]
        dropped.append(('for-tuple-pattern', f'for {pat} in .. {{  =>  for verif_item in .. {{ let {pat} = verif_item;'))
        text = text[:ps] + 'verif_item' + text[pe:bo] + f' let {pat} = verif_item;' + text[bo:]


def rule_chunks_enumerate(text, dropped):
    """`for (i, c) in X.chunks_exact(N).enumerate() {`  =>
       `let mut verif_next: usize = 0; while verif_next < verif_chunk_count(&X, N) { let i = verif_next; verif_next += 1; let c = verif_chunk(&X, i, N);`
    i.e. the iterator protocol spelled out (advance first, then the body), so `continue` keeps its meaning.
    Chunk i of chunks_exact(N) is X[i*N .. i*N+N]; there are len/N chunks. Head only; body verbatim."""
    rx = re.compile(r'for \((\w+), (\w+)\) in (\w+)\.chunks_exact\(([^()]*)\)\.enumerate\(\) \{')
    def rep(m):
        i, c, x, n = m.group(1), m.group(2), m.group(3), m.group(4)
        new = (f'let mut verif_next: usize = 0; while verif_next < verif_chunk_count(&{x}, {n}) {{ let {i} = verif_next; '
               f'verif_next += 1; let {c} = verif_chunk(&{x}, {i}, {n});')
        dropped.append(('chunks-enumerate', m.group(0) + '  =>  ' + new))
        return new
    new, k = rx.subn(rep, text)
    if k == 0:
        raise SliceError('chunks-enumerate: pattern not found')
    return new


def rule_pub_fields(text, dropped):
    """struct fields made `pub` (visibility only; lets spec functions and contracts name them)."""
    new, n = re.subn(r'(?m)^(\s+)([a-z_][a-z0-9_]*): ', lambda m: f'{m.group(1)}pub {m.group(2)}: ', text)
    if n:
        dropped.append(('pub-fields', f'{n} fields made pub'))
    return new


def rule_range_map_collect(text, dropped):
    """`let X = (0..N).map(|i| EXPR).collect_vec();`  =>  an explicit counting loop pushing EXPR (closure body verbatim).
    Soft rule: when the statement has another shape the text is left alone and Verus gets to see it as it is."""
    rx = re.compile(r'let (\w+) = \(0\.\.([\w.]+)\)\s*\.map\(\|(\w+)\| ([^;]*?)\)\s*\.collect_vec\(\);', re.S)
    def rep(m):
        x, n, i, expr = m.group(1), m.group(2), m.group(3), m.group(4)
        new = (f'let mut {x} = Vec::new(); let mut verif_i: usize = 0; while verif_i < {n} {{ let {i} = verif_i; '
               f'{x}.push({expr.strip()}); verif_i += 1; }}')
        pad = m.group(0).count('\n') - new.count('\n')
        dropped.append(('range-map-collect', re.sub(r'\s+', ' ', m.group(0)) + '  =>  explicit loop'))
        return new + '\n' * max(pad, 0)
    return rx.sub(rep, text)


def rule_option_map_unwrap_or(text, dropped):
    """`X.map(|v| EXPR).unwrap_or(D)`  =>  `(match X { Some(v) => EXPR, None => D })` (soft rule)."""
    rx = re.compile(r'(\b\w+(?:\s*\.\s*\w+\(\))+)\s*\.map\(\|(\w+)\| ([^;|]*?)\)\s*\.unwrap_or\(([^;]*?)\);', re.S)
    def rep(m):
        x, v, expr, d = m.group(1), m.group(2), m.group(3).strip(), m.group(4).strip()
        x = re.sub(r'\s+', '', x)
        x = re.sub(r'\s+', '', x)
        new = f'(match {x} {{ Some({v}) => {expr}, None => {d} }});'
        pad = m.group(0).count('\n') - new.count('\n')
        dropped.append(('option-map-unwrap-or', re.sub(r'\s+', ' ', m.group(0)) + '  =>  match'))
        return new + '\n' * max(pad, 0)
    return rx.sub(rep, text)


def rule_iter_map_collect(text, dropped):
    """`let X = Y.into_iter().map(|v| EXPR)[.inspect(..)].collect_vec();`  =>  explicit for loop pushing EXPR
    (closure body verbatim; an `.inspect(|..| tracing..)` stage is dropped). Soft rule."""
    rx = re.compile(r'let (\w+) = (\w+)\s*\.into_iter\(\)\s*\.map\(\|(\w+)\| (.*?)\)\s*(?:\.inspect\(\|\w+\|\s*\)\s*)?\.collect_vec\(\);', re.S)
    def rep(m):
        x, y, v, expr = m.group(1), m.group(2), m.group(3), m.group(4).strip()
        new = f'let mut {x} = Vec::new(); for {v} in {y}.into_iter() {{ {x}.push({expr}); }}'
        pad = m.group(0).count('\n') - new.count('\n')
        if pad < 0:
            new = re.sub(r'\s*\n\s*', ' ', new)
            pad = m.group(0).count('\n')
        dropped.append(('iter-map-collect', re.sub(r'\s+', ' ', m.group(0))[:200] + '  =>  explicit for loop'))
        return new + '\n' * max(pad, 0)
    return rx.sub(rep, text)


def _postfix_start(toks, match, i):
    """index of the first token of the postfix expression chain that ends just before toks[i] (a `.`)."""
    j = i - 1
    while j >= 0:
        t = toks[j]
        if t.kind == 'punct' and t.text in (')', ']'):
            j = match[j] - 1
            continue
        if t.kind == 'punct' and t.text == '}':
            # a block expression is a primary expression: it starts the chain -- together with its `match SCRUTINEE`
            # head when it is the body of a match
            o = match[j]
            k = o - 1
            head = None
            while k >= 0:
                tk = toks[k]
                if tk.kind == 'punct' and tk.text in (')', ']'):
                    k = match[k] - 1
                    continue
                if tk.kind == 'ident' and tk.text == 'match':
                    head = k
                    break
                if tk.kind == 'punct' and tk.text in (';', '{', '}', '=', '(', ',', '[') :
                    break
                if tk.kind == 'ident' and tk.text in ('if', 'while', 'loop', 'for', 'else', 'let', 'return'):
                    break
                k -= 1
            j = (head - 1) if head is not None else (o - 1)
            break
        if t.kind == 'ident' and t.text not in ('let', 'return', 'match', 'if', 'in', 'else', 'mut'):
            j -= 1
            continue
        if t.kind == 'punct' and t.text == '.':
            j -= 1
            continue
        if t.kind == 'punct' and t.text == ':' and j > 0 and toks[j - 1].text == ':':
            j -= 2
            continue
        break
    return j + 1


def _closure_method_rewrite(text, dropped, method, build, rule_name, what):
    """rewrite every `RECV.<method>(|NAME| BODY)` (single closure parameter, identifier or `_`) with build(recv, name, body)."""
    n = 0
    while True:
        if n > 20:
            raise SliceError(f'{rule_name}: too many rewrites')
        toks, match = _stmt_tokens(text)
        target = None
        for i in range(len(toks) - 5):
            if (toks[i].text == '.' and toks[i + 1].kind == 'ident' and toks[i + 1].text == method and toks[i + 2].text == '('
                    and toks[i + 3].text == '|'):
                k = i + 4
                while k < len(toks) and toks[k].text != '|':
                    k = match[k] + 1 if toks[k].text in OPEN else k + 1
                if k < len(toks) and k > i + 4:
                    target = (i, k)
                    break
        if target is None:
            break
        i, k = target
        r0 = _postfix_start(toks, match, i)
        close = match[i + 2]
        recv = text[toks[r0].s:toks[i].s]
        name = text[toks[i + 4].s:toks[k - 1].e]      # the closure's parameter pattern
        if re.match(r'^\w+\s*:', name):
            name = name.split(':', 1)[0].strip()      # `|x: &T|` -> `x` (the type is known from the receiver)
        body = text[toks[k].e:toks[close].s]
        new = build(recv, name, body)
        old = text[toks[r0].s:toks[close].e]
        d = old.count('\n') - new.count('\n')
        if d < 0:
            raise SliceError(f'{rule_name} would add lines')
        text = text[:toks[r0].s] + new + '\n' * d + text[toks[close].e:]
        n += 1
    if n:
        # soft rule: the shape it rewrites may legitimately be absent
        dropped.append((rule_name, f'{n}x {what}'))
    return text


def rule_option_inspect(text, dropped):
    """`RECV.inspect(|NAME| BODY)` on an Option  ->  `{ let verif_inspected = RECV; if let Some(NAME) = verif_inspected.as_ref() { BODY; } verif_inspected }`"""
    return _closure_method_rewrite(
        text, dropped, 'inspect',
        lambda recv, name, body: f'{{ let verif_inspected = {recv}; if let Some({name}) = verif_inspected.as_ref() {{ {body}; }} verif_inspected }}',
        'option-inspect', 'Option::inspect(closure) written as if-let on the same value')


def rule_result_inspect(text, dropped):
    """`RECV.inspect(|NAME| BODY)` on a Result  ->  `{ let verif_inspected = RECV; if let Ok(NAME) = verif_inspected.as_ref() { BODY; } verif_inspected }`"""
    return _closure_method_rewrite(
        text, dropped, 'inspect',
        lambda recv, name, body: f'{{ let verif_inspected = {recv}; if let Ok({name}) = verif_inspected.as_ref() {{ {body}; }} verif_inspected }}',
        'result-inspect', 'Result::inspect(closure) written as if-let on the same value')


def rule_option_map(text, dropped):
    """`RECV.map(|NAME| BODY)` on an Option  ->  `match RECV { Some(NAME) => Some(BODY), None => None }`"""
    return _closure_method_rewrite(
        text, dropped, 'map',
        lambda recv, name, body: f'(match {recv} {{ Some({name}) => Some({body}), None => None }})',
        'option-map', 'Option::map(closure) written as a match')


def rule_iter_reduce(text, dropped):
    """`RECV.iter().reduce(|A, B| BODY)`  and  `RECV.iter().max_by_key(|PAT| KEY)`  ->  an explicit loop over RECV.iter()
    keeping the selected element in `verif_best` (initialised by the unit's `verif_no_element(&RECV)`, which only fixes the type; std semantics: reduce folds left to right; max_by_key keeps the LAST
    of several maximal elements)."""
    n = 0
    while True:
        if n > 10:
            raise SliceError('iter-reduce: too many rewrites')
        toks, match = _stmt_tokens(text)
        target = None
        for i in range(len(toks) - 8):
            if (toks[i].text == '.' and toks[i + 1].text == 'iter' and toks[i + 2].text == '(' and toks[i + 3].text == ')'
                    and toks[i + 4].text == '.' and toks[i + 5].text in ('reduce', 'max_by_key') and toks[i + 6].text == '(' and toks[i + 7].text == '|'):
                k = i + 8
                while k < len(toks) and toks[k].text != '|':
                    k = match[k] + 1 if toks[k].text in OPEN else k + 1
                target = (i, k)
                break
        if target is None:
            break
        i, k = target
        r0 = _postfix_start(toks, match, i)
        close = match[i + 6]
        recv = text[toks[r0].s:toks[i].s]
        params = text[toks[i + 8].s:toks[k - 1].e]
        body = text[toks[k].e:toks[close].s]
        if toks[i + 5].text == 'reduce':
            parts = _split_args(params)
            if len(parts) != 2:
                raise SliceError('iter-reduce: reduce closure must have two parameters')
            a, b = parts[0].strip(), parts[1].strip()
            step = f'Some({a}) => {{ let {b} = verif_x; Some({body}) }}'
        else:
            step = (f'Some(verif_a) => {{ if ({{ let {params} = verif_a; {body} }}) > ({{ let {params} = verif_x; {body} }}) '
                    f'{{ Some(verif_a) }} else {{ Some(verif_x) }} }}')
        new = (f'{{ let mut verif_best = verif_no_element(&{recv}); for verif_x in {recv}.iter() {{ verif_best = match verif_best {{ None => Some(verif_x), {step} }}; }} verif_best }}')
        old = text[toks[r0].s:toks[close].e]
        d = old.count('\n') - new.count('\n')
        if d < 0:
            raise SliceError('iter-reduce would add lines')
        text = text[:toks[r0].s] + new + '\n' * d + text[toks[close].e:]
        n += 1
    if n:
        dropped.append(('iter-reduce', f'{n}x iterator reduce / max_by_key written as an explicit loop'))
    return text


def rule_handle_ctor(text, dropped):
    """every `RawCacheEntry { .. }` struct literal (a handle taking over a looked-up record; its Drop gives the reference and
    the eviction pin back) is counted in the ghost variable `verif_handles`:
    `RawCacheEntry { .. }` -> `{ proof { verif_handles = verif_handles + 1; } RawCacheEntry { .. } }` (soft)"""
    n = 0
    pos = 0
    while True:
        toks, match = _stmt_tokens(text)
        target = None
        for i in range(len(toks) - 1):
            if toks[i].s >= pos and toks[i].kind == 'ident' and toks[i].text == 'RawCacheEntry' and toks[i + 1].text == '{':
                # not a struct definition / impl header / pattern after `let`
                if i > 0 and toks[i - 1].text in ('struct', 'impl', 'for', 'let', '->', ':', '<', '|'):
                    continue
                target = i
                break
        if target is None:
            break
        i = target
        close = match[i + 1]
        new = '{ proof { verif_handles = verif_handles + 1; } ' + text[toks[i].s:toks[close].e] + ' }'
        text = text[:toks[i].s] + new + text[toks[close].e:]
        pos = toks[i].s + len('{ proof { verif_handles = verif_handles + 1; } RawCacheEntry')
        n += 1
        if n > 20:
            raise SliceError('handle-ctor: too many rewrites')
    if n:
        dropped.append(('handle-ctor', f'{n}x `RawCacheEntry {{..}}` literal counted in the ghost variable verif_handles'))
    return text


def rule_iter_arg(text, dropped):
    """an iterator chain used as a value -- `X.iter()` followed by `.filter(|p| C)` / `.map(|p| E)` stages (at least one),
    not followed by another adapter -- becomes a block that builds a Vec with an explicit loop, the closure bodies
    verbatim (the unit supplies `verif_new_vec()`, which only fixes the element type): `{ let mut verif_v = verif_new_vec(); for verif_x in X.iter() { [if C {] verif_v.push(E); [}] } verif_v }`.
    Stages apply in source order; a `.filter` after a `.map` sees the mapped value. Soft rule."""
    n = 0
    while True:
        if n > 10:
            raise SliceError('iter-arg: too many rewrites')
        toks, match = _stmt_tokens(text)
        target = None
        for i in range(len(toks) - 6):
            if not (toks[i].text == '.' and toks[i + 1].text == 'iter' and toks[i + 2].text == '(' and toks[i + 3].text == ')'):
                continue
            k = i + 4
            stages = []
            while (k + 3 < len(toks) and toks[k].text == '.' and toks[k + 1].text in ('filter', 'map') and toks[k + 2].text == '('
                   and toks[k + 3].text == '|'):
                close = match[k + 2]
                b = k + 4
                while b < close and toks[b].text != '|':
                    b = match[b] + 1 if toks[b].text in OPEN else b + 1
                pat = text[toks[k + 4].s:toks[b - 1].e]
                body = text[toks[b].e:toks[close].s]
                stages.append((toks[k + 1].text, pat, body))
                k = close + 1
            if not stages:
                continue
            # `.sum()` / `.sum::<T>()` consumes the chain: accumulate instead of building a Vec
            summed = False
            if k + 1 < len(toks) and toks[k].text == '.' and toks[k + 1].text == 'sum':
                j2 = k + 2
                if toks[j2].text == ':':          # turbofish ::<T>
                    while toks[j2].text != '(':
                        j2 += 1
                if toks[j2].text == '(' and match[j2] == j2 + 1:
                    summed = True
                    k = j2 + 2
            # another adapter / consumer follows (e.g. .collect_vec()): not this rule's shape
            if k < len(toks) and toks[k].text == '.':
                continue
            target = (i, k - 1, stages, summed)
            break
        if target is None:
            break
        i, last, stages, summed = target
        r0 = _postfix_start(toks, match, i)
        recv = text[toks[r0].s:toks[i].s]
        cur = 'verif_x'
        pre = ''
        closes = ''
        for idx, (kind, pat, body) in enumerate(stages):
            if kind == 'filter':
                pre += f'if ({{ let {pat} = &{cur}; {body} }}) {{ '
                closes = ' }' + closes
            else:
                nxt = f'verif_y{idx}'
                pre += f'let {nxt} = {{ let {pat} = {cur}; {body} }}; '
                cur = nxt
        new = f'{{ let mut verif_v = verif_new_vec(); for verif_x in {recv}.iter() {{ {pre}verif_v.push({cur});{closes} }} verif_v }}'
        if summed:
            new = f'{{ let mut verif_s = verif_zero(); for verif_x in {recv}.iter() {{ {pre}verif_s = verif_s + {cur};{closes} }} verif_s }}'
        old = text[toks[r0].s:toks[last].e]
        d = old.count('\n') - new.count('\n')
        if d < 0:
            new = re.sub(r'\s*\n\s*', ' ', new)
            d = old.count('\n')
        text = text[:toks[r0].s] + new + '\n' * d + text[toks[last].e:]
        n += 1
    if n:
        dropped.append(('iter-arg', f'{n}x iterator chain (iter + filter/map stages) written as a loop that builds a Vec'))
    return text


def rule_guard_for_each(text, dropped):
    """`RECV.iter().map(|A| A.write()).for_each(|mut G| BODY)` (each guard is moved into the closure call and dropped when it
    returns)  ->  `for A in RECV.iter() { let mut G = A.write(); BODY; }` (same for `.read()` / a non-`mut` parameter). Soft."""
    n = 0
    while True:
        if n > 10:
            raise SliceError('guard-for-each: too many rewrites')
        toks, match = _stmt_tokens(text)
        target = None
        for i in range(len(toks) - 20):
            t = [x.text for x in toks[i:i + 16]]
            if not (t[0] == '.' and t[1] == 'iter' and t[2] == '(' and t[3] == ')' and t[4] == '.' and t[5] == 'map' and t[6] == '('
                    and t[7] == '|' and toks[i + 8].kind == 'ident' and t[9] == '|' and t[10] == t[8] and t[11] == '.'
                    and t[12] in ('write', 'read') and t[13] == '(' and t[14] == ')' and t[15] == ')'):
                continue
            k = i + 16
            if not (toks[k].text == '.' and toks[k + 1].text == 'for_each' and toks[k + 2].text == '(' and toks[k + 3].text == '|'):
                continue
            close = match[k + 2]
            b = k + 4
            params = []
            while toks[b].text != '|':
                params.append(toks[b].text)
                b += 1
            g = [x for x in params if x != 'mut'][-1]
            body = text[toks[b].e:toks[close].s]
            target = (i, close, t[8], t[12], 'mut ' if 'mut' in params else '', g, body)
            break
        if target is None:
            break
        i, close, a, kind, m, g, body = target
        r0 = _postfix_start(toks, match, i)
        recv = text[toks[r0].s:toks[i].s]
        new = f'for {a} in {recv}.iter() {{ let {m}{g} = {a}.{kind}(); {body}; }}'
        end = toks[close].e
        # swallow the statement's `;`
        rest = text[end:]
        mm = re.match(r'\s*;', rest)
        if mm:
            end += mm.end()
        old = text[toks[r0].s:end]
        d = old.count('\n') - new.count('\n')
        if d < 0:
            raise SliceError('guard-for-each would add lines')
        text = text[:toks[r0].s] + new + '\n' * d + text[end:]
        n += 1
    if n:
        dropped.append(('guard-for-each', f'{n}x `.iter().map(|s| s.write()).for_each(|mut g| ..)` written as a for loop with a guard binding'))
    return text


def rule_option_or_else(text, dropped):
    """`RECV.or_else(|| E)` on an Option  ->  `(match RECV { Some(verif_some) => Some(verif_some), None => E })` (soft)"""
    n = 0
    while True:
        if n > 10:
            raise SliceError('option-or-else: too many rewrites')
        toks, match = _stmt_tokens(text)
        target = None
        for i in range(len(toks) - 5):
            if (toks[i].text == '.' and toks[i + 1].text == 'or_else' and toks[i + 2].text == '(' and toks[i + 3].text == '|'
                    and toks[i + 4].text == '|' and toks[i + 4].s == toks[i + 3].e):
                target = i
                break
        if target is None:
            break
        i = target
        r0 = _postfix_start(toks, match, i)
        close = match[i + 2]
        recv = text[toks[r0].s:toks[i].s]
        body = text[toks[i + 4].e:toks[close].s]
        new = f'(match {recv} {{ Some(verif_some) => Some(verif_some), None => {body} }})'
        old = text[toks[r0].s:toks[close].e]
        d = old.count('\n') - new.count('\n')
        if d < 0:
            raise SliceError('option-or-else would add lines')
        text = text[:toks[r0].s] + new + '\n' * d + text[toks[close].e:]
        n += 1
    if n:
        dropped.append(('option-or-else', f'{n}x Option::or_else(closure) written as a match'))
    return text


def rule_mut_self(text, dropped):
    """`fn f(mut self, ..) -> T { BODY }` (Verus: "mut self" unsupported)  ->  `fn f(self, ..) -> T { let mut verif_self = self; BODY }`
    with every `self` of BODY renamed to `verif_self`; in the contract `self` is then the value passed in (soft)"""
    m = re.search(r'\(\s*mut\s+self\b', text)
    if not m:
        return text
    text = text[:m.start()] + re.sub(r'mut\s+self', 'self', m.group(0)) + text[m.end():]
    body_open, body_close = fn_parts(text)
    body = text[body_open + 1:body_close]
    out = []
    pos = 0
    for t in lex(body):
        if t.kind not in ('comment', 'doc', 'str') and t.text == 'self':
            out.append(body[pos:t.s])
            out.append('verif_self')
            pos = t.e
    out.append(body[pos:])
    text = text[:body_open + 1] + ' let mut verif_self = self;' + ''.join(out) + text[body_close:]
    dropped.append(('mut-self', '`mut self` parameter written as `self` + `let mut verif_self = self;`, body renamed'))
    return text


def _scrutinee_head(toks, match, r0, call_close):
    """If the expression starting at token r0 (ending at call_close) lies in the head of a `for .. in EXPR {`, `match EXPR {`,
    `if let P = EXPR {` or `while let P = EXPR {`, return (keyword, index of the keyword token, index of the `{` that opens
    the loop body / the arms / the then-block); else None."""
    rev = {v: k for k, v in match.items()}
    k = r0 - 1
    kw = None
    while k >= 0:
        t = toks[k]
        if t.text in CLOSE and k in rev:
            if t.text == '}':
                return None
            k = rev[k] - 1
            continue
        if t.text in OPEN or t.text == ';':
            return None
        if t.kind == 'ident' and t.text == 'match':
            kw = ('match', k)
            break
        if t.kind == 'ident' and t.text == 'in':
            j = k - 1
            while j >= 0 and not (toks[j].kind == 'ident' and toks[j].text == 'for'):
                if toks[j].text in (';', '{', '}'):
                    return None
                j -= 1
            if j < 0:
                return None
            kw = ('for', j)
            break
        if t.kind == 'ident' and t.text == 'let' and k >= 1 and toks[k - 1].kind == 'ident' and toks[k - 1].text in ('if', 'while'):
            kw = (toks[k - 1].text, k - 1)
            break
        k -= 1
    if kw is None:
        return None
    # forward: the first `{` at depth 0 after the call
    j = call_close + 1
    while j < len(toks):
        t = toks[j]
        if t.text == '{':
            return kw[0], kw[1], j
        if t.text in ('(', '['):
            j = match[j] + 1
            continue
        if t.text in (';', '}', ')', ']'):
            return None
        j += 1
    return None


def rule_lock_scope(text, dropped):
    """Make the lifetime of a shard-lock guard explicit and count it in the ghost variable `verif_locks`.
       `RECV.write().with(|mut NAME| BODY)`  ->  `{ let mut NAME = RECV.verif_lock_write(); proof { verif_locks = verif_locks + 1; }
                                                   let verif_with_r = BODY; proof { verif_locks = verif_locks - 1; } verif_with_r }`
       `RECV.write().METHOD(ARGS)` (temporary guard) -> the same with a guard named verif_guard.
       (`with` consumes the guard: the lock is released when it returns; a temporary guard is released at the end of the
       full expression.) Any other use of `.write()` / `.read()` is left alone and will not compile against the stand-ins."""
    guard = 0
    n = 0
    while True:
        guard += 1
        if guard > 40:
            raise SliceError('lock-scope: too many rewrites')
        toks, match = _stmt_tokens(text)
        target = None
        for i in range(len(toks) - 6):
            if not (toks[i].text == '.' and toks[i + 1].kind == 'ident' and toks[i + 1].text in ('write', 'read')
                    and toks[i + 2].text == '(' and toks[i + 3].text == ')' and toks[i + 4].text == '.'
                    and toks[i + 5].kind == 'ident' and toks[i + 6].text == '('):
                continue
            j = _postfix_start(toks, match, i) - 1
            target = (i, j + 1)
            break
        if target is None:
            break
        i, r0 = target
        recv = text[toks[r0].s:toks[i].s]
        kind = toks[i + 1].text
        call_open = i + 6
        call_close = match[call_open]
        inc = ' proof { verif_locks = verif_locks + 1; } '
        dec = ' proof { verif_locks = verif_locks - 1; } '
        if toks[i + 5].text == 'with':
            if toks[i + 7].text != '|':
                raise SliceError('lock-scope: `with` without a closure literal')
            k = i + 8
            names = []
            while toks[k].text != '|':
                names.append(toks[k].text)
                k += 1
            name = [x for x in names if x != 'mut'][-1]
            body = text[toks[k].e:toks[call_close].s]
            m = 'mut ' if kind == 'write' else ''
            new = (f'{{ let {m}{name} = {recv}.verif_lock_{kind}();{inc}let verif_with_r = {body};{dec}verif_with_r }}')
        else:
            meth = toks[i + 5].text
            args = text[toks[call_open].s:toks[call_close].e]
            m = 'mut ' if kind == 'write' else ''
            head = _scrutinee_head(toks, match, r0, call_close)
            if head is not None:
                # the temporary guard sits in the iterator expression of a `for`, the scrutinee of a `match` or of an
                # `if let` / `while let`: temporaries of these live until the END of the loop / match / then-block
                kw, kw_tok, blk_open = head
                blk_close = match[blk_open]
                if kw in ('if', 'while') and blk_close + 1 < len(toks) and toks[blk_close + 1].text == 'else':
                    raise SliceError('lock-scope: a lock guard temporary in an `if let .. else` scrutinee is not supported')
                gname = f'verif_guard{n}'
                pre = f'{{ let {m}{gname} = {recv}.verif_lock_{kind}();{inc}'
                a, b, c, e = toks[kw_tok].s, toks[r0].s, toks[i + 4].s, toks[blk_close].e
                if kw in ('for', 'while'):
                    text = text[:a] + pre + text[a:b] + gname + text[c:e] + dec + '}' + text[e:]
                else:
                    text = text[:a] + pre + 'let verif_with_r = ' + text[a:b] + gname + text[c:e] + ';' + dec + 'verif_with_r }' + text[e:]
                n += 1
                continue
            new = (f'{{ let {m}verif_guard = {recv}.verif_lock_{kind}();{inc}let verif_with_r = verif_guard.{meth}{args};{dec}verif_with_r }}')
        old = text[toks[r0].s:toks[call_close].e]
        d = old.count('\n') - new.count('\n')
        if d < 0:
            raise SliceError('lock-scope would add lines')
        text = text[:toks[r0].s] + new + '\n' * d + text[toks[call_close].e:]
        n += 1
    # let-bound guards: `let [mut] NAME = RECV.write();` -- the guard lives to the end of the enclosing block unless it is
    # dropped explicitly (`drop(NAME);`). At the top level of the extracted body that is the end of the function: the
    # counter stays raised. In an inner block the decrement is placed before the closing brace, which is only right when
    # the block has no tail expression (otherwise: unsupported, the extraction fails => undecided).
    guard = 0
    while True:
        guard += 1
        if guard > 20:
            raise SliceError('lock-scope: too many let-bound guards')
        toks, match = _stmt_tokens(text)
        target = None
        for i in range(len(toks) - 4):
            if (toks[i].text == '.' and toks[i + 1].kind == 'ident' and toks[i + 1].text in ('write', 'read')
                    and toks[i + 2].text == '(' and toks[i + 3].text == ')' and toks[i + 4].text == ';'):
                r0 = _postfix_start(toks, match, i)
                if r0 >= 3 and toks[r0 - 1].text == '=' and toks[r0 - 2].kind == 'ident':
                    l = r0 - 3
                    if toks[l].text == 'mut':
                        l -= 1
                    if l >= 0 and toks[l].text == 'let':
                        target = (i, r0, toks[r0 - 2].text)
                        break
        if target is None:
            break
        i, r0, name = target
        kind = toks[i + 1].text
        # enclosing block: first unmatched `}` after the statement
        depth = 0
        close = None
        for k in range(i + 5, len(toks)):
            if toks[k].text in OPEN:
                depth += 1
            elif toks[k].text in CLOSE:
                if depth == 0:
                    close = k
                    break
                depth -= 1
        edits = []
        # explicit drop(NAME);
        dropped_explicitly = False
        for k in range(i + 5, close if close is not None else len(toks) - 3):
            if (toks[k].text == 'drop' and toks[k + 1].text == '(' and toks[k + 2].text == name and toks[k + 3].text == ')'
                    and k + 4 < len(toks) and toks[k + 4].text == ';'):
                edits.append((toks[k + 4].e, ' proof { verif_locks = verif_locks - 1; }'))
                dropped_explicitly = True
                break
        if not dropped_explicitly and close is not None:
            prev = toks[close - 1].text
            if prev not in (';', '}', '{'):
                raise SliceError('lock-scope: a let-bound guard in an inner block with a tail expression is not supported')
            edits.append((toks[close].s, ' proof { verif_locks = verif_locks - 1; } '))
        edits.append((toks[i + 4].e, ' proof { verif_locks = verif_locks + 1; }'))
        edits.append((toks[i + 1].s, None))  # rename marker
        for off, ins in sorted(edits, key=lambda e: e[0], reverse=True):
            if ins is None:
                text = text[:off] + 'verif_lock_' + kind + text[off + len(kind):]
            else:
                text = text[:off] + ins + text[off:]
        n += 1
    if n:
        dropped.append(('lock-scope', f'{n} lock guard scopes made explicit (guard binding + ghost counter verif_locks)'))
    return text


RULES = {
    'drop-tracing': rule_drop_tracing,
    'assert-eq': rule_assert_eq,
    'mem-take': rule_mem_take,
    'de-async': rule_de_async,
    'err-ctx': rule_err_ctx,
    'flag-as-membership': rule_flag_as_membership,
    'let-chain': rule_let_chain,
    'derive-structural': rule_derive_structural,
    'derive-clone-copy': rule_derive_clone_copy,
    'strip-attrs': rule_strip_attrs,
    'anon-lifetime': rule_anon_lifetime,
    'drop-metrics': rule_drop_metrics,
    'for-tuple-pattern': rule_for_tuple_pattern,
    'range-map-collect': rule_range_map_collect,
    'option-map-unwrap-or': rule_option_map_unwrap_or,
    'iter-map-collect': rule_iter_map_collect,
    'pub-fields': rule_pub_fields,
    'chunks-enumerate': rule_chunks_enumerate,
    'lock-scope': rule_lock_scope,
    'option-inspect': rule_option_inspect,
    'result-inspect': rule_result_inspect,
    'option-map': rule_option_map,
    'iter-reduce': rule_iter_reduce,
    'handle-ctor': rule_handle_ctor,
    'iter-arg': rule_iter_arg,
    'guard-for-each': rule_guard_for_each,
    'option-or-else': rule_option_or_else,
    'mut-self': rule_mut_self,
}


def apply_rules(text, rules, dropped):
    for r in rules:
        if r.startswith('sub:') or r.startswith('sub?:'):
            # sub:/regex/replacement/  -- explicit, listed verbatim in evidence
            m = re.match(r'sub\??:@([^@]*)@([^@]*)@$', r)
            if not m:
                raise SliceError(f'bad sub rule {r}')
            rx, rep = m.group(1), m.group(2).replace('\\n', '\n')
            def _pad(_m, rep=rep):
                out = re.sub(r'\\(\d)', lambda g: _m.group(int(g.group(1))) or '', rep)
                d = _m.group(0).count('\n') - out.count('\n')
                if d < 0:
                    raise SliceError(f'rule {r} would add lines')
                return out + '\n' * d
            new, n = re.subn(rx, _pad, text)
            if n == 0 and not r.startswith('sub?:'):
                raise SliceError(f'rule {r} did not apply')
            if n:
                dropped.append(('sub', f'{n}x /{rx}/ => {rep!r}'))
            text = new
            continue
        if r not in RULES:
            raise SliceError(f'unknown rule {r}')
        before = text.count('\n')
        text = RULES[r](text, dropped)
        if text.count('\n') != before:
            raise SliceError(f'rule {r} changed the line count ({before} -> {text.count(chr(10))})')
    return text


# --------------------------------------------------------------------------- template

DIRECTIVE = re.compile(r'^\s*//@(\w[\w-]*)\s*(.*)$')
KV = re.compile(r'(\w+)=(/(?:[^/\\]|\\.)*/|@[^@]*@[^@]*@|\S+)')


def parse_target(rest):
    """'FILE :: PATH k=v k=/re/' -> (file, path, {k: v})"""
    m = re.search(r'\s\w+=', rest)
    head = rest if not m else rest[:m.start()]
    tail = '' if not m else rest[m.start():]
    if '::' not in head:
        raise SliceError(f'bad directive target: {rest!r}')
    file, path = head.split('::', 1)
    # path may itself contain `::`? we use '/' between segments, so join back
    kv = {}
    subs = []
    presubs = []
    for k, v in KV.findall(tail):
        if k == 'sub':
            subs.append('sub:' + v)
            continue
        if k == 'presub':
            # like sub, applied BEFORE the named rules (when a rule needs the shape the substitution produces)
            presubs.append('sub:' + v)
            continue
        if k == 'presubopt':
            # presub that may match nothing
            presubs.append('sub?:' + v)
            continue
        if k == 'subopt':
            # like sub, but allowed to match nothing (the statement it abstracts may legitimately be absent)
            subs.append('sub?:' + v)
            continue
        if len(v) >= 2 and v[0] == '/' and v[-1] == '/':
            v = v[1:-1].replace('\\/', '/')
        kv[k] = v
    kv['rules'] = presubs + [r for r in kv.get('rules', '').split(',') if r] + subs
    return file.strip(), path.strip(), kv


_SOURCES = {}


def get_source(relpath):
    p = os.path.join(REPO, relpath)
    key = (p, os.path.getmtime(p))
    if key not in _SOURCES:
        with open(p) as f:
            _SOURCES[key] = Source(relpath, f.read())
    return _SOURCES[key]


class Out:
    """accumulates generated lines with their origin."""

    def __init__(self):
        self.lines = []   # (text, origin dict)

    def add_tpl(self, text, tpl_line, ctx):
        self.lines.append((text, {'o': 'tpl', 'line': tpl_line, 'ctx': ctx}))

    def add_repo(self, text, file, line, ctx):
        self.lines.append((text, {'o': 'repo', 'file': file, 'line': line, 'ctx': ctx}))


def _depth_scan(text):
    """yield (offset, depth_after, tok) for every significant token"""
    depth = 0
    for t in lex(text):
        if t.kind in ('comment', 'doc'):
            continue
        if t.kind == 'punct' and t.text in OPEN:
            depth += 1
        elif t.kind == 'punct' and t.text in CLOSE:
            depth -= 1
        yield t, depth


def _region_bounds(body, start_rx, end_rx, kv=None):
    """Region selection inside a fn body. Modes (kv):
       whole=1            the entire body
       body=1             the inside of the block opened on the line of the start anchor (loop / if / closure body)
       arm=1              the expression of the match arm whose pattern (ending in `=>`) the start anchor matches
       to=stmt            from the start anchor line to the end of the statement containing the end anchor
                          (first `;` at the bracket depth of the region start, or end of a block statement)
       default            from the start anchor line to the end anchor line, extended until brackets balance
    Anchors should name binders / callees (left-hand sides, loop heads), not expressions that a change may touch."""
    kv = kv or {}
    if kv.get('whole'):
        return 0, len(body)
    ms = re.search(start_rx, body, re.M)
    if not ms:
        raise SliceError(f'region start anchor /{start_rx}/ not found')
    s = body.rfind('\n', 0, ms.start()) + 1
    if kv.get('arm'):
        # the start anchor matches a match-arm pattern up to and including `=>`: the region is the arm's expression --
        # the inside of its block, or (an arm without braces) the expression up to the `,` that ends the arm
        rest = body[ms.end():]
        first = None
        for t, d in _depth_scan(rest):
            first = t
            break
        if first is None:
            raise SliceError('arm=1: nothing after the arm pattern')
        if first.kind == 'punct' and first.text == '{':
            open_off = ms.end() + first.s
            for t, d in _depth_scan(body[open_off:]):
                if d == 0:
                    return open_off + 1, open_off + t.s
            raise SliceError('arm=1: unbalanced block')
        for t, d in _depth_scan(rest):
            if (d == 0 and t.kind == 'punct' and t.text == ',') or d < 0:
                return ms.end(), ms.end() + t.s
        raise SliceError('arm=1: end of the arm not found')
    if kv.get('body'):
        # block opened by the start anchor: the `{` the anchor ends with, else the first `{` after it
        if body[ms.end() - 1] == '{':
            open_off = ms.end() - 1
        else:
            open_off = None
            for t, d in _depth_scan(body[ms.end():]):
                if t.kind == 'punct' and t.text == '{':
                    open_off = ms.end() + t.s
                    break
        if open_off is None:
            raise SliceError('body=1: no block after start anchor')
        for t, d in _depth_scan(body[open_off:]):
            if d == 0:
                close_off = open_off + t.s
                return open_off + 1, close_off
        raise SliceError('body=1: unbalanced block')
    if kv.get('stmts'):
        # N complete statements starting at the line of the start anchor; stops early at the end of the enclosing block.
        # skip=K: the region starts AFTER the first K statements (the anchor names a stable statement BEFORE the region,
        # e.g. a loop head, when the region's own first statement is one a change may rewrite)
        if kv.get('skip'):
            k = int(kv['skip'])
            cnt = 0
            toks0 = [(t, d) for t, d in _depth_scan(body[s:])]
            for idx, (t, d) in enumerate(toks0):
                if d < 0:
                    raise SliceError('skip: the enclosing block ends before the skipped statements do')
                nxt = toks0[idx + 1][0] if idx + 1 < len(toks0) else None
                if d == 0 and t.kind == 'punct' and t.text == ';':
                    cnt += 1
                elif d == 0 and t.kind == 'punct' and t.text == '}':
                    if nxt is None or not (nxt.text in ('else', '.', '?', ';', ')', ',', '=', 'in')):
                        cnt += 1
                if cnt >= k:
                    s = s + t.e
                    break
            else:
                raise SliceError('skip: not enough statements after the anchor')
        n = int(kv['stmts'])
        toks = [(t, d) for t, d in _depth_scan(body[s:])]
        count = 0
        end = None
        for idx, (t, d) in enumerate(toks):
            if d < 0:
                end = s + t.s          # enclosing block closes: region ends before it
                break
            nxt = toks[idx + 1][0] if idx + 1 < len(toks) else None
            if d == 0 and t.kind == 'punct' and t.text == ';':
                count += 1
            elif d == 0 and t.kind == 'punct' and t.text == '}':
                # a block statement (if / for / match / loop ...) ends here unless the expression continues
                if nxt is None or not (nxt.text in ('else', '.', '?', ';', ')', ',', '=', 'in') or (nxt.kind == 'punct' and nxt.text in OPEN and False)):
                    count += 1
            if count >= n:
                end = s + t.e
                break
        if end is None:
            end = len(body)
        return s, end
    me = re.search(end_rx, body[ms.start():], re.M)
    if not me:
        raise SliceError(f'region end anchor /{end_rx}/ not found')
    e0 = ms.start() + me.end()
    if kv.get('to') == 'stmt':
        # statement containing the end anchor starts at line start of the end match; extend to its terminating `;`
        # at depth 0 relative to the region start (or to a closing `}` that returns to depth 0 when no `;` follows)
        st = body.rfind('\n', 0, ms.start() + me.start()) + 1
        for t, d in _depth_scan(body[st:]):
            if d == 0 and t.kind == 'punct' and t.text == ';':
                e = st + t.e
                return s, e
            if d < 0:
                return s, st + t.s
        raise SliceError('to=stmt: statement end not found')
    # extend to end of line, then until brackets are balanced
    e = body.find('\n', e0)
    if e < 0:
        e = len(body)
    while True:
        seg = body[s:e]
        depth = 0
        for t in lex(seg):
            if t.kind == 'punct' and t.text in OPEN:
                depth += 1
            elif t.kind == 'punct' and t.text in CLOSE:
                depth -= 1
        if depth == 0:
            break
        if depth < 0:
            raise SliceError('region end anchor closes more brackets than the region opens')
        ne = body.find('\n', e + 1)
        if ne < 0:
            if e >= len(body):
                raise SliceError('region never balances')
            ne = len(body)
        e = ne
    return s, e


def generate(unit_dir, vacuity=False, mutate=None):
    """returns dict(text, lines(origin list), functions(list of dict), dropped(list))"""
    tpl_path = os.path.join(unit_dir, 'unit.rs')
    with open(tpl_path) as f:
        tpl = f.read().split('\n')
    out = Out()
    functions = []
    lost_anchors = []
    i = 0
    ctx = None
    fn_rx = re.compile(r'\bfn\s+([A-Za-z_][A-Za-z0-9_]*)')
    while i < len(tpl):
        line = tpl[i]
        m = DIRECTIVE.match(line)
        if not m:
            fm = fn_rx.search(line)
            if fm and not line.strip().startswith('//'):
                ctx = fm.group(1)
            out.add_tpl(line, i + 1, ctx)
            i += 1
            continue
        d, rest = m.group(1), m.group(2)
        if d == 'item':
            file, path, kv = parse_target(rest)
            src = get_source(file)
            it = src.find(path)
            s, e = src.item_text(it)
            text = src.text[s:e]
            dropped = []
            attrs = src.attrs_text(it)
            if attrs.strip():
                dropped.append(('attrs', re.sub(r'\s+', ' ', attrs.strip())))
            rules = kv['rules']
            text = apply_rules(text, rules, dropped)
            if mutate:
                text = mutate(file, path, text)
            l0 = src.line_of(s)
            nm = kv.get('name') or (it['name'] or path)
            for k, ln in enumerate(text.split('\n')):
                out.add_repo(ln, file, l0 + k, nm)
            functions.append({'name': nm, 'kind': 'item', 'file': file, 'path': path, 'line': l0,
                              'sha256': hashlib.sha256(src.text[s:e].encode()).hexdigest(), 'rules': rules,
                              'dropped': dropped, 'contracted': False})
            i += 1
            continue
        if d in ('fn', 'region'):
            file, path, kv = parse_target(rest)
            # collect sub-blocks
            blocks = []  # (kind, arg, lines, tpl_line0)
            j = i + 1
            cur = None
            while j < len(tpl):
                mm = DIRECTIVE.match(tpl[j])
                if mm:
                    if mm.group(1) == 'end':
                        break
                    cur = [mm.group(1), mm.group(2).strip(), [], j + 2]
                    blocks.append(cur)
                else:
                    if cur is None:
                        if tpl[j].strip():
                            raise SliceError(f'{tpl_path}:{j+1}: text outside a sub-block')
                    else:
                        cur[2].append(tpl[j])
                j += 1
            if j >= len(tpl):
                raise SliceError(f'{tpl_path}:{i+1}: missing //@end')
            src = get_source(file)
            it = src.find(path)
            if it['kw'] != 'fn' or it['body_open'] is None:
                raise SliceError(f'{path}: not a fn with body')
            s, e = src.item_text(it)
            dropped = []
            attrs = src.attrs_text(it)
            if attrs.strip() and d == 'fn':
                dropped.append(('attrs', re.sub(r'\s+', ' ', attrs.strip())))
            rules = kv['rules']
            if 'assert-eq' not in rules:
                # assert_eq! / strict_assert! / debug_assert! a change may ADD to an extracted function are checks of the code
                # (a reachable failing assert is a panic): always put them in front of the verifier
                rules = list(rules) + ['assert-eq']
            raw = src.text[s:e]
            nm = kv.get('name') or it['name']
            if d == 'fn':
                text = apply_rules(raw, rules, dropped)
                if kv.get('rename'):
                    text, n = re.subn(r'\bfn\s+' + re.escape(it['name']) + r'\b', 'fn ' + kv['rename'], text, count=1)
                    dropped.append(('rename', f"fn {it['name']} => fn {kv['rename']}"))
                if kv.get('ret'):
                    text = name_return(text, kv['ret'])
                l0 = src.line_of(s)
                sha_src = raw
            else:
                bo = src.toks[it['body_open']].e
                bc = src.toks[it['body_close']].s
                body = src.text[bo:bc]
                rs, re_ = _region_bounds(body, kv.get('start'), kv.get('end'), kv)
                sha_src = body[rs:re_]
                text = apply_rules(sha_src, rules, dropped)
                l0 = src.line_of(bo + rs)
            if mutate:
                text = mutate(file, path + ('#' + nm if d == 'region' else ''), text)
            # insertion points
            inserts = []  # (offset, lines, tpl_line0, newline_after_only)
            head_lines = tail_lines = prologue_lines = None
            if d == 'fn':
                body_open, body_close = fn_parts(text)
            loops = None
            for kind, arg, lines, tl in blocks:
                if kind == 'spec':
                    if d != 'fn':
                        raise SliceError('//@spec only in //@fn')
                    inserts.append((body_open, lines, tl))
                elif kind == 'head':
                    head_lines = (lines, tl)
                elif kind == 'tail':
                    tail_lines = (lines, tl)
                    if d == 'fn':
                        # end of the function body (only sound as a place for proof text when the body has no tail expression)
                        inserts.append((body_close, lines, tl))
                elif kind == 'prologue':
                    prologue_lines = (lines, tl)
                    if d == 'fn':
                        inserts.append((body_open + 1, lines, tl))
                elif kind == 'loop':
                    optional = arg.endswith('optional')
                    am = re.match(r'(\d+)(?:\s+iter=(\w+))?', arg)
                    if not am:
                        raise SliceError(f'bad //@loop {arg}')
                    if loops is None:
                        loops = find_loops(text)
                    n = int(am.group(1))
                    if n < 1 or n > len(loops):
                        if optional:
                            lost_anchors.append(f'{nm}: loop {n} (optional) not present')
                            continue
                        raise SliceError(f'{nm}: loop {n} not found ({len(loops)} loops)')
                    kw_off, bo_off = loops[n - 1]
                    inserts.append((bo_off, lines, tl))
                    if am.group(2):
                        im = re.compile(r'\bin\b\s*').search(text, kw_off, bo_off)
                        if not im:
                            raise SliceError(f'{nm}: loop {n} is not a for loop')
                        inserts.append((im.end(), '__inline__' + am.group(2) + ': ', tl))
                elif kind in ('before', 'after'):
                    rx = arg
                    occ = 1
                    om = re.match(r'(\d+):(/.*)$', rx)
                    if om:
                        occ, rx = int(om.group(1)), om.group(2)
                    if len(rx) >= 2 and rx[0] == '/' and rx[-1] == '/':
                        rx = rx[1:-1]
                    ms_all = list(re.finditer(rx, text, re.M))
                    mm = ms_all[occ - 1] if len(ms_all) >= occ else None
                    if not mm:
                        # a proof hint whose anchor statement changed is dropped (the obligation is then
                        # attempted without it) -- never a reason to stop looking at a changed function
                        lost_anchors.append(f'{nm}: /{rx}/')
                        continue
                    if kind == 'before':
                        off = text.rfind('\n', 0, mm.start()) + 1
                    else:
                        off = text.find('\n', mm.end())
                        off = len(text) if off < 0 else off + 1
                    inserts.append((off, lines, tl))
                else:
                    raise SliceError(f'unknown sub-directive {kind}')
            if vacuity:
                if d == 'fn':
                    inserts.append((body_open + 1, ['    proof { assert(false); } // @label vacuity'], 0))
                else:
                    inserts.append((0, ['    proof { assert(false); } // @label vacuity'], 0))
            # emit
            if d == 'region':
                if head_lines is None:
                    raise SliceError('region without //@head')
                for k, ln in enumerate(head_lines[0]):
                    out.add_tpl(ln, head_lines[1] + k, nm)
                out.add_tpl('{', head_lines[1], nm)
                if prologue_lines:
                    for k, ln in enumerate(prologue_lines[0]):
                        out.add_tpl(ln, prologue_lines[1] + k, nm)
            inserts.sort(key=lambda x: x[0])
            pos = 0
            curline = l0
            buf = ''

            def flush_text(upto):
                nonlocal pos, curline, buf
                seg = text[pos:upto]
                pos = upto
                parts = seg.split('\n')
                for k, p in enumerate(parts):
                    buf += p
                    if k < len(parts) - 1:
                        out.add_repo(buf, file, curline, nm)
                        buf = ''
                        curline += 1
            for off, lines, tl in inserts:
                flush_text(off)
                if isinstance(lines, str) and lines.startswith('__inline__'):
                    buf += lines[len('__inline__'):]
                    continue
                if buf.strip():
                    out.add_repo(buf, file, curline, nm)
                    buf = ' ' * (len(buf) - len(buf.lstrip()))
                else:
                    buf = ''
                for k, ln in enumerate(lines):
                    out.add_tpl(ln, tl + k, nm)
            flush_text(len(text))
            if buf:
                out.add_repo(buf, file, curline, nm)
            if d == 'region':
                if tail_lines:
                    for k, ln in enumerate(tail_lines[0]):
                        out.add_tpl(ln, tail_lines[1] + k, nm)
                out.add_tpl('}', j + 1, nm)
            functions.append({'name': nm, 'kind': d, 'file': file, 'path': path, 'line': l0,
                              'sha256': hashlib.sha256(sha_src.encode()).hexdigest(), 'rules': rules,
                              'dropped': dropped, 'contracted': True,
                              'lines': text.count('\n') + 1})
            i = j + 1
            continue
        if d == 'end':
            raise SliceError(f'{tpl_path}:{i+1}: stray //@end')
        # unknown directive: keep as comment
        out.add_tpl(line, i + 1, ctx)
        i += 1
    text = '\n'.join(l for l, _ in out.lines) + '\n'
    return {'text': text, 'origins': [o for _, o in out.lines], 'functions': functions, 'lost_anchors': lost_anchors}


def name_return(text, name):
    """`fn f(..) -> T [where ..] {`  =>  `fn f(..) -> (name: T) [where ..] {` (Verus needs a named
    return value to state a postcondition; no semantic content)."""
    toks = [t for t in lex(text) if t.kind not in ('comment', 'doc')]
    depth = 0
    arrow = None
    end = None
    for i, t in enumerate(toks):
        if t.kind == 'punct' and t.text in ('(', '['):
            depth += 1
        elif t.kind == 'punct' and t.text in (')', ']'):
            depth -= 1
        elif depth == 0 and t.kind == 'punct' and t.text == '-' and i + 1 < len(toks) and toks[i + 1].text == '>' and arrow is None:
            arrow = i
        elif depth == 0 and arrow is not None and ((t.kind == 'ident' and t.text == 'where') or (t.kind == 'punct' and t.text == '{')):
            end = i
            break
        elif depth == 0 and arrow is None and t.kind == 'punct' and t.text == '{':
            break
    if arrow is None or end is None:
        raise SliceError('ret=: function has no return type')
    s = toks[arrow + 2].s
    e = toks[end - 1].e
    return text[:s] + f'({name}: ' + text[s:e] + ')' + text[e:]


LABEL_RX = re.compile(r'//\s*@label\s+([\w.\-]+)')
# inline form, for clauses that a `sub` splices into the middle of a repository line (closure contracts): the label
# names the clause that ends just before it
INLINE_LABEL_RX = re.compile(r'/\*\s*#label\s+([\w.\-]+)\s*\*/')


def labels_in(gen):
    """list of (gen_line_no(1-based), label, ctx) for every labelled clause."""
    res = []
    for k, ln in enumerate(gen['text'].split('\n')):
        m = LABEL_RX.search(ln)
        if m and k < len(gen['origins']):
            res.append((k + 1, m.group(1), gen['origins'][k]['ctx']))
        if k < len(gen['origins']):
            for m2 in INLINE_LABEL_RX.finditer(ln):
                res.append((k + 1, m2.group(1), gen['origins'][k]['ctx']))
    return res

#!/bin/bash
# usage: fw/seed_try.sh <patch.diff> <check args...>   -- apply a seeded change to /repo, run ./check, undo it.
# Evidence of these runs goes to /var/tmp/verif-seed-evidence, never to /verif/evidence.
P=$1; shift
cd /verif
[ -z "$(git -C /repo status --short)" ] || { echo "/repo is not clean"; exit 2; }
git -C /repo apply "$P" || exit 2
VERIF_EVIDENCE_DIR=/var/tmp/verif-seed-evidence ./check "$@"; rc=$?
git -C /repo checkout -- .
[ -z "$(git -C /repo status --short)" ] || echo "WARNING /repo not clean after undo"
exit $rc

#!/bin/bash
# usage: fw/seed_regress.sh [glob]   -- re-run the first detecting check of every recorded seed (seeded/<id>/meta.json
# "detected_by"), print one line per seed. Expected: rc=1 for every seed with a non-empty detected_by.
cd /verif
for d in seeded/${1:-*}/; do
  id=$(basename $d)
  prop=$(python3 -c "import json,sys; m=json.load(open('$d/meta.json')); print((m.get('detected_by') or [''])[0])" 2>/dev/null)
  tier=$(python3 -c "import json,sys; m=json.load(open('$d/meta.json')); print(m.get('tier','quick'))" 2>/dev/null)
  [ -z "$prop" ] && { echo "SEED $id not-detected-by-design"; continue; }
  out=$(fw/seed_try.sh /verif/$d/patch.diff $prop --tier $tier 2>&1); rc=$?
  echo "SEED $id prop=$prop tier=$tier rc=$rc $(echo "$out" | grep -E '^(VIOLATION|UNDECIDED|OK)' | head -1 | cut -c1-120)"
done

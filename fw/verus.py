"""Run Verus on a generated unit file and map the result back to named obligations."""
import json
import os
import re
import subprocess
import time

from . import gen as G

VERUS = os.environ.get('VERIF_VERUS', 'verus')

SEMANTIC = [
    ('postcondition not satisfied', 'ensures'),
    ('precondition not satisfied', 'requires'),
    ('assertion failed', 'assert'),
    ('invariant not satisfied before loop', 'invariant-entry'),
    ('invariant not satisfied at end of loop body', 'invariant-preserved'),
    ('loop invariant not satisfied', 'invariant'),
    ('possible arithmetic underflow/overflow', 'overflow'),
    ('possible division by zero', 'div-by-zero'),
    ('decreases not satisfied', 'decreases'),
    ('could not prove termination', 'decreases'),
    ('possible bit shift underflow/overflow', 'overflow'),
    ('unreachable', 'unreachable'),
    ('failed to prove', 'assert'),
    ('cannot show invariant holds', 'invariant'),
    ('may panic', 'panic'),
    ('unable to prove post-condition of closure', 'closure-ensures'),
]
NONSEM = ['Resource limit (rlimit) exceeded', 'rlimit']

ASSUME_RX = re.compile(r'\b(assume\s*\(|admit\s*\(|assume_specification|external_body|external_fn_specification|uninterp\b|external_type_specification|#\[verifier::external\])')


def run_verus(path, workdir, rlimit=None, threads=8, timeout=600):
    cmd = [VERUS, '--edition', '2024', os.path.basename(path), '--crate-type=lib', '--triggers-mode', 'silent',
           '--output-json', '--time', '--error-format=json', '--multiple-errors', '8', '--num-threads', str(threads)]
    if rlimit:
        cmd += ['--rlimit', str(rlimit)]
    t0 = time.time()
    try:
        p = subprocess.run(cmd, cwd=workdir, capture_output=True, text=True, timeout=timeout)
        out, err, rc = p.stdout, p.stderr, p.returncode
    except subprocess.TimeoutExpired as e:
        out, err, rc = (e.stdout or ''), (e.stderr or '') + '\nTIMEOUT', -9
        if isinstance(out, bytes):
            out = out.decode(errors='replace')
        if isinstance(err, bytes):
            err = err.decode(errors='replace')
    wall = time.time() - t0
    j = None
    k = out.find('{')
    if k >= 0:
        try:
            j = json.loads(out[k:])
        except Exception:
            j = None
    diags = []
    for line in err.split('\n'):
        line = line.strip()
        if line.startswith('{'):
            try:
                d = json.loads(line)
                diags.append(d)
            except Exception:
                pass
    return {'cmd': ' '.join(cmd), 'rc': rc, 'json': j, 'diags': diags, 'stderr': err, 'wall': wall}


def classify(msg):
    for pat, kind in SEMANTIC:
        if pat in msg:
            return kind
    return None


def analyse(unit, g, res):
    """-> dict(status ok|fail|undecided, failures[], fn_results{}, smt_ms, ...)"""
    origins = g['origins']
    lines = g['text'].split('\n')
    failures = []
    hard_errors = []
    for d in res['diags']:
        if d.get('level') != 'error':
            continue
        msg = d.get('message', '')
        if msg.startswith('aborting due to'):
            continue
        kind = classify(msg)
        spans = d.get('spans', [])
        prim = [s for s in spans if s.get('is_primary')] or spans
        if kind is None:
            hard_errors.append({'message': msg, 'rendered': d.get('rendered', '')[:2000]})
            continue
        label = None
        ctx = None
        where = None
        # the function in which the failure occurs = ctx of the non-primary span inside extracted text,
        # else ctx of the primary span
        for s in spans:
            l = s['line_start']
            if 1 <= l <= len(origins):
                o = origins[l - 1]
                if not s.get('is_primary') or ctx is None:
                    if o.get('ctx') and (ctx is None or not s.get('is_primary')):
                        ctx = o['ctx']
                if o['o'] == 'repo' and where is None:
                    where = f"{o['file']}:{o['line']}"
        # inline labels (/* @label x */ behind a clause spliced into a repository line): the first one behind the span
        for s in prim:
            l = s['line_start']
            if 1 <= l <= len(lines) and s['line_start'] == s['line_end']:
                for m in G.INLINE_LABEL_RX.finditer(lines[l - 1]):
                    if m.start() + 1 >= s.get('column_end', 0):
                        label = m.group(1)
                        break
            if label:
                break
        for s in ([] if label else prim + [x for x in spans if not x.get('is_primary')]):
            for l in range(s['line_start'], min(s['line_end'], s['line_start'] + 12) + 1):
                if 1 <= l <= len(lines):
                    m = G.LABEL_RX.search(lines[l - 1])
                    if m:
                        label = m.group(1)
                        break
            if label:
                break
        pl = prim[0]['line_start'] if prim else 0
        if label is None and kind.startswith('invariant') and prim:
            # unlabelled loop invariant: name it by the clause text (stable under template line shifts)
            import hashlib
            txt = ' '.join(t.get('text', '').strip() for t in prim[0].get('text', []))
            for s2 in spans:
                if not s2.get('is_primary') and s2.get('label', '') and 'failed this invariant' in s2.get('label', ''):
                    txt = ' '.join(t.get('text', '').strip() for t in s2.get('text', []))
            label = 'invariant#' + hashlib.sha1(re.sub(r'\s+', ' ', txt).encode()).hexdigest()[:8]
        if label is None:
            # failing obligation sits in code (overflow / assert in extracted text / call-site precondition
            # without label): name it by kind and source position
            o = origins[pl - 1] if 1 <= pl <= len(origins) else {}
            if o.get('o') == 'repo':
                label = f"{kind}@{os.path.basename(o['file'])}:{o['line']}"
            else:
                label = f"{kind}@tpl:{o.get('line')}"
        failures.append({
            'id': f"{unit}.{ctx}.{label}", 'kind': kind, 'message': msg, 'where': where,
            'gen_line': pl, 'gen_col': (prim[0].get('column_start', 1) if prim else 1), 'rendered': d.get('rendered', '')[:3000],
            # an UNLABELLED assert of the template text is a proof hint; a labelled one is a contract clause
            'hint': bool(kind == 'assert' and label.startswith('assert@tpl:')),
        })
    fn_results = {}
    smt_ms = 0
    j = res['json']
    if j:
        try:
            for mod in j['times-ms']['smt']['smt-run-module-times']:
                for fb in mod.get('function-breakdown', []):
                    name = fb['function'].split('::', 1)[-1]
                    fn_results[name] = {'ok': fb['success'], 'ms': fb['time-micros'] / 1000.0, 'rlimit': fb['rlimit'], 'mode': fb.get('mode:')}
            smt_ms = j['times-ms']['smt']['total']
        except Exception:
            pass
    vr = (j or {}).get('verification-results', {})
    status = 'ok'
    if hard_errors or j is None or vr.get('encountered-vir-error'):
        status = 'undecided'
    elif failures:
        status = 'fail'
    elif not vr.get('success'):
        status = 'undecided'
    if any(n in res['stderr'] for n in NONSEM):
        status = 'undecided' if not failures else status
    return {'status': status, 'failures': failures, 'hard_errors': hard_errors, 'fn_results': fn_results,
            'smt_ms': smt_ms, 'verified': vr.get('verified', 0), 'errors': vr.get('errors', 0), 'wall': res['wall'],
            'cmd': res['cmd'], 'total_ms': (j or {}).get('times-ms', {}).get('total')}


def scan_assumptions(g):
    out = []
    for k, ln in enumerate(g['text'].split('\n')):
        code = ln.split('//')[0]
        if ASSUME_RX.search(code):
            out.append({'gen_line': k + 1, 'text': ln.strip()[:200]})
    return out


def blank_hint_asserts(text, positions):
    """Blank (keeping the line structure) the `assert ..;` / `assert .. by { .. }` statements of the generated text that
    contain the given (line, col) positions: a proof hint that does not hold on the current text is dropped, the contract
    clauses are then attempted without it. Returns (new_text, number_blanked)."""
    from .rustsrc import lex, OPEN, CLOSE
    toks = [t for t in lex(text) if t.kind not in ('comment', 'doc')]
    line_starts = [0]
    for i, c in enumerate(text):
        if c == '\n':
            line_starts.append(i + 1)
    match = {}
    stack = []
    for i, t in enumerate(toks):
        if t.kind == 'punct' and t.text in OPEN:
            stack.append(i)
        elif t.kind == 'punct' and t.text in CLOSE and stack:
            match[stack.pop()] = i
    spans = []
    for (ln, col) in positions:
        if not (1 <= ln <= len(line_starts)):
            continue
        off = line_starts[ln - 1] + max(0, col - 1)
        # innermost `assert` statement whose extent contains off
        best = None
        for i, t in enumerate(toks):
            if not (t.kind == 'ident' and t.text == 'assert') or t.s > off:
                continue
            # extent of the statement
            j = i + 1
            end = None
            depth_guard = 0
            while j < len(toks):
                u = toks[j]
                if u.kind == 'punct' and u.text in OPEN:
                    if u.text == '{' and j > i + 1 and toks[j - 1].kind == 'ident' and toks[j - 1].text == 'by':
                        end = toks[match[j]].e if j in match else None
                        # optional trailing `;`
                        k = match.get(j, j) + 1
                        if k < len(toks) and toks[k].text == ';':
                            end = toks[k].e
                        break
                    if j not in match:
                        break
                    j = match[j] + 1
                    continue
                if u.kind == 'punct' and u.text == ';':
                    end = u.e
                    break
                if u.kind == 'punct' and u.text in CLOSE:
                    break
                j += 1
            if end is not None and t.s <= off < end:
                if best is None or t.s > best[0]:
                    best = (t.s, end)
        if best and best not in spans:
            spans.append(best)
    out = list(text)
    for s0, e0 in spans:
        for i in range(s0, e0):
            if out[i] != '\n':
                out[i] = ' '
    return ''.join(out), len(spans)

"""Minimal Rust source slicer: tokenizer, bracket matching, item lookup by path.

No dependencies. Only what the extractor needs: find an item (fn / struct / enum / const / type /
impl / trait / mod) by path in a source file and return its byte range, the range of its
signature and body, and the loops inside a body.
"""
import re


class SliceError(Exception):
    """Raised when an item / anchor cannot be located (=> check is undecided, exit 2)."""


IDENT_START = re.compile(r'[A-Za-z_]')
IDENT_RE = re.compile(r'[A-Za-z_][A-Za-z0-9_]*')
NUM_RE = re.compile(r'[0-9][A-Za-z0-9_]*(\.[0-9][A-Za-z0-9_]*)?')


class Tok:
    __slots__ = ('kind', 's', 'e', 'text')

    def __init__(self, kind, s, e, text):
        self.kind, self.s, self.e, self.text = kind, s, e, text

    def __repr__(self):
        return f'{self.kind}:{self.text!r}@{self.s}'


def lex(src):
    """Return list of significant tokens (comments and whitespace skipped but doc comments kept
    as kind 'doc')."""
    toks = []
    i, n = 0, len(src)
    while i < n:
        c = src[i]
        if c.isspace():
            i += 1
            continue
        if src.startswith('//', i):
            j = src.find('\n', i)
            if j < 0:
                j = n
            kind = 'doc' if (src.startswith('///', i) and not src.startswith('////', i)) or src.startswith('//!', i) else 'comment'
            toks.append(Tok(kind, i, j, src[i:j]))
            i = j
            continue
        if src.startswith('/*', i):
            depth, j = 1, i + 2
            while j < n and depth:
                if src.startswith('/*', j):
                    depth += 1
                    j += 2
                elif src.startswith('*/', j):
                    depth -= 1
                    j += 2
                else:
                    j += 1
            toks.append(Tok('comment', i, j, src[i:j]))
            i = j
            continue
        # raw strings / byte strings
        m = re.match(r'(b|c)?r(#*)"', src[i:i + 40])
        if m:
            hashes = m.group(2)
            end = '"' + hashes
            j = src.find(end, i + m.end())
            if j < 0:
                raise SliceError('unterminated raw string')
            j += len(end)
            toks.append(Tok('str', i, j, src[i:j]))
            i = j
            continue
        if c == '"' or (c in 'bc' and i + 1 < n and src[i + 1] == '"'):
            j = i + (2 if c != '"' else 1)
            while j < n and src[j] != '"':
                if src[j] == '\\':
                    j += 1
                j += 1
            j += 1
            toks.append(Tok('str', i, j, src[i:j]))
            i = j
            continue
        if c == "'" or (c == 'b' and i + 1 < n and src[i + 1] == "'"):
            k = i + (1 if c == "'" else 2)
            # char literal or lifetime
            if c == "'" and k < n and IDENT_START.match(src[k]) and not (k + 1 < n and src[k + 1] == "'"):
                m = IDENT_RE.match(src, k)
                # lifetime unless followed by closing quote
                if m.end() < n and src[m.end()] == "'" and m.end() - k == 1:
                    toks.append(Tok('char', i, m.end() + 1, src[i:m.end() + 1]))
                    i = m.end() + 1
                else:
                    toks.append(Tok('lifetime', i, m.end(), src[i:m.end()]))
                    i = m.end()
                continue
            j = k
            while j < n and src[j] != "'":
                if src[j] == '\\':
                    j += 1
                j += 1
            j += 1
            toks.append(Tok('char', i, j, src[i:j]))
            i = j
            continue
        if IDENT_START.match(c):
            m = IDENT_RE.match(src, i)
            toks.append(Tok('ident', i, m.end(), m.group(0)))
            i = m.end()
            continue
        if c.isdigit():
            m = NUM_RE.match(src, i)
            e = m.end()
            # avoid swallowing `..` ranges: "0..n"
            if '.' in m.group(0) and src.startswith('..', src.find('.', i)):
                e = src.find('.', i)
            toks.append(Tok('num', i, e, src[i:e]))
            i = e
            continue
        toks.append(Tok('punct', i, i + 1, c))
        i += 1
    return toks


OPEN = {'(': ')', '[': ']', '{': '}'}
CLOSE = {v: k for k, v in OPEN.items()}


class Source:
    def __init__(self, path, text):
        self.path = path
        self.text = text
        self.toks = [t for t in lex(text) if t.kind != 'comment']
        self.match = {}
        stack = []
        for idx, t in enumerate(self.toks):
            if t.kind == 'punct' and t.text in OPEN:
                stack.append(idx)
            elif t.kind == 'punct' and t.text in CLOSE:
                if not stack:
                    raise SliceError(f'{path}: unbalanced {t.text} at {t.s}')
                o = stack.pop()
                if OPEN[self.toks[o].text] != t.text:
                    raise SliceError(f'{path}: mismatched bracket at {t.s}')
                self.match[o] = idx
                self.match[idx] = o
        if stack:
            raise SliceError(f'{path}: unbalanced brackets')
        self._line_starts = [0]
        for m in re.finditer('\n', text):
            self._line_starts.append(m.end())

    def line_of(self, off):
        import bisect
        return bisect.bisect_right(self._line_starts, off)

    # ------------------------------------------------------------------ items
    ITEM_KW = ('fn', 'struct', 'enum', 'impl', 'trait', 'mod', 'const', 'static', 'type', 'use', 'union', 'macro_rules')

    def items(self, lo, hi):
        """Yield items among tokens[lo:hi] (a module or impl/trait body)."""
        i = lo
        while i < hi:
            start = i
            # attributes and docs
            while i < hi:
                t = self.toks[i]
                if t.kind == 'doc':
                    i += 1
                elif t.kind == 'punct' and t.text == '#':
                    j = i + 1
                    if j < hi and self.toks[j].text == '!':
                        j += 1
                    if j < hi and self.toks[j].text == '[':
                        i = self.match[j] + 1
                    else:
                        break
                else:
                    break
            head = i
            # qualifiers
            kw = None
            j = i
            while j < hi:
                t = self.toks[j]
                if t.kind == 'ident' and t.text in ('pub', 'async', 'unsafe', 'default', 'extern'):
                    j += 1
                    if j < hi and self.toks[j].text == '(' and self.toks[j - 1].text == 'pub':
                        j = self.match[j] + 1
                    if j < hi and self.toks[j].kind == 'str':
                        j += 1
                    continue
                if t.kind == 'ident' and t.text == 'const':
                    # `const fn` vs `const NAME`
                    if j + 1 < hi and self.toks[j + 1].text in ('fn', 'unsafe', 'async'):
                        j += 1
                        continue
                    kw = 'const'
                    break
                if t.kind == 'ident' and t.text in self.ITEM_KW:
                    kw = t.text
                    break
                break
            if kw is None:
                # not an item start (e.g. macro invocation); skip to next ; or matching }
                k = i
                while k < hi:
                    t = self.toks[k]
                    if t.kind == 'punct' and t.text in OPEN:
                        k = self.match[k]
                        if t.text == '{':
                            k += 1
                            break
                    elif t.kind == 'punct' and t.text == ';':
                        k += 1
                        break
                    k += 1
                i = max(k, i + 1)
                continue
            kwi = j
            # find end: first `{` at depth 0 -> matching `}`; or `;`
            k = kwi + 1
            body_open = None
            while k < hi:
                t = self.toks[k]
                if t.kind == 'punct' and t.text in ('(', '['):
                    k = self.match[k] + 1
                    continue
                if t.kind == 'punct' and t.text == '{':
                    body_open = k
                    k = self.match[k] + 1
                    # struct X {..} has no trailing ;  but `const X: T = T { .. };` does
                    if kw in ('const', 'static', 'type', 'use'):
                        body_open = None
                        continue
                    break
                if t.kind == 'punct' and t.text == ';':
                    k += 1
                    break
                k += 1
            end = k
            name = None
            if kw != 'impl':
                nk = kwi + 1
                if kw == 'macro_rules':
                    nk += 1
                if nk < hi and self.toks[nk].kind == 'ident':
                    name = self.toks[nk].text
            header_end = self.toks[body_open].s if body_open is not None else self.toks[end - 1].s
            header = re.sub(r'\s+', ' ', self.text[self.toks[kwi].s:header_end]).strip()
            yield {
                'kw': kw, 'name': name, 'header': header,
                'attr_start': start, 'head': head, 'kwi': kwi,
                'body_open': body_open, 'body_close': self.match[body_open] if body_open is not None else None,
                'end': end,
            }
            i = end

    def find(self, path):
        """path: list of segments 'kw name' or 'impl~regex' / 'kw~regex' (regex searched in header).
        Returns the item dict of the last segment."""
        segs = [s.strip() for s in path.split('/') if s.strip()]
        scopes = [(0, len(self.toks))]
        item = None
        for si, seg in enumerate(segs):
            cands = []
            for lo, hi in scopes:
                for it in self.items(lo, hi):
                    if '~' in seg:
                        kw, rx = seg.split('~', 1)
                        if it['kw'] == kw.strip() and re.search(rx.strip(), it['header']):
                            cands.append(it)
                    else:
                        kw, name = seg.split(None, 1)
                        if it['kw'] == kw and it['name'] == name.strip():
                            cands.append(it)
            if not cands:
                raise SliceError(f'{self.path}: item segment {seg!r} of {path!r} not found')
            if si == len(segs) - 1:
                if len(cands) > 1:
                    raise SliceError(f'{self.path}: item {path!r} ambiguous ({len(cands)} matches)')
                item = cands[0]
            else:
                scopes = [(c['body_open'] + 1, c['body_close']) for c in cands if c['body_open'] is not None]
        return item

    def item_text(self, it, with_attrs=False):
        s = self.toks[it['attr_start'] if with_attrs else it['head']].s
        e = self.toks[it['end'] - 1].e
        return s, e

    def attrs_text(self, it):
        if it['head'] == it['attr_start']:
            return ''
        return self.text[self.toks[it['attr_start']].s:self.toks[it['head']].s]


def find_loops(text):
    """In a snippet of Rust (a fn item or region), return list of (kw_offset, body_open_offset)
    for every loop head in textual order."""
    toks = [t for t in lex(text) if t.kind not in ('comment', 'doc')]
    match = {}
    stack = []
    for idx, t in enumerate(toks):
        if t.kind == 'punct' and t.text in OPEN:
            stack.append(idx)
        elif t.kind == 'punct' and t.text in CLOSE and stack:
            o = stack.pop()
            match[o] = idx
    out = []
    for idx, t in enumerate(toks):
        if t.kind == 'ident' and t.text in ('loop', 'while', 'for'):
            if t.text == 'for':
                # skip HRTB `for<'a>` and `impl X for Y`
                if idx + 1 < len(toks) and toks[idx + 1].text == '<':
                    continue
                # `impl .. for ..`: previous significant tokens contain `impl` before any `{`/`;`
                k = idx - 1
                is_impl = False
                while k >= 0 and toks[k].text not in ('{', '}', ';'):
                    if toks[k].kind == 'ident' and toks[k].text == 'impl':
                        is_impl = True
                        break
                    k -= 1
                if is_impl:
                    continue
            k = idx + 1
            while k < len(toks):
                tt = toks[k]
                if tt.kind == 'punct' and tt.text in ('(', '['):
                    k = match.get(k, k) + 1
                    continue
                if tt.kind == 'punct' and tt.text == '{':
                    out.append((t.s, tt.s))
                    break
                k += 1
    return out


def fn_parts(text):
    """For the text of one fn item (starting at qualifiers), return (sig_end, body_open) offsets:
    signature is text[:body_open] and the body starts at body_open ('{')."""
    toks = [t for t in lex(text) if t.kind not in ('comment', 'doc')]
    match = {}
    stack = []
    for idx, t in enumerate(toks):
        if t.kind == 'punct' and t.text in OPEN:
            stack.append(idx)
        elif t.kind == 'punct' and t.text in CLOSE and stack:
            o = stack.pop()
            match[o] = idx
    k = 0
    while k < len(toks):
        t = toks[k]
        if t.kind == 'punct' and t.text in ('(', '['):
            k = match[k] + 1
            continue
        if t.kind == 'punct' and t.text == '{':
            return t.s, toks[match[k]].s
        k += 1
    raise SliceError('fn without body')

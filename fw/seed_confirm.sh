#!/bin/bash
# usage: seed_confirm.sh <worktree> <seed-id> "<cargo test args for the suite>" "<cargo test args selecting the demo>"
# Confirms in the scratch worktree: (1) suite passes with the bug, (2) demo fails with the bug, (3) demo passes without.
set -u
WT=$1; ID=$2; SUITE=$3; DEMO=$4
cd "$WT" || exit 2
export CARGO_TARGET_DIR="$WT/target" CARGO_NET_OFFLINE=true
git checkout -q -- . ; git clean -fdq -e OUT -e target
git apply OUT/patch.diff || { echo "patch does not apply"; exit 2; }
echo "== suite with bug"; cargo test --offline $SUITE 2>&1 | grep -E "^test result|FAILED|panicked" | head -20
S1=${PIPESTATUS[0]}
git apply OUT/demo.diff || { echo "demo does not apply"; exit 2; }
echo "== demo with bug"; cargo test --offline $DEMO 2>&1 | grep -E "^test result|FAILED|panicked|failed" | head -10
D1=${PIPESTATUS[0]}
git apply -R OUT/patch.diff
echo "== demo without bug"; cargo test --offline $DEMO 2>&1 | grep -E "^test result|FAILED|panicked" | head -10
D0=${PIPESTATUS[0]}
git checkout -q -- . ; git clean -fdq -e OUT -e target
echo "RESULT suite_with_bug_rc=$S1 demo_with_bug_rc=$D1 demo_without_bug_rc=$D0"

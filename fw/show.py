import json,sys
unit=sys.argv[1]; tag=sys.argv[2] if len(sys.argv)>2 else 'main'
n=int(sys.argv[3]) if len(sys.argv)>3 else 6
k=0
for l in open(f'/verif/.work/{unit}/{tag}/verus.stderr.txt'):
    l=l.strip()
    if l.startswith('{'):
        d=json.loads(l)
        if d.get('level')=='error':
            print(d.get('rendered')); k+=1
            if k>=n: break
    elif l: print(l)

"""check driver: property -> units -> obligations -> evidence / VIOLATION."""
import argparse
import concurrent.futures as cf
import hashlib
import json
import os
import shutil
import sys
import time

from . import gen as G
from . import verus as V
from .rustsrc import SliceError

ROOT = os.path.dirname(os.path.dirname(os.path.abspath(__file__)))
WORK = os.environ.get('VERIF_WORK') or os.path.join(ROOT, '.work')  # VERIF_WORK: separate work dirs let several properties be checked at once


def load_props():
    with open(os.path.join(ROOT, 'props.json')) as f:
        return json.load(f)


def load_known():
    p = os.path.join(ROOT, 'known-findings.json')
    if not os.path.exists(p):
        return {'findings': [], 'fixed': []}
    with open(p) as f:
        return json.load(f)


def load_baseline(unit):
    p = os.path.join(ROOT, 'baseline', unit + '.json')
    if not os.path.exists(p):
        return None
    with open(p) as f:
        return json.load(f)


def _verus_once(unit, unit_dir, tag, vacuity=False, mutate=None, threads=8, edit=None):
    wd = os.path.join(WORK, unit, tag)
    os.makedirs(wd, exist_ok=True)
    g = G.generate(unit_dir, vacuity=vacuity, mutate=mutate)
    if edit:
        g['text'] = edit(g['text'])
    path = os.path.join(wd, unit.replace('-', '_') + '.rs')
    with open(path, 'w') as f:
        f.write(g['text'])
    cfgp = os.path.join(unit_dir, 'unit.json')
    cfg = {}
    if os.path.exists(cfgp):
        with open(cfgp) as f:
            cfg = json.load(f)
    res = V.run_verus(path, wd, rlimit=cfg.get('rlimit'), threads=threads, timeout=cfg.get('timeout', 900))
    an = V.analyse(unit, g, res)
    with open(os.path.join(wd, 'verus.stderr.txt'), 'w') as f:
        f.write(res['stderr'])
    return g, res, an


def run_verus_unit(unit, tier):
    unit_dir = os.path.join(ROOT, 'units', unit)
    r = {'unit': unit, 'backend': 'verus', 'status': 'ok', 'obligations': [], 'failed': [], 'functions': [],
         'assumptions': [], 'notes': [], 'vacuity': {}, 'kill': None, 'smt_ms': 0, 'wall': 0.0, 'cmd': ''}
    t0 = time.time()
    try:
        g, res, an = _verus_once(unit, unit_dir, 'main')
    except SliceError as e:
        r['status'] = 'undecided'
        r['notes'].append(f'extraction failed: {e}')
        r['wall'] = time.time() - t0
        return r
    r['cmd'] = an['cmd']
    r['smt_ms'] = an['smt_ms']
    if g.get('lost_anchors'):
        r['notes'].append('proof-hint anchors not found in the current text (hints dropped): ' + '; '.join(g['lost_anchors']))
    r['functions'] = g['functions']
    r['assumptions'] = V.scan_assumptions(g)
    r['fn_results'] = an['fn_results']
    # obligations: labelled clauses + one implicit safety obligation per verified fn
    obs = []
    for ln, label, ctx in G.labels_in(g):
        oid = f'{unit}.{ctx}.{label}'
        if oid not in obs:
            obs.append(oid)
    for fn, fr in an['fn_results'].items():
        short = fn.split('::')[-1]
        if short.startswith('canary_'):
            continue
        oid = f'{unit}.{short}.safety'
        if oid not in obs:
            obs.append(oid)
    r['obligations'] = obs
    # canaries: template fns named canary_* must FAIL
    canaries = {fn: fr for fn, fr in an['fn_results'].items() if fn.split('::')[-1].startswith('canary_')}
    fails = []
    for f in an['failures']:
        ctx = f['id'].split('.')[1] if '.' in f['id'] else ''
        if ctx.startswith('canary_'):
            continue
        fails.append(f)
    bad_canaries = [fn for fn, fr in canaries.items() if fr['ok']]
    if bad_canaries:
        r['status'] = 'undecided'
        r['notes'].append(f'canary obligations unexpectedly verified (vacuous contracts?): {bad_canaries}')
    r['canaries'] = {'total': len(canaries), 'failed_as_expected': len(canaries) - len(bad_canaries)}
    # Proof hints (asserts of the TEMPLATE text inside extracted functions) are not obligations of a property. A hint that
    # no longer holds on the current text (e.g. the statement it was anchored on moved) is dropped and the contract clauses
    # are attempted without it: only a contract clause / a check in repository text that then fails is reported.
    if an['status'] == 'fail' and any(f.get('hint') for f in fails):
        dropped_hints = []
        positions = []
        cur_fails = fails
        for round_ in range(5):
            hs = [f for f in cur_fails if f.get('hint')]
            if not hs:
                break
            positions += [(f['gen_line'], f['gen_col']) for f in hs]
            dropped_hints += [f['id'] for f in hs]
            try:
                g3, res3, an3 = _verus_once(unit, unit_dir, 'nohint', edit=lambda t, ps=list(positions): V.blank_hint_asserts(t, ps)[0])
            except SliceError:
                break
            if an3['status'] == 'undecided':
                break
            cur_fails = [f for f in an3['failures'] if not (f['id'].split('.')[1] if '.' in f['id'] else '').startswith('canary_')]
            an = an3
            fails = cur_fails
        r['notes'].append(f"proof hints that did not hold on the current text were dropped and the unit re-verified without them: {sorted(set(dropped_hints))}")
        if any(f.get('hint') for f in fails):
            # hints keep failing after 5 rounds: not a statement about the property
            fails = [f for f in fails if not f.get('hint')]
            if not fails:
                an = dict(an, status='undecided')
                an.setdefault('hard_errors', [])
        elif not fails:
            an = dict(an, status='ok')
    r['failed'] = fails
    if an['status'] == 'undecided':
        r['status'] = 'undecided'
        for h in an['hard_errors'][:5]:
            r['notes'].append('verus: ' + h['message'] + ' :: ' + h['rendered'][:600])
        if not an['hard_errors']:
            r['notes'].append('verus did not complete: ' + res['stderr'][-800:])
    elif fails:
        r['status'] = 'fail'
    # vacuity variant: every extracted fn / region must FAIL `assert(false)` at body start
    try:
        g2, res2, an2 = _verus_once(unit, unit_dir, 'vacuity', vacuity=True)
        contracted = [f['name'] for f in g['functions'] if f['contracted']]
        reached = set()
        for f in an2['failures']:
            if f['id'].endswith('.vacuity'):
                reached.add(f['id'].split('.')[1])
        missing = [c for c in contracted if c not in reached]
        r['vacuity'] = {'functions': len(contracted), 'reachable': len(contracted) - len(missing), 'vacuous': missing}
        if an2['status'] == 'undecided':
            r['notes'].append('vacuity variant undecided: ' + '; '.join(h['message'] for h in an2['hard_errors'][:3]))
            if r['status'] == 'ok':
                r['status'] = 'undecided'
        elif missing and r['status'] == 'ok':
            r['status'] = 'undecided'
            r['notes'].append(f'vacuous precondition or unreachable body in: {missing}')
    except SliceError as e:
        r['notes'].append(f'vacuity variant: {e}')
    # baseline
    base = None if os.environ.get('VERIF_UPDATE_BASELINE') else load_baseline(unit)
    if base is not None:
        lost = [o for o in base['obligations'] if o not in obs]
        if lost and r['status'] == 'ok':
            r['status'] = 'undecided'
            r['notes'].append(f'obligations of the baseline no longer generated: {lost[:6]}')
        if len(r['assumptions']) > base.get('assumptions', 10 ** 9):
            r['notes'].append(f"assumption count grew: {len(r['assumptions'])} > {base['assumptions']}")
            if r['status'] == 'ok':
                r['status'] = 'undecided'
        r['baseline'] = {'obligations': len(base['obligations'])}
    # thorough: kill mutants of the extracted text (contract-strength guard)
    kp = os.path.join(unit_dir, 'kill.json')
    if tier == 'thorough' and os.path.exists(kp) and r['status'] == 'ok':
        with open(kp) as f:
            kills = json.load(f)
        r['kill'] = run_kills(unit, unit_dir, kills)
    r['wall'] = time.time() - t0
    return r


def run_kills(unit, unit_dir, kills):
    results = []

    def one(idx_k):
        idx, k = idx_k
        hit = {'n': 0}

        def mutate(file, path, text):
            tgt = k['target']
            hit_t = path.endswith(tgt[:-1]) if tgt.endswith('$') else (tgt in path)
            if hit_t and k['find'] in text:
                hit['n'] += 1
                return text.replace(k['find'], k['replace'], 1)
            return text
        try:
            g, res, an = _verus_once(unit, unit_dir, f'kill{idx}', mutate=mutate, threads=2)
        except SliceError as e:
            return {'mutant': k.get('name', idx), 'result': 'error', 'detail': str(e)}
        if hit['n'] == 0:
            return {'mutant': k.get('name', idx), 'result': 'not-applied'}
        failed = [f['id'] for f in an['failures'] if not f['id'].split('.')[1].startswith('canary_')]
        exp = k.get('expect', [])
        if an['status'] == 'undecided':
            return {'mutant': k.get('name', idx), 'result': 'undecided', 'detail': [h['message'] for h in an['hard_errors'][:2]]}
        if not failed:
            return {'mutant': k.get('name', idx), 'result': 'SURVIVED'}
        ok = (not exp) or any(any(f.endswith('.' + e) or e in f for e in exp) for f in failed)
        return {'mutant': k.get('name', idx), 'result': 'killed' if ok else 'killed-by-other', 'by': failed[:4]}
    with cf.ThreadPoolExecutor(max_workers=6) as ex:
        results = list(ex.map(one, enumerate(kills)))
    for idx in range(len(kills)):
        shutil.rmtree(os.path.join(WORK, unit, f'kill{idx}'), ignore_errors=True)
    return {'mutants': len(kills), 'killed': sum(1 for r in results if r['result'].startswith('killed')),
            'survived': [r['mutant'] for r in results if r['result'] == 'SURVIVED'], 'results': results}


def run_unit(unit, tier, seed):
    unit_dir = os.path.join(ROOT, 'units', unit)
    if os.path.exists(os.path.join(unit_dir, 'kani.json')):
        from . import kani as K
        return K.run_kani_unit(unit, tier, seed)
    return run_verus_unit(unit, tier)


def witness_search(prop, unit_results, seed):
    """try to find a concrete failing input on the real code for failing obligations."""
    found = []
    if os.environ.get('VERIF_SKIP_WITNESS'):
        return found
    for r in unit_results:
        if r['status'] != 'fail':
            continue
        if r['backend'] == 'kani':
            for f in r['failed']:
                if f.get('counterexample'):
                    found.append({'unit': r['unit'], 'obligation': f['id'], 'input': f['counterexample']})
            continue
        wp = os.path.join(ROOT, 'units', r['unit'], 'witness.json')
        if not os.path.exists(wp):
            continue
        from . import witness as W
        try:
            found += W.run_witness(r['unit'], [f['id'] for f in r['failed']], seed)
        except Exception as e:  # witness search is best effort
            r['notes'].append(f'witness search failed: {e}')
    return found


def main(argv=None):
    ap = argparse.ArgumentParser()
    ap.add_argument('prop')
    ap.add_argument('--tier', default=os.environ.get('VERIF_TIER', 'quick'))
    ap.add_argument('--replay')
    ap.add_argument('--update-baseline', action='store_true')
    ap.add_argument('--unit', help='run only this unit (debug)')
    a = ap.parse_args(argv)
    seed = int(os.environ.get('VERIF_SEED', '0') or 0)
    if a.update_baseline:
        os.environ['VERIF_UPDATE_BASELINE'] = '1'
    props = load_props()
    if a.replay:
        with open(a.replay) as f:
            rp = json.load(f)
        print(json.dumps(rp, indent=1)[:6000])
        a.prop = rp.get('property', a.prop)
    if a.prop not in props['properties']:
        print(f'unknown or unclaimed property {a.prop}', file=sys.stderr)
        return 2
    P = props['properties'][a.prop]
    units = [u for u in P['units'] if (tier_ok(u, a.tier))]
    units = [u['name'] if isinstance(u, dict) else u for u in units]
    if a.unit:
        units = [a.unit]
    if os.environ.get('VERIF_SKIP_KANI'):
        # development aid (seed regression of the Verus route only); evidence of such a run goes to the redirected directory
        units = [u for u in units if not os.path.exists(os.path.join(ROOT, 'units', u, 'kani.json'))]
        if not os.environ.get('VERIF_EVIDENCE_DIR'):
            print('VERIF_SKIP_KANI needs VERIF_EVIDENCE_DIR', file=sys.stderr)
            return 2
    t0 = time.time()
    os.makedirs(WORK, exist_ok=True)
    with cf.ThreadPoolExecutor(max_workers=max(1, min(4, len(units)))) as ex:
        results = list(ex.map(lambda u: run_unit(u, a.tier, seed), units))
    if a.update_baseline:
        os.makedirs(os.path.join(ROOT, 'baseline'), exist_ok=True)
        for r in results:
            if r['status'] in ('ok', 'fail'):
                failed_ids = {f['id'] for f in r['failed']}
                with open(os.path.join(ROOT, 'baseline', r['unit'] + '.json'), 'w') as f:
                    json.dump({'unit': r['unit'], 'obligations': sorted(r['obligations']),
                               'failing_at_baseline': sorted(failed_ids),
                               'assumptions': len(r['assumptions'])}, f, indent=1)
                print(f"baseline written for {r['unit']}: {len(r['obligations'])} obligations")
    known = load_known()
    known_ids = {k['obligation']: k for k in known.get('findings', []) if k['property'] == a.prop}
    violations = []
    known_hits = []
    undecided = []
    for r in results:
        if r['status'] == 'undecided':
            undecided.append(r)
        for f in r['failed']:
            if f['id'] in known_ids:
                known_hits.append((f, known_ids[f['id']]))
            else:
                violations.append((r, f))
    # A unit the verifier could not decide (lost anchor, construct outside the rules, collaborator API changed) proves
    # nothing. If the unit has an executable restatement of its contracts (witness harness), it is run on the real code:
    # a concrete failing input is a violation of the named obligation whatever the state of the proof; none found leaves
    # the unit undecided (exit 2).
    undecided_witnesses = []
    for r in undecided:
        wp = os.path.join(ROOT, 'units', r['unit'], 'witness.json')
        if r['backend'] == 'kani' or not os.path.exists(wp):
            continue
        from . import witness as W
        try:
            ws = W.run_witness(r['unit'], [], seed)
        except Exception as e:
            r['notes'].append(f'witness search on the undecided unit failed: {e}')
            continue
        seen = set()
        for w in ws:
            oid = f"{r['unit']}.witness.{w['obligation_label']}"
            undecided_witnesses.append(w)
            if oid in seen:
                continue
            seen.add(oid)
            f = {'id': oid, 'kind': 'contract restated as an executable check fails on the real code (unit not decided by the verifier)',
                 'where': w['input'][:300], 'message': 'verifier output: ' + ' | '.join(r['notes'])[:1500]}
            r['failed'].append(f)
            if oid in known_ids:
                known_hits.append((f, known_ids[oid]))
            else:
                violations.append((r, f))
    # bounded stand-ins are run and can raise violations, but are never counted as proved
    bounded_ids = set(o for r in results for o in r.get('bounded_obligations', []))
    total_ob = sum(1 for r in results for o in r['obligations'] if o not in bounded_ids)
    failed_ids = set(f['id'] for r in results for f in r['failed'])
    discharged = sum(1 for r in results for o in r['obligations'] if o not in failed_ids and o not in bounded_ids and r['status'] != 'undecided')
    wall = time.time() - t0
    replay_path = None
    witnesses = []
    if violations:
        witnesses = witness_search(a.prop, results, seed) + undecided_witnesses
        os.makedirs(os.path.join(ROOT, 'replays'), exist_ok=True)
        h = hashlib.sha256(('|'.join(sorted(f['id'] for _, f in violations))).encode()).hexdigest()[:10]
        replay_path = os.path.join(ROOT, 'replays', f'{a.prop}-{h}.json')
        rp = {'property': a.prop, 'tier': a.tier, 'seed': seed,
              'failed_obligations': [{'unit': r['unit'], 'backend': r['backend'], **f} for r, f in violations],
              'witnesses': witnesses,
              'rerun': f'cd /verif && ./check {a.prop} --tier {a.tier}',
              'functions': [{k: fn.get(k) for k in ('name', 'file', 'line', 'sha256')} for r in results for fn in r['functions'] if fn.get('contracted')]}
        with open(replay_path, 'w') as f:
            json.dump(rp, f, indent=1)
    ev = build_evidence(a.prop, P, a.tier, seed, results, total_ob, discharged, wall, violations, known_hits, witnesses)
    # VERIF_EVIDENCE_DIR: used while trying seeded changes, so that the committed evidence stays that of the unchanged tree
    evdir = os.environ.get('VERIF_EVIDENCE_DIR') or os.path.join(ROOT, 'evidence')
    if a.unit and not os.environ.get('VERIF_EVIDENCE_DIR'):
        # a run restricted to one unit (development aid) does not describe the property: keep it out of evidence/
        evdir = os.path.join(ROOT, '.work', 'partial-evidence')
    os.makedirs(evdir, exist_ok=True)
    with open(os.path.join(evdir, a.prop + '.json'), 'w') as f:
        json.dump(ev, f, indent=1)
    for r in results:
        st = r['status']
        print(f"[{a.prop}] unit {r['unit']:<14} {r['backend']:<5} {st:<9} obligations={len(r['obligations'])} failed={len(r['failed'])} "
              f"wall={r['wall']:.1f}s" + (f" kill={r['kill']['killed']}/{r['kill']['mutants']}" if r.get('kill') else ''))
        for n in r['notes']:
            print(f"    note: {n[:1500]}")
        if r.get('kill') and r['kill']['survived']:
            print(f"    WEAK-CONTRACT: mutants not rejected: {r['kill']['survived']}")
    for f, k in known_hits:
        print(f"KNOWN-FINDING: property={a.prop} {k['what']} [{f['id']}]")
    if violations:
        for r, f in violations:
            print(f"  failed obligation {f['id']} ({f['kind']}) {f.get('where') or ''}")
        suffix = '' if witnesses else ' no-failing-input-found'
        print(f"VIOLATION property={a.prop} replay={replay_path}{suffix}")
        return 1
    if undecided:
        print(f"UNDECIDED property={a.prop}: " + ', '.join(r['unit'] for r in undecided))
        return 2
    print(f"OK property={a.prop} obligations={total_ob} discharged={discharged} wall={wall:.1f}s")
    return 0


def tier_ok(u, tier):
    if isinstance(u, dict):
        return tier == 'thorough' or u.get('tier', 'quick') == 'quick'
    return True


def build_evidence(pid, P, tier, seed, results, total_ob, discharged, wall, violations, known_hits, witnesses):
    fns = []
    for r in results:
        for fn in r['functions']:
            if fn.get('contracted'):
                fr = None
                for k, v in (r.get('fn_results') or {}).items():
                    if k.split('::')[-1] == fn['name'] or k.split('::')[-1] == fn.get('rename'):
                        fr = v
                fns.append({'unit': r['unit'], 'backend': r['backend'], 'fn': fn['name'], 'kind': fn['kind'],
                            'source': f"{fn['file']}:{fn['line']}", 'path': fn['path'], 'sha256': fn['sha256'],
                            'rules': fn['rules'], 'dropped': [list(d) for d in fn['dropped']][:40],
                            'smt_ms': fr['ms'] if fr else None, 'rlimit': fr['rlimit'] if fr else None})
    samples = []
    for r in results:
        for o in r['obligations'][:6]:
            samples.append(o)
    trusted = []
    for r in results:
        for a in r['assumptions']:
            trusted.append(f"{r['unit']}: {a['text']}")
    level = P.get('level', 'proof')
    bounded = [b for r in results for b in r.get('bounded', [])]
    cov = {
        'obligations': total_ob,
        'discharged': discharged,
        'checker_cmd': ' ; '.join(sorted(set(r['cmd'] for r in results if r['cmd']))),
        'trusted_base': trusted[:400],
        'samples': samples[:40],
        'units': [{'unit': r['unit'], 'backend': r['backend'], 'status': r['status'], 'obligations': len(r['obligations']),
                   'failed': [f['id'] for f in r['failed']], 'smt_ms': r.get('smt_ms'), 'wall_s': round(r['wall'], 2),
                   'vacuity': r.get('vacuity'), 'canaries': r.get('canaries'), 'kill': r.get('kill'),
                   'proved_harnesses': r.get('proved'), 'bounded_harnesses': r.get('bounded'),
                   'notes': r['notes']} for r in results],
        'functions_under_contract': fns,
        'all_obligations': [o for r in results for o in r['obligations']],
        'bounded_not_counted_as_proved': bounded,
        'bounded_obligations_checked': [o for r in results for o in r.get('bounded_obligations', [])],
        'known_findings_hit': [f['id'] for f, _ in known_hits],
        'witnesses': witnesses,
        'explanation': P.get('explanation', ''),
        'not_decided': P.get('not_decided', ''),
    }
    ev = {
        'property_id': pid, 'tier': tier if tier in ('quick', 'thorough') else 'quick', 'seed': seed, 'level': level,
        'coverage': cov,
        'assumptions': P.get('assumptions', []) + load_props().get('global_assumptions', []),
        'wall_s': round(wall, 2),
        'violations': 1 if violations else 0,
    }
    return ev

"""Kani back end: harness modules and function contracts are injected into a *scratch copy* of
/repo's working tree (never into /repo), `cargo kani` is run there, the copy is deleted."""
import json
import os
import re
import shutil
import subprocess
import tempfile
import time

from .rustsrc import Source, SliceError

ROOT = os.path.dirname(os.path.dirname(os.path.abspath(__file__)))
REPO = os.environ.get('VERIF_REPO', '/repo')
SCRATCH_PARENT = os.environ.get('VERIF_SCRATCH', '/var/tmp')


def make_scratch(units_cfg):
    d = tempfile.mkdtemp(prefix='verif-kani-', dir=SCRATCH_PARENT)
    dst = os.path.join(d, 'repo')
    subprocess.run(['rsync', '-a', '--exclude', 'target', '--exclude', '.git', REPO + '/', dst + '/'], check=True)
    shims = set()
    for cfg in units_cfg:
        shims.update(cfg.get('shims', []))
    if shims:
        with open(os.path.join(dst, 'Cargo.toml'), 'a') as f:
            f.write('\n[patch.crates-io]\n')
            for s in sorted(shims):
                f.write(f'{s} = {{ path = "{os.path.join(ROOT, "shims", s)}" }}\n')
    os.makedirs(os.path.join(dst, '.cargo'), exist_ok=True)
    with open(os.path.join(dst, '.cargo', 'config.toml'), 'a') as f:
        f.write('\n[net]\noffline = true\n')
    return d, dst


def inject(dst, unit, unit_dir, cfg):
    """append harness module(s); insert contract attributes above real fns. Returns dropped/added notes."""
    notes = []
    for inj in cfg.get('inject', []):
        target = os.path.join(dst, inj['into'])
        with open(os.path.join(unit_dir, inj['harness'])) as f:
            htxt = f.read()
        with open(target, 'a') as f:
            if inj.get('raw'):
                f.write('\n' + htxt + '\n')
            else:
                f.write(f"\n#[cfg(kani)]\n#[allow(unused, dead_code)]\nmod verif_kani_{unit.replace('-', '_')} {{\n    use super::*;\n{htxt}\n}}\n")
        notes.append(f"harness module appended to {inj['into']} (cfg(kani) only)")
    # contracts: attributes inserted above the real fn (scratch copy only)
    byfile = {}
    for c in cfg.get('contracts', []):
        byfile.setdefault(c['file'], []).append(c)
    for file, cs in byfile.items():
        p = os.path.join(dst, file)
        with open(p) as f:
            text = f.read()
        src = Source(file, text)
        edits = []
        for c in cs:
            it = src.find(c['path'])
            off = src.toks[it['head']].s
            attrs = ''.join(a + '\n' for a in c['attrs'])
            edits.append((off, attrs))
            notes.append(f"contract attributes on {file}::{c['path']}")
        for off, attrs in sorted(edits, reverse=True):
            text = text[:off] + attrs + text[off:]
        for pre in cfg.get('file_prelude', {}).get(file, []):
            text = pre + '\n' + text
        with open(p, 'w') as f:
            f.write(text)
    return notes


HARNESS_RX = re.compile(r'Checking harness ([\w:]+)\.\.\.')


def parse_kani_output(out):
    """-> {harness_short_name: {status, failed_checks[], checks, time}}"""
    res = {}
    # split per thread prefix
    streams = {}
    for line in out.split('\n'):
        m = re.match(r'Thread (\d+): ?(.*)$', line)
        if m:
            cur = m.group(1)
            streams.setdefault(cur, []).append(m.group(2))
            streams['_last'] = cur
        else:
            cur = streams.get('_last', '0')
            if isinstance(cur, list):
                cur = '0'
            streams.setdefault(cur, []).append(line)
    streams.pop('_last', None)
    for tid, lines in streams.items():
        cur = None
        i = 0
        while i < len(lines):
            ln = lines[i]
            m = HARNESS_RX.search(ln)
            if m:
                cur = m.group(1)
                res[cur] = {'status': 'unknown', 'failed_checks': [], 'checks': None, 'time': None, 'stubs': []}
            elif cur:
                if ln.strip().startswith('- Stub:'):
                    res[cur]['stubs'].append(ln.strip())
                m2 = re.search(r'\*\* (\d+) of (\d+) failed', ln)
                if m2:
                    res[cur]['checks'] = int(m2.group(2))
                    res[cur]['nfailed'] = int(m2.group(1))
                if ln.startswith('Failed Checks:'):
                    desc = ln[len('Failed Checks:'):].strip()
                    loc = lines[i + 1].strip() if i + 1 < len(lines) else ''
                    res[cur]['failed_checks'].append({'desc': desc, 'loc': loc})
                m3 = re.search(r'VERIFICATION:- (\w+)', ln)
                if m3:
                    res[cur]['status'] = m3.group(1)
                m4 = re.search(r'Verification Time: ([\d.]+)s', ln)
                if m4:
                    res[cur]['time'] = float(m4.group(1))
            i += 1
    return res


def run_kani_unit(unit, tier, seed):
    unit_dir = os.path.join(ROOT, 'units', unit)
    with open(os.path.join(unit_dir, 'kani.json')) as f:
        cfg = json.load(f)
    r = {'unit': unit, 'backend': 'kani', 'status': 'ok', 'obligations': [], 'failed': [], 'functions': [],
         'assumptions': [], 'notes': [], 'vacuity': {}, 'kill': None, 'smt_ms': 0, 'wall': 0.0, 'cmd': '',
         'proved': [], 'bounded': []}
    t0 = time.time()
    harnesses = [h for h in cfg['harnesses'] if tier == 'thorough' or h.get('tier', 'quick') == 'quick']
    d = None
    try:
        d, dst = make_scratch([cfg])
        try:
            notes = inject(dst, unit, unit_dir, cfg)
        except (SliceError, OSError) as e:
            r['status'] = 'undecided'
            r['notes'].append(f'injection failed: {e}')
            return r
        r['notes'] += []
        # functions under contract (for evidence): listed in cfg['functions']
        import hashlib
        for fn in cfg.get('functions', []):
            try:
                src = Source(fn['file'], open(os.path.join(REPO, fn['file'])).read())
                it = src.find(fn['path'])
                s, e = src.item_text(it)
                r['functions'].append({'name': it['name'] or fn['path'], 'kind': 'fn', 'file': fn['file'], 'path': fn['path'],
                                       'line': src.line_of(s), 'sha256': hashlib.sha256(src.text[s:e].encode()).hexdigest(),
                                       'rules': ['none: real crate compiled by kani-compiler'] + notes, 'dropped': [], 'contracted': True})
            except (SliceError, OSError) as e:
                r['status'] = 'undecided'
                r['notes'].append(f'function under contract not found: {e}')
                return r
        flags = cfg.get('flags', ['-Z', 'stubbing', '-Z', 'function-contracts'])
        cmd = ['cargo', 'kani', '-p', cfg['crate']] + flags
        for h in harnesses:
            cmd += ['--harness', h['name']]
        cmd += ['-j', str(cfg.get('jobs', 6)), '--output-format', 'terse']
        r['cmd'] = 'CARGO_NET_OFFLINE=true ' + ' '.join(cmd) + '   (in a scratch copy of /repo with the harness module of units/%s appended)' % unit
        env = dict(os.environ, CARGO_NET_OFFLINE='true', CARGO_TARGET_DIR=os.path.join(d, 'target'))
        try:
            p = subprocess.run(cmd, cwd=dst, env=env, capture_output=True, text=True, timeout=cfg.get('timeout', 1500))
            out = p.stdout + '\n' + p.stderr
        except subprocess.TimeoutExpired as e:
            out = ((e.stdout or b'').decode(errors='replace') if isinstance(e.stdout, bytes) else (e.stdout or '')) + '\nTIMEOUT'
            r['status'] = 'undecided'
            r['notes'].append('cargo kani timed out')
        os.makedirs(os.path.join(ROOT, '.work', unit), exist_ok=True)
        with open(os.path.join(ROOT, '.work', unit, 'kani.out.txt'), 'w') as f:
            f.write(out[-2_000_000:])
        parsed = parse_kani_output(out)
        if 'error: could not compile' in out or 'error[E' in out:
            r['status'] = 'undecided'
            errs = [l for l in out.split('\n') if l.startswith('error')][:6]
            r['notes'].append('build failed in scratch copy: ' + ' | '.join(errs))
        for h in harnesses:
            full = [k for k in parsed if k.endswith('::' + h['name']) or k == h['name']]
            obs = [f"{unit}.{h['name']}.{o}" for o in h.get('obligations', ['holds'])]
            r['obligations'] += obs
            if not h.get('complete'):
                r.setdefault('bounded_obligations', [])
                r['bounded_obligations'] += obs
            if not full:
                if r['status'] == 'ok':
                    r['status'] = 'undecided'
                r['notes'].append(f"harness {h['name']} produced no result")
                continue
            hr = parsed[full[0]]
            r['smt_ms'] += int((hr['time'] or 0) * 1000)
            info = {'harness': h['name'], 'checks': hr['checks'], 'time_s': hr['time'], 'stubs': hr['stubs'],
                    'bound': h.get('bound', 'none (loop-free or unwinding assertions pass over full-domain inputs)')}
            for s in hr['stubs']:
                a = {'text': f"{h['name']}: {s}"}
                if a not in r['assumptions']:
                    r['assumptions'].append(a)
            if hr['status'] == 'SUCCESSFUL':
                (r['proved'] if h.get('complete') else r['bounded']).append(info)
                if h.get('expect') == 'fail':
                    r['status'] = 'undecided'
                    r['notes'].append(f"canary harness {h['name']} verified (must fail)")
            elif hr['status'] == 'FAILED':
                if h.get('expect') == 'fail':
                    r['canaries'] = r.get('canaries', {'total': 0, 'failed_as_expected': 0})
                    r['canaries']['total'] += 1
                    r['canaries']['failed_as_expected'] += 1
                    continue
                unwind_only = hr['failed_checks'] and all('unwinding assertion' in fc['desc'] for fc in hr['failed_checks'])
                unsupported = any('unsupported' in fc['desc'].lower() or 'not currently supported' in fc['desc'].lower() for fc in hr['failed_checks'])
                if unwind_only or unsupported or not hr['failed_checks']:
                    if r['status'] == 'ok':
                        r['status'] = 'undecided'
                    r['notes'].append(f"harness {h['name']} failed for a non-semantic reason: {hr['failed_checks'][:3]}")
                    continue
                # which obligation? match labels in failed check descriptions: assert messages carry `[label]`
                hit = []
                for fc in hr['failed_checks']:
                    if 'unwinding assertion' in fc['desc']:
                        continue
                    m = re.search(r'\[([\w.\-]+)\]', fc['desc'])
                    lab = m.group(1) if m else 'holds'
                    oid = f"{unit}.{h['name']}.{lab}"
                    if oid not in [x['id'] for x in hit]:
                        hit.append({'id': oid, 'kind': 'kani-check', 'message': fc['desc'], 'where': fc['loc'], 'rendered': fc['desc'] + ' ' + fc['loc']})
                for x in hit:
                    if x['id'] not in r['obligations']:
                        r['obligations'].append(x['id'])
                r['failed'] += hit
            else:
                if r['status'] == 'ok':
                    r['status'] = 'undecided'
                r['notes'].append(f"harness {h['name']}: status {hr['status']}")
        if r['failed'] and r['status'] != 'undecided':
            r['status'] = 'fail'
            # concrete playback for failing harnesses (counterexample -> replay)
            try:
                names = sorted(set(f['id'].split('.')[1] for f in r['failed']))
                cmd2 = ['cargo', 'kani', '-p', cfg['crate']] + flags + ['-Z', 'concrete-playback', '--concrete-playback=print']
                for n in names[:3]:
                    cmd2 += ['--harness', n]
                p2 = subprocess.run(cmd2, cwd=dst, env=env, capture_output=True, text=True, timeout=600)
                o2 = p2.stdout
                tests = re.findall(r'```\n?(.*?)```', o2, flags=re.S)
                if not tests:
                    tests = re.findall(r'(#\[test\]\s*fn kani_concrete_playback.*?\n\})', o2, flags=re.S)
                for f in r['failed']:
                    for t in tests:
                        if f['id'].split('.')[1] in t or len(names) == 1:
                            f['counterexample'] = t.strip()[:4000]
                            break
            except Exception as e:
                r['notes'].append(f'concrete playback failed: {e}')
        r['vacuity'] = {'note': 'each harness ends in kani::cover!/reachability assertions where stated; canary harnesses with expect=fail must fail'}
    finally:
        if d:
            shutil.rmtree(d, ignore_errors=True)
        r['wall'] = time.time() - t0
    return r

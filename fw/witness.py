"""Witness search: after a proof obligation failed, compile an executable restatement of the unit's
contracts against the real crate (scratch copy of /repo's working tree) and look for a concrete
failing input. Best effort; used only for the replay file."""
import json
import os
import re
import shutil
import subprocess
import tempfile

ROOT = os.path.dirname(os.path.dirname(os.path.abspath(__file__)))
REPO = os.environ.get('VERIF_REPO', '/repo')


def run_witness(unit, failed_ids, seed, timeout=900):
    unit_dir = os.path.join(ROOT, 'units', unit)
    with open(os.path.join(unit_dir, 'witness.json')) as f:
        cfg = json.load(f)
    d = tempfile.mkdtemp(prefix='verif-wit-', dir=os.environ.get('VERIF_SCRATCH', '/var/tmp'))
    try:
        dst = os.path.join(d, 'repo')
        subprocess.run(['rsync', '-a', '--exclude', 'target', '--exclude', '.git', REPO + '/', dst + '/'], check=True)
        with open(os.path.join(unit_dir, cfg['test_file'])) as f:
            body = f.read()
        for ex in cfg.get('extra_inject', []):
            tp = os.path.join(dst, ex['into'])
            txt = open(tp).read()
            m = re.search(ex['after_regex'], txt)
            if not m:
                raise RuntimeError('witness extra_inject anchor not found')
            pos = txt.rfind('\n', 0, m.start()) + 1 if ex.get('before') else m.end()
            ins = ex.get('text')
            if ins is None:
                with open(os.path.join(unit_dir, ex['text_file'])) as tf:
                    ins = tf.read()
            txt = txt[:pos] + ins + txt[pos:]
            open(tp, 'w').write(txt)
        with open(os.path.join(dst, cfg['inject_into']), 'a') as f:
            f.write(f"\n#[cfg(test)]\n#[allow(unused, dead_code)]\nmod verif_witness_{unit.replace('-', '_')} {{\n    use super::*;\n{body}\n}}\n")
        env = dict(os.environ, CARGO_NET_OFFLINE='true', CARGO_TARGET_DIR=os.path.join(d, 'target'), VERIF_SEED=str(seed))
        cmd = ['cargo', 'test', '--offline', '-p', cfg['crate'], '--lib', cfg['test_name'], '--', '--nocapture', '--test-threads', '1']
        p = subprocess.run(cmd, cwd=dst, env=env, capture_output=True, text=True, timeout=timeout)
        out = p.stdout + p.stderr
        res = []
        for m in re.finditer(r'WITNESS (\S+) :: (.*)$', out, flags=re.M):
            res.append({'unit': unit, 'obligation_label': cfg.get('label_override') or m.group(1), 'input': m.group(2)[:1500],
                        'cmd': ' '.join(cmd) + f'  (scratch copy of /repo with units/{unit}/{cfg["test_file"]} appended to {cfg["inject_into"]})'})
        if 'WITNESS-SEARCH-DONE' not in out:
            raise RuntimeError('witness harness did not run: ' + out[-600:])
        return res
    finally:
        shutil.rmtree(d, ignore_errors=True)

#!/bin/bash
# re-run every claimed property's quick check on the current tree (rewrites evidence/*.json); prints one line each
cd /verif
for p in $(python3 -c "import json; print(' '.join(sorted(json.load(open('props.json'))['properties'])))"); do
  ./check $p --tier quick 2>&1 | tail -n 1
done
python3-vt - <<'PY'
import json,jsonschema,glob
s=json.load(open('/root/.vp/EVIDENCE.schema.json'))
for f in sorted(glob.glob('/verif/evidence/*.json')):
    try:
        e=json.load(open(f)); jsonschema.validate(e, s)
        c=e['coverage']
        ok = (e['level']!='proof') or (c['obligations']==c['discharged'] and c['obligations']>0)
        print(f, 'valid' if ok else 'INCONSISTENT', c.get('obligations'), c.get('discharged'))
    except Exception as ex:
        print(f, 'INVALID', str(ex)[:100])
PY

#!/bin/bash
# re-run every claimed property's quick check on the current tree (rewrites evidence/*.json); prints one line each.
# Four lanes in parallel, each with its own work directory (VERIF_WORK); /repo must not be touched while this runs.
cd /verif
props=$(python3 -c "import json; print(' '.join(sorted(json.load(open('props.json'))['properties'])))")
lane() { for p in "$@"; do VERIF_WORK=/verif/.work/lane-$1 ./check $p --tier quick 2>&1 | tail -n 1; done; }
i=0; declare -a L0 L1 L2 L3
for p in ${1:-$props}; do eval "L$((i%4))+=($p)"; i=$((i+1)); done
lane "${L0[@]}" & lane "${L1[@]}" & lane "${L2[@]}" & lane "${L3[@]}" & wait
python3-vt - <<'PY'
import json,jsonschema,glob
s=json.load(open('/root/.vp/EVIDENCE.schema.json'))
for f in sorted(glob.glob('/verif/evidence/*.json')):
    try:
        e=json.load(open(f)); jsonschema.validate(e, s)
        c=e['coverage']
        ok = (e['level']!='proof') or (c['obligations']==c['discharged'] and c['obligations']>0)
        print(f, 'valid' if ok else 'INCONSISTENT', c.get('obligations'), c.get('discharged'))
    except Exception as ex:
        print(f, 'INVALID', str(ex)[:100])
PY

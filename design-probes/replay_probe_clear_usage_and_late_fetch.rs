use futures_util::FutureExt;
use foyer_memory::{Cache, CacheBuilder, FifoConfig};

#[test]
fn probe_clear_usage() {
    let c: Cache<u64, u64> = CacheBuilder::new(100).with_shards(1).with_eviction_config(FifoConfig::default()).with_weighter(|_, v: &u64| *v as usize).build();
    drop(c.insert(1, 10));
    drop(c.insert(2, 20));
    println!("usage before clear = {}, entries = {}", c.usage(), c.entries());
    c.clear();
    println!("usage after clear = {}, entries = {}", c.usage(), c.entries());
    drop(c.insert(3, 80));
    println!("after insert w=80: usage = {}, entries = {} contains3={}", c.usage(), c.entries(), c.contains(&3));
    drop(c.insert(4, 5));
    println!("after insert w=5: usage = {}, entries = {} contains3={} contains4={}", c.usage(), c.entries(), c.contains(&3), c.contains(&4));
}

#[tokio::test]
async fn probe_insert_vs_inflight_fetch() {
    let c: Cache<u64, u64> = CacheBuilder::new(100).with_shards(1).build();
    let (tx, rx) = futures_util::future::ready(()).map(|_| ()).then(|_| async {}).map(|_| ((), ())).now_or_never().map(|_| mea::oneshot::channel::<()>()).unwrap();
    let c2 = c.clone();
    let fut = c.get_or_fetch(&1, move || async move { rx.await.unwrap(); Ok::<_, anyhow::Error>(111u64) });
    let h = tokio::spawn(async move { fut.await.map(|e| *e.value()) });
    tokio::time::sleep(std::time::Duration::from_millis(50)).await;
    drop(c2.insert(1, 222));
    println!("after explicit insert: get = {:?}", c2.get(&1).map(|e| *e.value()));
    tx.send(()).unwrap();
    let waiter = h.await.unwrap();
    println!("waiter got {:?}", waiter);
    tokio::time::sleep(std::time::Duration::from_millis(50)).await;
    println!("after fetch resolved: get = {:?}", c2.get(&1).map(|e| *e.value()));
}

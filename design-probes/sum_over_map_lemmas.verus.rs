use vstd::prelude::*;
verus! {

pub uninterp spec fn w(v: int) -> nat;

pub open spec fn total(m: Map<int, int>) -> nat
    decreases m.dom().len() when m.dom().finite()
{
    if m.dom().len() == 0 { 0 } else {
        let k = m.dom().choose();
        w(m[k]) + total(m.remove(k))
    }
}

pub proof fn lemma_total_remove(m: Map<int, int>, k: int)
    requires m.dom().finite(), m.contains_key(k),
    ensures total(m) == w(m[k]) + total(m.remove(k)),
    decreases m.dom().len(),
{
    let c = m.dom().choose();
    assert(m.dom().len() != 0) by { if m.dom().len() == 0 { assert(m.dom() =~= Set::empty()); } }
    if c == k {
    } else {
        let m1 = m.remove(c);
        assert(m1.contains_key(k));
        assert(m1.dom().finite());
        assert(m1.dom().len() < m.dom().len());
        lemma_total_remove(m1, k);
        // total(m) = w(m[c]) + total(m1) = w(m[c]) + w(m[k]) + total(m1.remove(k))
        let m2 = m.remove(k);
        assert(m2.contains_key(c));
        assert(m2.dom().len() < m.dom().len());
        lemma_total_remove(m2, c);
        assert(m1.remove(k) =~= m2.remove(c));
        assert(m1[k] == m[k]);
        assert(m2[c] == m[c]);
    }
}

pub proof fn lemma_total_insert(m: Map<int, int>, k: int, v: int)
    requires m.dom().finite(),
    ensures total(m.insert(k, v)) == w(v) + total(m.remove(k)),
{
    let mi = m.insert(k, v);
    lemma_total_remove(mi, k);
    assert(mi.remove(k) =~= m.remove(k));
}

pub proof fn lemma_total_empty()
    ensures total(Map::<int,int>::empty()) == 0,
{
    assert(Map::<int,int>::empty().dom() =~= Set::empty());
}

fn main() {}
}

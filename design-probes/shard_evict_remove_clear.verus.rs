use vstd::prelude::*;
use std::sync::Arc;
verus! {

#[verifier::external_body]
#[verifier::accept_recursive_types(E)]
pub struct Record<E> { _p: core::marker::PhantomData<E> }

pub struct KeyT { pub k: u64 }
pub struct PropsT { pub phantom_: Option<bool> }
impl PropsT {
    pub fn phantom(&self) -> (r: Option<bool>) ensures r == self.phantom_ { self.phantom_ }
}

impl<E> Record<E> {
    pub uninterp spec fn id(&self) -> int;
    pub uninterp spec fn spec_weight(&self) -> nat;
    pub uninterp spec fn spec_hash(&self) -> u64;
    pub uninterp spec fn spec_key(&self) -> KeyT;
    pub uninterp spec fn spec_props(&self) -> PropsT;
    #[verifier::external_body]
    pub fn weight(&self) -> (r: usize) ensures r == self.spec_weight() { unimplemented!() }
    #[verifier::external_body]
    pub fn hash(&self) -> (r: u64) ensures r == self.spec_hash() { unimplemented!() }
    #[verifier::external_body]
    pub fn key(&self) -> (r: &KeyT) ensures *r == self.spec_key() { unimplemented!() }
    #[verifier::external_body]
    pub fn properties(&self) -> (r: &PropsT) ensures *r == self.spec_props() { unimplemented!() }
    #[verifier::external_body]
    pub fn inc_refs(&self, v: usize) -> usize { unimplemented!() }
}

#[derive(Clone, Copy, PartialEq, Eq)]
pub enum Event { Evict, Replace, Remove, Clear }

pub trait Eviction: Sized {
    spec fn contents(&self) -> Set<int>;
    fn push(&mut self, record: Arc<Record<Self>>)
        requires !old(self).contents().contains(record.id()),
        ensures final(self).contents() == old(self).contents().insert(record.id());
    fn pop(&mut self) -> (r: Option<Arc<Record<Self>>>)
        ensures
            match r {
                Some(rec) => old(self).contents().contains(rec.id()) && final(self).contents() == old(self).contents().remove(rec.id()),
                None => final(self).contents() == old(self).contents() && old(self).contents().is_empty(),
            };
    fn remove(&mut self, record: &Arc<Record<Self>>)
        requires old(self).contents().contains(record.id()),
        ensures final(self).contents() == old(self).contents().remove(record.id());
    fn clear(&mut self)
        ensures final(self).contents().is_empty();
    fn holds(&self, record: &Arc<Record<Self>>) -> (b: bool)
        ensures b == self.contents().contains(record.id());
}

#[verifier::external_body]
pub struct Counter { _p: usize }
impl Counter {
    #[verifier::external_body] pub fn increase(&self, v: u64) { }
    #[verifier::external_body] pub fn decrease(&self, v: u64) { }
}
pub struct Metrics { pub memory_evict: Counter, pub memory_entries: Counter, pub memory_insert: Counter, pub memory_replace: Counter, pub memory_usage: Counter, pub memory_remove: Counter }


pub uninterp spec fn spec_same_record<E>(a: &Arc<Record<E>>, b: &Arc<Record<E>>) -> bool;
#[verifier::external_body]
pub fn same_record<E>(a: &Arc<Record<E>>, b: &Arc<Record<E>>) -> (r: bool) ensures r == (a.id() == b.id()) { unimplemented!() }

pub trait Indexer: Sized {
    type Eviction: Eviction;
    spec fn view(&self) -> Map<KeyT, Arc<Record<Self::Eviction>>>;
    fn insert(&mut self, record: Arc<Record<Self::Eviction>>) -> (r: Option<Arc<Record<Self::Eviction>>>)
        ensures
            final(self).view() == old(self).view().insert(record.spec_key(), record),
            match r { Some(o) => old(self).view().contains_key(record.spec_key()) && old(self).view()[record.spec_key()] == o,
                      None => !old(self).view().contains_key(record.spec_key()) };
    fn remove(&mut self, hash: u64, key: &KeyT) -> (r: Option<Arc<Record<Self::Eviction>>>)
        ensures
            final(self).view() == old(self).view().remove(*key),
            match r { Some(o) => old(self).view().contains_key(*key) && old(self).view()[*key] == o,
                      None => !old(self).view().contains_key(*key) };
    fn drain(&mut self) -> (r: Vec<Arc<Record<Self::Eviction>>>)
        ensures final(self).view() == Map::<KeyT, Arc<Record<Self::Eviction>>>::empty();
    fn holds(&self, record: &Arc<Record<Self::Eviction>>) -> (b: bool)
        ensures b == (self.view().contains_key(record.spec_key()) && self.view()[record.spec_key()].id() == record.id());
}

#[verifier::external_body]
#[verifier::accept_recursive_types(T)]
pub struct Notifier<T> { _p: core::marker::PhantomData<T> }
#[verifier::external_body]
#[verifier::accept_recursive_types(E)]
#[verifier::accept_recursive_types(S)]
#[verifier::accept_recursive_types(I)]
pub struct RawCacheEntry<E, S, I> { _p: core::marker::PhantomData<(E, S, I)> }
#[verifier::external_body]
#[verifier::accept_recursive_types(E)]
#[verifier::accept_recursive_types(S)]
#[verifier::accept_recursive_types(I)]
pub struct InflightManager<E, S, I> { _p: core::marker::PhantomData<(E, S, I)> }
#[verifier::external_body]
#[verifier::accept_recursive_types(T)]
pub struct MutexT<T> { _p: core::marker::PhantomData<T> }
#[verifier::external_body]
#[verifier::accept_recursive_types(T)]
pub struct GuardT<'a, T> { _p: core::marker::PhantomData<&'a T> }
impl<T> MutexT<T> {
    #[verifier::external_body]
    pub fn lock(&self) -> GuardT<'_, T> { unimplemented!() }
}
impl<'a, E, S, I> GuardT<'a, InflightManager<E, S, I>> {
    #[verifier::external_body]
    pub fn take(&self, hash: u64, key: &KeyT, id: Option<usize>) -> Option<Vec<Notifier<Option<RawCacheEntry<E, S, I>>>>> { unimplemented!() }
}


pub open spec fn wsum<E>(m: Map<KeyT, Arc<Record<E>>>) -> nat
    decreases m.dom().len()
{
    if m.dom().len() == 0 { 0 } else {
        let k = m.dom().choose();
        m[k].spec_weight() + wsum(m.remove(k))
    }
}

pub proof fn lemma_wsum_remove<E>(m: Map<KeyT, Arc<Record<E>>>, k: KeyT)
    requires m.contains_key(k),
    ensures wsum(m) == m[k].spec_weight() + wsum(m.remove(k)),
    decreases m.dom().len(),
{
    let c = m.dom().choose();
    assert(m.dom().len() != 0) by { if m.dom().len() == 0 { assert(m.dom() =~= Set::empty()); } }
    if c == k {
    } else {
        let m1 = m.remove(c);
        assert(m1.contains_key(k));
        assert(m1.dom().len() < m.dom().len());
        lemma_wsum_remove(m1, k);
        let m2 = m.remove(k);
        assert(m2.contains_key(c));
        assert(m2.dom().len() < m.dom().len());
        lemma_wsum_remove(m2, c);
        assert(m1.remove(k) =~= m2.remove(c));
    }
}

pub proof fn lemma_wsum_insert<E>(m: Map<KeyT, Arc<Record<E>>>, k: KeyT, v: Arc<Record<E>>)
    ensures wsum(m.insert(k, v)) == v.spec_weight() + wsum(m.remove(k)),
{
    let mi = m.insert(k, v);
    lemma_wsum_remove(mi, k);
    assert(mi.remove(k) =~= m.remove(k));
}

pub proof fn lemma_wsum_empty<E>()
    ensures wsum(Map::<KeyT, Arc<Record<E>>>::empty()) == 0,
{
    assert(Map::<KeyT, Arc<Record<E>>>::empty().dom() =~= Set::empty());
}

// modelling assumption: `id` is the identity of the allocation
#[verifier::external_body]
pub proof fn axiom_record_identity<E>(a: Arc<Record<E>>, b: Arc<Record<E>>)
    ensures a.id() == b.id() ==> a == b,
{ }

#[verifier::reject_recursive_types(E)]
#[verifier::reject_recursive_types(S)]
#[verifier::reject_recursive_types(I)]
pub struct RawCacheShard<E, S, I>
where
    E: Eviction,
    I: Indexer<Eviction = E>,
{
    eviction: E,
    indexer: I,

    usage: usize,
    entries: usize,
    capacity: usize,

    inflights: Arc<MutexT<InflightManager<E, S, I>>>,

    metrics: Arc<Metrics>,
}

impl<E, S, I> RawCacheShard<E, S, I>
where
    E: Eviction,
    I: Indexer<Eviction = E>,
{

    pub closed spec fn wf(&self) -> bool {
        &&& self.usage == wsum(self.indexer.view())
        &&& self.entries == self.indexer.view().dom().len()
        &&& forall|k: KeyT| #[trigger] self.indexer.view().contains_key(k) ==> self.indexer.view()[k].spec_key() == k
        &&& forall|id: int| #[trigger] self.eviction.contents().contains(id) ==>
                exists|k: KeyT| self.indexer.view().contains_key(k) && (#[trigger] self.indexer.view()[k]).id() == id
    }

    fn evict(&mut self, target: usize, garbages: &mut Vec<(Event, Arc<Record<E>>)>)
        requires old(self).wf(),
        ensures
            final(self).wf(),
            final(self).capacity == old(self).capacity,
            final(self).usage <= target || final(self).eviction.contents().is_empty(),
            final(self).usage <= old(self).usage,
            // minimality: nothing is evicted if it already fits
            old(self).usage <= target ==> final(self).indexer.view() == old(self).indexer.view() && final(garbages)@ == old(garbages)@,
            // garbage grows only by Evict events of records that left the index
            final(garbages)@.len() >= old(garbages)@.len(),
            final(garbages)@.subrange(0, old(garbages)@.len() as int) == old(garbages)@,
            forall|i: int| old(garbages)@.len() <= i < final(garbages)@.len() ==> (#[trigger] final(garbages)@[i]).0 == Event::Evict
                && !final(self).indexer.view().contains_key(final(garbages)@[i].1.spec_key()),
    {
        // Evict overflow records.
        while self.usage > target
            invariant
                self.wf(),
                self.capacity == old(self).capacity,
                self.usage <= old(self).usage,
                old(self).usage <= target ==> self.indexer.view() == old(self).indexer.view() && garbages@ == old(garbages)@,
                garbages@.len() >= old(garbages)@.len(),
                garbages@.subrange(0, old(garbages)@.len() as int) == old(garbages)@,
                forall|i: int| old(garbages)@.len() <= i < garbages@.len() ==> (#[trigger] garbages@[i]).0 == Event::Evict
                    && !self.indexer.view().contains_key(garbages@[i].1.spec_key()),
            ensures
                self.usage <= target || self.eviction.contents().is_empty(),
            decreases self.eviction.contents().len(),
        {
            let evicted = match self.eviction.pop() {
                Some(evicted) => evicted,
                None => break,
            };
            self.metrics.memory_evict.increase(1);
            proof {
                let ghost view = self.indexer.view();
                let k = choose|k: KeyT| view.contains_key(k) && (#[trigger] view[k]).id() == evicted.id();
                axiom_record_identity(view[k], evicted);
                lemma_wsum_remove(view, evicted.spec_key());
            }
            let ghost view0 = self.indexer.view();
            let ghost ev0 = self.eviction.contents();

            let e = self.indexer.remove(evicted.hash(), evicted.key()).unwrap();
            assert!(same_record(&evicted, &e));

            assert!(!self.indexer.holds(&evicted));
            assert!(!self.eviction.holds(&evicted));

            self.usage -= evicted.weight();
            self.entries -= 1;
            self.metrics.memory_entries.decrease(1);

            garbages.push((Event::Evict, evicted));
            proof {
                let view1 = self.indexer.view();
                assert(view1 == view0.remove(evicted.spec_key()));
                assert(view1.dom() =~= view0.dom().remove(evicted.spec_key()));
                assert forall|id: int| #[trigger] self.eviction.contents().contains(id) implies
                    exists|k: KeyT| view1.contains_key(k) && (#[trigger] view1[k]).id() == id by {
                    assert(ev0.contains(id) && id != evicted.id());
                    let k = choose|k: KeyT| view0.contains_key(k) && (#[trigger] view0[k]).id() == id;
                    assert(k != evicted.spec_key());
                    assert(view1.contains_key(k) && view1[k].id() == id);
                }
            }
        }
    }

    fn emplace(
        &mut self,
        record: Arc<Record<E>>,
        garbages: &mut Vec<(Event, Arc<Record<E>>)>,
        notifiers: &mut Vec<Notifier<Option<RawCacheEntry<E, S, I>>>>,
    ) {
        *notifiers = self
            .inflights
            .lock()
            .take(record.hash(), record.key(), None)
            .unwrap_or_default();

        if record.properties().phantom().unwrap_or_default() {
            if let Some(old) = self.indexer.remove(record.hash(), record.key()) {
                assert!(!self.indexer.holds(&old));

                if self.eviction.holds(&old) {
                    self.eviction.remove(&old);
                }
                assert!(!self.eviction.holds(&old));

                self.usage -= old.weight();
                self.entries -= 1;
                self.metrics.memory_entries.decrease(1);

                garbages.push((Event::Replace, old));
            }
            record.inc_refs(notifiers.len() + 1);
            garbages.push((Event::Remove, record));
            self.metrics.memory_insert.increase(1);
            return;
        }

        let weight = record.weight();
        let old_usage = self.usage;

        // Evict overflow records.
        self.evict(self.capacity.saturating_sub(weight), garbages);

        // Insert new record
        if let Some(old) = self.indexer.insert(record.clone()) {
            self.metrics.memory_replace.increase(1);

            assert!(!self.indexer.holds(&old));

            if self.eviction.holds(&old) {
                self.eviction.remove(&old);
            }
            assert!(!self.eviction.holds(&old));

            self.usage -= old.weight();

            garbages.push((Event::Replace, old));
        } else {
            self.metrics.memory_insert.increase(1);
            self.entries += 1;
            self.metrics.memory_entries.increase(1);
        }
        assert!(self.indexer.holds(&record));

        assert!(!self.eviction.holds(&record));
        self.eviction.push(record.clone());
        assert!(self.eviction.holds(&record));

        self.usage += weight;
        // Increase the reference count within the lock section.
        // The reference count of the new record must be at the moment.
        record.inc_refs(notifiers.len() + 1);

        match self.usage.cmp(&old_usage) {
            std::cmp::Ordering::Greater => self.metrics.memory_usage.increase((self.usage - old_usage) as _),
            std::cmp::Ordering::Less => self.metrics.memory_usage.decrease((old_usage - self.usage) as _),
            std::cmp::Ordering::Equal => {}
        }
    }

    fn remove(&mut self, hash: u64, key: &KeyT) -> (r: Option<Arc<Record<E>>>)
        requires old(self).wf(),
        ensures
            final(self).wf(),
            final(self).indexer.view() == old(self).indexer.view().remove(*key),
            match r {
                Some(rec) => old(self).indexer.view().contains_key(*key) && old(self).indexer.view()[*key] == rec
                    && final(self).usage == old(self).usage - rec.spec_weight()
                    && !final(self).eviction.contents().contains(rec.id()),
                None => !old(self).indexer.view().contains_key(*key) && final(self).usage == old(self).usage
                    && final(self).eviction.contents() == old(self).eviction.contents(),
            },
    {
        proof { if self.indexer.view().contains_key(*key) { lemma_wsum_remove(self.indexer.view(), *key); } }
        let ghost view0 = self.indexer.view();
        let ghost ev0 = self.eviction.contents();
        let record = self.indexer.remove(hash, key)?;

        if self.eviction.holds(&record) {
            self.eviction.remove(&record);
        }
        assert!(!self.indexer.holds(&record));
        assert!(!self.eviction.holds(&record));

        self.usage -= record.weight();
        self.entries -= 1;

        self.metrics.memory_remove.increase(1);
        self.metrics.memory_usage.decrease(record.weight() as _);
        self.metrics.memory_entries.decrease(1);

        record.inc_refs(1);
        proof {
            let view1 = self.indexer.view();
            assert(view1.dom() =~= view0.dom().remove(*key));
            assert forall|id: int| #[trigger] self.eviction.contents().contains(id) implies
                exists|k: KeyT| view1.contains_key(k) && (#[trigger] view1[k]).id() == id by {
                assert(ev0.contains(id) && id != record.id());
                let k = choose|k: KeyT| view0.contains_key(k) && (#[trigger] view0[k]).id() == id;
                assert(k != *key);
                assert(view1.contains_key(k) && view1[k].id() == id);
            }
        }

        Some(record)
    }

    fn clear(&mut self, garbages: &mut Vec<Arc<Record<E>>>)
        requires old(self).wf(),
        ensures
            final(self).wf(),
            final(self).indexer.view() == Map::<KeyT, Arc<Record<E>>>::empty(),
            final(self).eviction.contents().is_empty(),
            final(self).entries == 0,
            final(self).usage == 0,   // @label usage_zero
    {
        let records = self.indexer.drain();
        self.eviction.clear();

        let mut count = 0;

        for record in it: records
            invariant
                count == it.index@, it.index@ <= records@.len(),
                self.indexer.view() == Map::<KeyT, Arc<Record<E>>>::empty(),
                self.eviction.contents().is_empty(),
                self.usage == old(self).usage,
        {
            count += 1;
            assert!(!self.indexer.holds(&record));
            assert!(!self.eviction.holds(&record));

            garbages.push(record);
        }

        self.entries = 0;
        if count > 0 {
            self.metrics.memory_entries.decrease(count);
            self.metrics.memory_remove.increase(count);
        }
        proof { lemma_wsum_empty::<E>(); assert(self.indexer.view().dom() =~= Set::empty()); }
    }
}

fn main() {}
}

use std::sync::atomic::Ordering;
use foyer_common::hasher::ModHasher;
use crate::{
    eviction::fifo::Fifo,
    indexer::hash_table::HashTableIndexer,
    inflight::{InflightManager, Enqueue},
    cache::CacheProperties,
};
type E = Fifo<u8, u8, CacheProperties>;
type M = InflightManager<E, ModHasher, HashTableIndexer<E>>;

#[kani::proof]
#[kani::unwind(6)]
fn inflight_lead_close_is_shared() {
    let mut m = M::new();
    let hash: u64 = kani::any();
    let key: u8 = kani::any();
    let r = m.enqueue::<u8, ()>(hash, &key, None);
    let close = match r { Enqueue::Lead { close, .. } => close, Enqueue::Wait(_) => { assert!(false); return; } };
    assert!(!close.load(Ordering::Relaxed));
    let taken = m.take(hash, &key, None);
    assert!(taken.is_some());
    assert!(close.load(Ordering::Relaxed));
}

use std::sync::Arc;
use foyer_common::metrics::Metrics;
use crate::{eviction::fifo::FifoConfig, raw::{RawCache, RawCacheConfig}};
type C = RawCache<E, ModHasher, HashTableIndexer<E>>;
fn mk(capacity: usize) -> C {
    RawCache::new(RawCacheConfig {
        capacity,
        shards: 1,
        eviction_config: FifoConfig::default(),
        hash_builder: ModHasher::default(),
        weighter: Arc::new(|_, v: &u8| *v as usize),
        filter: Arc::new(|_, _| true),
        event_listener: None,
        metrics: Arc::new(Metrics::noop()),
    })
}

pub fn buckets_stub(_a: f64, _b: f64, _n: usize) -> Vec<f64> { Vec::new() }

#[kani::proof]
#[kani::unwind(6)]
#[kani::stub(mixtrics::metrics::Buckets::exponential, buckets_stub)]
fn fifo_insert_clear_usage() {
    let c = mk(8);
    let k0: u8 = kani::any();
    let w0: u8 = kani::any();
    kani::assume(w0 <= 8);
    let e = c.insert(k0, w0);
    assert!(c.usage() == w0 as usize);
    drop(e);
    c.clear();
    assert!(c.usage() == 0);
}

#![allow(dead_code, unused)]
use bytes::{Buf, BufMut};
pub const PAGE: usize = 64;

#[derive(Debug, Clone)]
pub struct Tombstone {
    pub hash: u64,
    pub sequence: u64,
}

impl Tombstone {
    const SERIALIZED_LEN: usize = size_of::<u64>() + size_of::<u64>();
    fn read(mut buf: impl Buf) -> Self {
        let hash = buf.get_u64();
        let sequence = buf.get_u64();
        Self { hash, sequence }
    }
}

// region: body of `for offset in (0..partition.size()).step_by(PAGE)` after the read (verbatim)
fn region_page_scan(buffer: &[u8], offset: usize, recovered: &mut Vec<(Tombstone, usize)>) {
                let mut seq = 0;
                let mut addr = 0;

                for (slot, buf) in buffer.chunks_exact(Tombstone::SERIALIZED_LEN).enumerate() {
                    let tombstone = Tombstone::read(buf);
                    if tombstone.sequence > seq {
                        seq = tombstone.sequence;
                        addr = slot * Tombstone::SERIALIZED_LEN;
                    }
                    if tombstone.sequence == 0 {
                        continue;
                    }
                    recovered.push((tombstone, addr));
                }
}

#[cfg(kani)]
mod harness {
    use super::*;
    #[kani::proof]
    #[kani::unwind(6)]
    #[kani::solver(kissat)]
    fn page_scan_newest_has_global_addr() {
        let seqs: [u64; PAGE / 16] = kani::any();
        let mut buffer = [0u8; PAGE];
        let mut s = 0;
        while s < PAGE / 16 {
            buffer[s * 16 + 8..s * 16 + 16].copy_from_slice(&seqs[s].to_be_bytes());
            s += 1;
        }
        let page: usize = kani::any();
        kani::assume(page < 1024);
        let offset = page * PAGE;
        let mut recovered = Vec::with_capacity(8);
        region_page_scan(&buffer, offset, &mut recovered);
        // newest slot of the page (first occurrence of the max sequence), computed independently
        let mut best = 0usize; let mut best_seq = 0u64; let mut s = 0;
        while s < PAGE / 16 { if seqs[s] > best_seq { best_seq = seqs[s]; best = s; } s += 1; }
        if best_seq > 0 {
            let mut i = 0;
            while i < recovered.len() {
                if recovered[i].0.sequence == best_seq {
                    assert!(recovered[i].1 == offset + best * 16);   // tomb.open.page_scan.ensures.newest_global_addr
                }
                i += 1;
            }
        }
    }
}

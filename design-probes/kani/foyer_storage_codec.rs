// Injected into foyer-storage/src/lib.rs as `#[cfg(kani)] mod kani_harness;` in a scratch copy.
// Needs: [patch.crates-io] tracing -> shims/tracing ; cargo kani -p foyer-storage -Z stubbing
use crate::engine::block::serde::EntryHeader;
use crate::compress::Compression;
use foyer_common::error::Error;

pub fn with_context_stub(this: Error, _key: &'static str, _value: impl ToString) -> Error { this }
pub fn bt_stub() -> std::backtrace::Backtrace { std::backtrace::Backtrace::disabled() }

#[kani::proof]
#[kani::unwind(3)]
#[kani::stub(foyer_common::error::Error::with_context, with_context_stub)]
#[kani::stub(std::backtrace::Backtrace::capture, bt_stub)]
fn entry_header_read_only() {
    let buf: [u8; 36] = kani::any();
    let r = EntryHeader::read(&buf[..]);
    if let Ok(h) = r { assert!(buf[32] == 0x97 && buf[35] < 3 && h.key_len == u32::from_be_bytes([buf[0],buf[1],buf[2],buf[3]])); }
    else { assert!(!(buf[32] == 0x97 && buf[33] == 0x03 && buf[34] == 0x27 && buf[35] < 3)); }
}
// measured: 13 s CBMC, 685 checks, unwinding assertions pass (complete over all 2^288 inputs)

use vstd::prelude::*;
verus! {

#[derive(PartialEq, Eq, Clone, Copy, Structural)]
pub enum Location { Default, InMem, OnDisk }
#[derive(PartialEq, Eq, Clone, Copy, Structural)]
pub enum HybridCachePolicy { WriteOnEviction, WriteOnInsertion }
#[derive(PartialEq, Eq, Clone, Copy, Structural)]
pub enum Source { Outer, Memory, Disk }
pub enum Ordering { Relaxed }

pub struct Props { pub loc: Location }
impl Props { pub fn location(&self) -> (r: Location) ensures r == self.loc { self.loc } }

pub struct PieceT { pub loc: Location, pub src: Source }
pub struct EntryT { pub props: Props, pub src: Source }
impl EntryT {
    pub fn properties(&self) -> (r: &Props) ensures *r == self.props { &self.props }
    pub fn source(&self) -> (r: Source) ensures r == self.src { self.src }
    pub fn piece(&self) -> (r: PieceT) ensures r.loc == self.props.loc, r.src == self.src { PieceT { loc: self.props.loc, src: self.src } }
}
pub struct ErrT {}

pub struct AtomicBoolT { pub v: bool }
impl AtomicBoolT { pub fn load(&self, _o: Ordering) -> (r: bool) ensures r == self.v { self.v } }
pub struct Ctx { pub throttled: AtomicBoolT }

pub struct StoreT { pub enabled: bool, pub policy: HybridCachePolicy }
impl StoreT {
    pub fn is_enabled(&self) -> (r: bool) ensures r == self.enabled { self.enabled }
    // the effect: precondition IS the property (C12)
    #[verifier::external_body]
    pub fn enqueue(&self, piece: PieceT, force: bool)
        requires
            piece.loc != Location::InMem,          // in-memory-only never reaches the disk
            piece.src == Source::Outer,            // cache hits cause no disk writes
            self.policy == HybridCachePolicy::WriteOnInsertion,
    { }
}

pub struct This<'a> { pub policy: &'a HybridCachePolicy, pub store: &'a StoreT, pub ctx: &'a Ctx }

fn region_poll_enqueue(this: This<'_>, res: Result<EntryT, ErrT>)
    requires *this.policy == this.store.policy,
{
        if let Ok(entry) = res.as_ref() {
            if entry.properties().location() != Location::InMem
            && *this.policy == HybridCachePolicy::WriteOnInsertion
            && this.store.is_enabled()
            && !this.ctx.throttled.load(Ordering::Relaxed)
        {
            this.store.enqueue(entry.piece(), false);
        } }
}

fn main() {}
}

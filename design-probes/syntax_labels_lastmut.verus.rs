use vstd::prelude::*;
verus! {

pub const PAGE: usize = 4096;

pub open spec fn spec_align_up(align: nat, v: nat) -> nat {
    if v % align == 0 { v } else { (v / align + 1) * align }
}

// labeled loops, continue, last_mut, struct &mut fields
pub struct Ctx { pub a: usize, pub b: usize }

pub struct Part { pub x: usize }
pub struct Block { pub parts: Vec<Part> }
pub struct Batch { pub blocks: Vec<Block> }

fn f(ctx: &mut Ctx, infos: Vec<usize>) -> (r: Batch)
    requires old(ctx).a < 100, old(ctx).b == 0,
{
    let mut batch = Batch { blocks: vec![Block { parts: vec![] }] };
    let mut part_size: usize = 0;
    for info in it: infos.into_iter()
        invariant ctx.a <= 100,
    {
        'handle: loop
            invariant ctx.a <= 100,
            decreases 100 - ctx.a + (if ctx.a >= 100 {101int} else {0int}),
        {
            if ctx.a >= 100 {
                ctx.a = 0;
                continue 'handle;
            }
            ctx.a += 1;
            batch.blocks.last_mut().unwrap().parts.push(Part { x: info });
            break 'handle;
        }
    }
    batch
}

fn main() {}
}

use vstd::prelude::*;
use std::collections::{HashMap, hash_map::Entry};
verus! {
pub type Sequence = u64;
pub type BlockId = u32;
pub struct EntryAddress { pub block: BlockId, pub offset: u32, pub len: u32, pub sequence: Sequence }
pub enum Index { Address(EntryAddress), Tombstone(Sequence) }
impl Index {
    pub open spec fn seq_spec(&self) -> Sequence { match self { Index::Address(a) => a.sequence, Index::Tombstone(s) => *s } }

    fn sequence(&self) -> (r: Sequence)
        ensures r == self.seq_spec(),
    {
        match self {
            Index::Address(addr) => addr.sequence,
            Index::Tombstone(seq) => *seq,
        }
    }
}
type IndexerShard = HashMap<u64, Index>;

fn extract_address(index: Index) -> Option<EntryAddress> {
    match index {
        Index::Address(addr) => Some(addr),
        Index::Tombstone(_) => None,
    }
}

fn insert_inner(shard: &mut IndexerShard, hash: u64, index: Index) -> (r: Option<EntryAddress>)
    ensures
        final(shard)@.dom() == old(shard)@.dom().insert(hash),
        forall|h: u64| h != hash && old(shard)@.contains_key(h) ==> final(shard)@[h] == old(shard)@[h],
        !old(shard)@.contains_key(hash) ==> final(shard)@[hash] == index,
        old(shard)@.contains_key(hash) && index.seq_spec() >= old(shard)@[hash].seq_spec() ==> final(shard)@[hash] == index,
        old(shard)@.contains_key(hash) && index.seq_spec() < old(shard)@[hash].seq_spec() ==> final(shard)@[hash] == old(shard)@[hash],
{
    match shard.entry(hash) {
        Entry::Occupied(mut o) => {
            if index.sequence() >= o.get().sequence() {
                extract_address(o.insert(index))
            } else {
                extract_address(index)
            }
        }
        Entry::Vacant(v) => {
            v.insert(index);
            None
        }
    }
}
fn main() {}
}

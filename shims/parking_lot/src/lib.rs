//! Sequential stand-in for `parking_lot`: same API subset, single-threaded semantics.
//! Acquiring a lock that is already held in a conflicting mode panics ("self-deadlock"),
//! which is what the real lock would turn into a hang.
use core::cell::{Cell, UnsafeCell};
use core::fmt;
use core::ops::{Deref, DerefMut};

pub struct Mutex<T: ?Sized> { held: Cell<bool>, data: UnsafeCell<T> }
unsafe impl<T: ?Sized + Send> Send for Mutex<T> {}
unsafe impl<T: ?Sized + Send> Sync for Mutex<T> {}
pub struct MutexGuard<'a, T: ?Sized> { m: &'a Mutex<T> }

impl<T> Mutex<T> {
    pub const fn new(v: T) -> Self { Self { held: Cell::new(false), data: UnsafeCell::new(v) } }
    pub fn into_inner(self) -> T { self.data.into_inner() }
}
impl<T: ?Sized> Mutex<T> {
    pub fn lock(&self) -> MutexGuard<'_, T> {
        assert!(!self.held.get(), "self-deadlock: Mutex locked while held");
        self.held.set(true);
        MutexGuard { m: self }
    }
    pub fn try_lock(&self) -> Option<MutexGuard<'_, T>> {
        if self.held.get() { None } else { self.held.set(true); Some(MutexGuard { m: self }) }
    }
    pub fn get_mut(&mut self) -> &mut T { self.data.get_mut() }
    pub fn is_locked(&self) -> bool { self.held.get() }
}
impl<T: Default> Default for Mutex<T> { fn default() -> Self { Self::new(T::default()) } }
impl<T: ?Sized> fmt::Debug for Mutex<T> { fn fmt(&self, f: &mut fmt::Formatter<'_>) -> fmt::Result { f.write_str("Mutex") } }
impl<'a, T: ?Sized> Deref for MutexGuard<'a, T> { type Target = T; fn deref(&self) -> &T { unsafe { &*self.m.data.get() } } }
impl<'a, T: ?Sized> DerefMut for MutexGuard<'a, T> { fn deref_mut(&mut self) -> &mut T { unsafe { &mut *self.m.data.get() } } }
impl<'a, T: ?Sized> Drop for MutexGuard<'a, T> { fn drop(&mut self) { self.m.held.set(false); } }

pub struct RwLock<T: ?Sized> { readers: Cell<usize>, writer: Cell<bool>, data: UnsafeCell<T> }
unsafe impl<T: ?Sized + Send> Send for RwLock<T> {}
unsafe impl<T: ?Sized + Send + Sync> Sync for RwLock<T> {}
pub struct RwLockReadGuard<'a, T: ?Sized> { l: &'a RwLock<T> }
pub struct RwLockWriteGuard<'a, T: ?Sized> { l: &'a RwLock<T> }

impl<T> RwLock<T> {
    pub const fn new(v: T) -> Self { Self { readers: Cell::new(0), writer: Cell::new(false), data: UnsafeCell::new(v) } }
    pub fn into_inner(self) -> T { self.data.into_inner() }
}
impl<T: ?Sized> RwLock<T> {
    pub fn read(&self) -> RwLockReadGuard<'_, T> {
        assert!(!self.writer.get(), "self-deadlock: RwLock read while write-held");
        self.readers.set(self.readers.get() + 1);
        RwLockReadGuard { l: self }
    }
    pub fn write(&self) -> RwLockWriteGuard<'_, T> {
        assert!(!self.writer.get() && self.readers.get() == 0, "self-deadlock: RwLock write while held");
        self.writer.set(true);
        RwLockWriteGuard { l: self }
    }
    /// single-threaded stand-in: succeeds exactly when the lock is free (another thread holding it is not modelled here;
    /// the Verus unit locks treats the result as arbitrary)
    pub fn try_write(&self) -> Option<RwLockWriteGuard<'_, T>> {
        if self.writer.get() || self.readers.get() > 0 { return None; }
        self.writer.set(true);
        Some(RwLockWriteGuard { l: self })
    }
    pub fn try_read(&self) -> Option<RwLockReadGuard<'_, T>> {
        if self.writer.get() { return None; }
        self.readers.set(self.readers.get() + 1);
        Some(RwLockReadGuard { l: self })
    }
    pub fn get_mut(&mut self) -> &mut T { self.data.get_mut() }
    /// held in any mode (verification aid)
    pub fn is_locked(&self) -> bool { self.writer.get() || self.readers.get() > 0 }
}
impl<T: Default> Default for RwLock<T> { fn default() -> Self { Self::new(T::default()) } }
impl<T: ?Sized> fmt::Debug for RwLock<T> { fn fmt(&self, f: &mut fmt::Formatter<'_>) -> fmt::Result { f.write_str("RwLock") } }
impl<'a, T: ?Sized> Deref for RwLockReadGuard<'a, T> { type Target = T; fn deref(&self) -> &T { unsafe { &*self.l.data.get() } } }
impl<'a, T: ?Sized> Drop for RwLockReadGuard<'a, T> { fn drop(&mut self) { self.l.readers.set(self.l.readers.get() - 1); } }
impl<'a, T: ?Sized> Deref for RwLockWriteGuard<'a, T> { type Target = T; fn deref(&self) -> &T { unsafe { &*self.l.data.get() } } }
impl<'a, T: ?Sized> DerefMut for RwLockWriteGuard<'a, T> { fn deref_mut(&mut self) -> &mut T { unsafe { &mut *self.l.data.get() } } }
impl<'a, T: ?Sized> Drop for RwLockWriteGuard<'a, T> { fn drop(&mut self) { self.l.writer.set(false); } }

//! Vec-backed stand-in for `hashbrown::HashTable` (API subset used by foyer and mea).
//! Lookup semantics: first element with equal stored hash for which `eq` holds.
pub mod hash_table {
    pub struct HashTable<T> { items: Vec<(u64, T)> }

    impl<T> Default for HashTable<T> { fn default() -> Self { Self::new() } }

    impl<T> HashTable<T> {
        pub const fn new() -> Self { Self { items: Vec::new() } }
        pub fn with_capacity(_c: usize) -> Self { Self::new() }
        pub fn len(&self) -> usize { self.items.len() }
        pub fn is_empty(&self) -> bool { self.items.is_empty() }
        pub fn iter(&self) -> impl Iterator<Item = &T> { self.items.iter().map(|(_, t)| t) }
        pub fn clear(&mut self) { self.items.clear() }

        fn position(&self, hash: u64, mut eq: impl FnMut(&T) -> bool) -> Option<usize> {
            let mut i = 0;
            while i < self.items.len() {
                if self.items[i].0 == hash && eq(&self.items[i].1) { return Some(i); }
                i += 1;
            }
            None
        }

        pub fn find(&self, hash: u64, eq: impl FnMut(&T) -> bool) -> Option<&T> {
            self.position(hash, eq).map(|i| &self.items[i].1)
        }
        pub fn find_mut(&mut self, hash: u64, eq: impl FnMut(&T) -> bool) -> Option<&mut T> {
            match self.position(hash, eq) { Some(i) => Some(&mut self.items[i].1), None => None }
        }
        pub fn find_entry(&mut self, hash: u64, eq: impl FnMut(&T) -> bool) -> Result<OccupiedEntry<'_, T>, AbsentEntry<'_, T>> {
            match self.position(hash, eq) {
                Some(index) => Ok(OccupiedEntry { table: self, index }),
                None => Err(AbsentEntry { table: self }),
            }
        }
        /// hashbrown's API contract for every `hasher` argument: "this must return the same hash value that each entry was
        /// inserted with" (the real table calls it whenever it grows, which `entry` / `insert_unique` may do at any call).
        /// The stand-in never grows, so it checks the contract on every stored element instead.
        fn check_hasher(&self, hasher: &impl Fn(&T) -> u64) {
            let mut i = 0;
            while i < self.items.len() {
                assert!(hasher(&self.items[i].1) == self.items[i].0, "[rehash_closure_returns_the_hash_the_element_was_stored_under] hashbrown: `hasher` must return the hash each entry was inserted with");
                i += 1;
            }
        }
        pub fn entry(&mut self, hash: u64, eq: impl FnMut(&T) -> bool, hasher: impl Fn(&T) -> u64) -> Entry<'_, T> {
            self.check_hasher(&hasher);
            match self.position(hash, eq) {
                Some(index) => Entry::Occupied(OccupiedEntry { table: self, index }),
                None => Entry::Vacant(VacantEntry { table: self, hash }),
            }
        }
        pub fn insert_unique(&mut self, hash: u64, value: T, hasher: impl Fn(&T) -> u64) -> OccupiedEntry<'_, T> {
            self.check_hasher(&hasher);
            assert!(hasher(&value) == hash, "[rehash_closure_returns_the_hash_the_element_was_stored_under] hashbrown: `hasher` must return the hash each entry was inserted with");
            self.items.push((hash, value));
            let index = self.items.len() - 1;
            OccupiedEntry { table: self, index }
        }
        pub fn drain(&mut self) -> impl Iterator<Item = T> + '_ { self.items.drain(..).map(|(_, t)| t) }
    }

    pub enum Entry<'a, T> { Occupied(OccupiedEntry<'a, T>), Vacant(VacantEntry<'a, T>) }
    pub struct OccupiedEntry<'a, T> { table: &'a mut HashTable<T>, index: usize }
    pub struct VacantEntry<'a, T> { table: &'a mut HashTable<T>, hash: u64 }
    pub struct AbsentEntry<'a, T> { table: &'a mut HashTable<T> }

    impl<'a, T> AbsentEntry<'a, T> { pub fn into_table(self) -> &'a mut HashTable<T> { self.table } }

    impl<'a, T> Entry<'a, T> {
        pub fn or_insert_with(self, default: impl FnOnce() -> T) -> OccupiedEntry<'a, T> {
            match self { Entry::Occupied(o) => o, Entry::Vacant(v) => v.insert(default()) }
        }
        pub fn or_insert(self, default: T) -> OccupiedEntry<'a, T> {
            match self { Entry::Occupied(o) => o, Entry::Vacant(v) => v.insert(default) }
        }
    }
    impl<'a, T> OccupiedEntry<'a, T> {
        pub fn get(&self) -> &T { &self.table.items[self.index].1 }
        pub fn get_mut(&mut self) -> &mut T { &mut self.table.items[self.index].1 }
        pub fn into_mut(self) -> &'a mut T { &mut self.table.items[self.index].1 }
        pub fn remove(self) -> (T, VacantEntry<'a, T>) {
            let (hash, t) = self.table.items.remove(self.index);
            (t, VacantEntry { table: self.table, hash })
        }
    }
    impl<'a, T> VacantEntry<'a, T> {
        pub fn insert(self, value: T) -> OccupiedEntry<'a, T> {
            self.table.items.push((self.hash, value));
            let index = self.table.items.len() - 1;
            OccupiedEntry { table: self.table, index }
        }
    }
}
pub use hash_table::HashTable;

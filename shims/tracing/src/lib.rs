//! No-op stand-in for the `tracing` crate: every event macro expands to nothing.
#[macro_export] macro_rules! trace { ($($t:tt)*) => {{}} }
#[macro_export] macro_rules! debug { ($($t:tt)*) => {{}} }
#[macro_export] macro_rules! info { ($($t:tt)*) => {{}} }
#[macro_export] macro_rules! warn { ($($t:tt)*) => {{}} }
#[macro_export] macro_rules! error { ($($t:tt)*) => {{}} }

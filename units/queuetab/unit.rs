// UNIT queuetab — the write-queue table of the disk tier (C01, C17): Keeper::{shard, insert, get} and Drop for PieceRef, whole
// bodies, over the hashbrown contract stand-in of units registry / hashtab (entry / find with PROVED probe and re-hash
// closures). One shard's table is a sequence of pieces (ghost); `key_hash` is an uninterpreted function of the key (distinct
// keys may collide); a piece's `id` is the identity of its allocation (`Piece::ptr_eq`). The shard lock is taken for the
// whole table operation in the repository text (`shard.write()` / `shard.read()`); here the guarded table is the
// parameter `verif_tab` (mechanical substitution of the lock call), `Keeper::shard` is proved to be a function of the hash.
#![allow(unused_imports, unused_variables, dead_code, unused_mut, non_camel_case_types)]
use vstd::prelude::*;
verus! {

global size_of usize == 8;

#[derive(PartialEq, Eq, Structural)]
pub struct KeyT { pub k: u64 }
impl KeyT { pub fn equivalent(&self, other: &KeyT) -> (r: bool) ensures r == (self.k == other.k) { self.k == other.k } }
pub uninterp spec fn key_hash(k: KeyT) -> u64;

/// `Piece<K, V, P>` (a shared reference to a record): `id` is the identity of the allocation
pub struct Piece { pub h: u64, pub k: KeyT, pub id: Ghost<int> }
impl Piece {
    pub fn hash(&self) -> (r: u64) ensures r == self.h { self.h }
    pub fn key(&self) -> (r: &KeyT) ensures *r == self.k { &self.k }
    /// `Piece::ptr_eq`: same allocation
    #[verifier::external_body]
    pub fn ptr_eq(a: &Piece, b: &Piece) -> (r: bool) ensures r == (a.id@ == b.id@) { unimplemented!() }
}
impl Clone for Piece { fn clone(&self) -> (r: Self) ensures r == *self { Piece { h: self.h, k: KeyT { k: self.k.k }, id: self.id } } }
/// `Option<&Piece>::cloned()`
pub fn verif_cloned(o: Option<&Piece>) -> (r: Option<Piece>) ensures o is Some == r is Some, o is Some ==> r.unwrap() == *o.unwrap() { match o { Some(p) => Some(p.clone()), None => None } }

// ---- hashbrown::HashTable<Piece> (stand-in with hashbrown's contract)
pub struct HashTable { pub v: Ghost<Seq<Piece>> }
pub enum HashTableEntry<'a> { Occupied(OccupiedEntry<'a>), Vacant(VacantEntry<'a>) }
pub struct OccupiedEntry<'a> { pub t: &'a mut HashTable, pub idx: Ghost<int> }
pub struct VacantEntry<'a> { pub t: &'a mut HashTable, pub hash: Ghost<u64> }
impl HashTable {
    #[verifier::external_body]
    pub fn entry<'a, EQ: Fn(&Piece) -> bool, H: Fn(&Piece) -> u64>(&'a mut self, hash: u64, eq: EQ, hasher: H) -> (r: HashTableEntry<'a>)
        requires
            forall|e: &Piece| eq.requires((e,)),
            forall|e: &Piece| hasher.requires((e,)),
            forall|e: &Piece, h: u64| hasher.ensures((e,), h) ==> h == e.h, // @label rehash_closure_returns_the_hash_the_element_was_stored_under
        ensures
            match r {
                HashTableEntry::Occupied(o) => 0 <= o.idx@ < old(self).v@.len() && old(self).v@[o.idx@].h == hash && eq.ensures((&old(self).v@[o.idx@],), true)
                    && *o.t == *old(self) && *final(o.t) == *final(self),
                HashTableEntry::Vacant(v) => v.hash@ == hash && (forall|i: int| 0 <= i < old(self).v@.len() && (#[trigger] old(self).v@[i]).h == hash ==> eq.ensures((&old(self).v@[i],), false))
                    && *v.t == *old(self) && *final(v.t) == *final(self),
            }
    { unimplemented!() }
    #[verifier::external_body]
    pub fn find<EQ: Fn(&Piece) -> bool>(&self, hash: u64, eq: EQ) -> (r: Option<&Piece>)
        requires forall|e: &Piece| eq.requires((e,)),
        ensures
            match r {
                Some(x) => exists|i: int| 0 <= i < self.v@.len() && (#[trigger] self.v@[i]).h == hash && eq.ensures((&self.v@[i],), true) && *x == self.v@[i],
                None => forall|i: int| 0 <= i < self.v@.len() && (#[trigger] self.v@[i]).h == hash ==> eq.ensures((&self.v@[i],), false),
            }
    { unimplemented!() }
}
impl<'a> OccupiedEntry<'a> {
    #[verifier::external_body]
    pub fn get(&self) -> (r: &Piece)
        requires 0 <= self.idx@ < old(self.t).v@.len(),
        ensures *r == old(self.t).v@[self.idx@],
    { unimplemented!() }
    #[verifier::external_body]
    pub fn get_mut(&mut self) -> (r: &mut Piece)
        requires 0 <= old(self).idx@ < old(self).t.v@.len(),
        ensures *r == old(self).t.v@[old(self).idx@],
            final(self).idx == old(self).idx,
            final(self).t.v@ == old(self).t.v@.update(old(self).idx@, *final(r)),
            *final(final(self).t) == *final(old(self).t),
    { unimplemented!() }
    #[verifier::external_body]
    pub fn remove(self) -> (r: (Piece, VacantEntry<'a>))
        requires 0 <= self.idx@ < old(self.t).v@.len(),
        ensures r.0 == old(self.t).v@[self.idx@], r.1.t.v@ == old(self.t).v@.remove(self.idx@), *final(r.1.t) == *final(self.t),
    { unimplemented!() }
}
/// the implicit drop of an entry that was not consumed, made explicit (rule below): the table is what it was.
/// (Verus 0.2026.09.13 resolves a conditionally moved `&mut`-holding value at the join as if it had not been moved, which
/// makes the path that DID move it vacuous; with the drop spelled out on the other path every path consumes the entry.)
#[verifier::external_body]
pub fn verif_drop_entry<'a>(o: OccupiedEntry<'a>) ensures *final(o.t) == *old(o.t) { }
impl<'a> VacantEntry<'a> {
    #[verifier::external_body]
    pub fn insert(self, e: Piece) -> (r: OccupiedEntry<'a>)
        requires e.h == self.hash@, // @label an_element_is_stored_under_the_hash_the_slot_was_probed_with
        ensures r.t.v@ == old(self.t).v@.push(e), r.idx@ == old(self.t).v@.len(), *final(r.t) == *final(self.t),
    { unimplemented!() }
}

/// table invariant: one piece per key, each stored under the hash of its key
pub open spec fn wf(v: Seq<Piece>) -> bool {
    &&& forall|i: int, j: int| 0 <= i < v.len() && 0 <= j < v.len() && (#[trigger] v[i]).k == (#[trigger] v[j]).k ==> i == j
    &&& forall|i: int| 0 <= i < v.len() ==> (#[trigger] v[i]).h == key_hash(v[i].k)
}
pub open spec fn at(v: Seq<Piece>, key: KeyT, i: int) -> bool { 0 <= i < v.len() && v[i].k == key }
pub open spec fn absent(v: Seq<Piece>, key: KeyT) -> bool { forall|i: int| 0 <= i < v.len() ==> (#[trigger] v[i]).k != key }
pub open spec fn removed_at(new: Seq<Piece>, old: Seq<Piece>, i: int) -> bool {
    &&& new.len() == old.len() - 1
    &&& forall|j: int| 0 <= j < i ==> (#[trigger] new[j]) == old[j]
    &&& forall|j: int| i <= j < new.len() ==> (#[trigger] new[j]) == old[j + 1]
}

/// `Arc<RwLock<Shard>>`: names the shard
pub struct ShardRef { pub idx: Ghost<int> }
impl Clone for ShardRef { fn clone(&self) -> (r: Self) ensures r == *self { ShardRef { idx: self.idx } } }
pub struct Inner { pub shards: Vec<ShardRef> }
pub struct Keeper { pub inner: Inner }
pub struct PieceRef { pub piece: Piece, pub shard: Option<ShardRef> }
impl PieceRef {
    /// `Deref for PieceRef`
    pub fn hash(&self) -> (r: u64) ensures r == self.piece.h { self.piece.h }
    pub fn key(&self) -> (r: &KeyT) ensures *r == self.piece.k { &self.piece.k }
}

impl Keeper {
// ---- shard: the shard of a piece is a function of its hash (so insert, get and the drop of the reference meet in one table)
//@region foyer-storage/src/keeper.rs :: impl~^impl<K, V, P> Keeper<K, V, P>/fn shard name=shard whole=1
//@head
    fn shard(&self, hash: u64) -> (r: ShardRef)
        requires self.inner.shards@.len() > 0,
        ensures r == self.inner.shards@[(hash as usize) as int % self.inner.shards@.len() as int], // @label the_shard_is_a_function_of_the_hash
//@end

// ---- insert: the piece becomes THE queued version of its key (a newer version replaces the older one in place, a new key is
// appended); pieces of other keys -- also of colliding ones -- are untouched; the returned reference names this piece
//@region foyer-storage/src/keeper.rs :: impl~^impl<K, V, P> Keeper<K, V, P>/fn insert name=insert whole=1 sub=@(?s)shard\s*\.write\(\)\s*\.entry\(@verif_tab.entry(@ sub=@(?m)\.entry\(([^|]+), \|(\w+)\| (.+), \|(\w+)\| (.+)\)( \{)?$@.entry(\1, |verif_e: &Piece| -> (r: bool) ensures verif_e.h == piece.h ==> r == (piece.k == verif_e.k) /* #label the_write_queue_is_probed_by_key_equality_not_by_hash */ { let \2 = verif_e; \3 }, |verif_e: &Piece| -> (r: u64) ensures r == verif_e.h /* #label rehash_closure_returns_the_hash_the_element_was_stored_under */ { let \4 = verif_e; \5 })\6@
//@head
    pub fn insert(&self, piece: Piece, verif_tab: &mut HashTable) -> (r: PieceRef)
        requires self.inner.shards@.len() > 0, wf(old(verif_tab).v@), piece.h == key_hash(piece.k),
        ensures
            wf(final(verif_tab).v@), // @label one_queued_piece_per_key
            r.piece == piece && r.shard is Some,
            absent(old(verif_tab).v@, piece.k) ==> final(verif_tab).v@ == old(verif_tab).v@.push(piece), // @label a_piece_of_a_new_key_is_added_and_nothing_else_changes
            forall|i: int| at(old(verif_tab).v@, piece.k, i) ==> final(verif_tab).v@ == old(verif_tab).v@.update(i, piece), // @label a_newer_version_replaces_the_queued_piece_of_that_key_only
//@end
// path canary (must FAIL): this path of insert is not vacuous
//@region foyer-storage/src/keeper.rs :: impl~^impl<K, V, P> Keeper<K, V, P>/fn insert name=canary_insert_replace_path whole=1 sub=@(?s)shard\s*\.write\(\)\s*\.entry\(@verif_tab.entry(@ sub=@(?m)\.entry\(([^|]+), \|(\w+)\| (.+), \|(\w+)\| (.+)\)( \{)?$@.entry(\1, |verif_e: &Piece| -> (r: bool) ensures verif_e.h == piece.h ==> r == (piece.k == verif_e.k) /* #label the_write_queue_is_probed_by_key_equality_not_by_hash */ { let \2 = verif_e; \3 }, |verif_e: &Piece| -> (r: u64) ensures r == verif_e.h /* #label rehash_closure_returns_the_hash_the_element_was_stored_under */ { let \4 = verif_e; \5 })\6@
//@head
    pub fn canary_insert_replace_path(&self, piece: Piece, verif_tab: &mut HashTable) -> (r: PieceRef)
        requires self.inner.shards@.len() > 0, wf(old(verif_tab).v@), piece.h == key_hash(piece.k),
        ensures forall|i: int| at(old(verif_tab).v@, piece.k, i) ==> final(verif_tab).v@.len() == 777,
//@end

// ---- get: the queued piece of exactly the requested key, or None
//@region foyer-storage/src/keeper.rs :: impl~^impl<K, V, P> Keeper<K, V, P>/fn get name=get whole=1 sub=@let shard = shard\.read\(\);@@ sub=@(?s)shard\s*\.find\((\w+), \|(\w+)\| ([^\n]+)\)\s*\.cloned\(\)@verif_cloned(verif_tab.find(\1, |verif_e: &Piece| -> (r: bool) ensures verif_e.h == \1 ==> r == (*key == verif_e.k) /* #label the_write_queue_is_probed_by_key_equality_not_by_hash */ { let \2 = verif_e; \3 }))@
//@head
    pub fn get(&self, hash: u64, key: &KeyT, verif_tab: &HashTable) -> (r: Option<Piece>)
        requires self.inner.shards@.len() > 0, wf(verif_tab.v@), hash == key_hash(*key),
        ensures
            absent(verif_tab.v@, *key) ==> r is None,
            forall|i: int| at(verif_tab.v@, *key, i) ==> r == Some(verif_tab.v@[i]), // @label lookup_returns_the_queued_piece_of_that_key
//@end
}

impl PieceRef {
// ---- drop of a write-queue reference: removes the queued piece of its key only if that piece IS the referenced one
// (a newer version of the key stays until its own reference is dropped); nothing else changes
//@region foyer-storage/src/keeper.rs :: impl~^impl<K, V, P> Drop for PieceRef<K, V, P>/fn drop name=piece_ref_drop whole=1 sub=@let mut shard = shard\.write\(\);@@ sub=@shard\.entry\(@verif_tab.entry(@ sub=@(?m)\.entry\(([^|]+), \|(\w+)\| (.+), \|(\w+)\| (.+)\)( \{)?$@.entry(\1, |verif_e: &Piece| -> (r: bool) ensures verif_e.h == self.piece.h ==> r == (self.piece.k == verif_e.k) /* #label the_write_queue_is_probed_by_key_equality_not_by_hash */ { let \2 = verif_e; \3 }, |verif_e: &Piece| -> (r: u64) ensures r == verif_e.h /* #label rehash_closure_returns_the_hash_the_element_was_stored_under */ { let \4 = verif_e; \5 })\6@ subopt=@(?s)(if [^{}]+\{\s*o\.remove\(\);\s*\})(\s*\})@\1 else { verif_drop_entry(o); }\2@
//@head
    fn piece_ref_drop(&mut self, verif_tab: &mut HashTable)
        requires wf(old(verif_tab).v@), old(self).piece.h == key_hash(old(self).piece.k),
        ensures
            wf(final(verif_tab).v@), final(self).piece == old(self).piece,
            old(self).shard is None ==> final(verif_tab).v@ == old(verif_tab).v@, // @label a_detached_reference_leaves_the_write_queue_alone
            absent(old(verif_tab).v@, old(self).piece.k) ==> final(verif_tab).v@ == old(verif_tab).v@,
            forall|i: int| at(old(verif_tab).v@, old(self).piece.k, i) && old(verif_tab).v@[i].id@ != old(self).piece.id@ ==> final(verif_tab).v@ == old(verif_tab).v@, // @label a_newer_piece_of_the_key_survives_the_drop_of_an_older_reference
            forall|i: int| at(old(verif_tab).v@, old(self).piece.k, i) && old(verif_tab).v@[i].id@ == old(self).piece.id@ && old(self).shard is Some ==> removed_at(final(verif_tab).v@, old(verif_tab).v@, i), // @label the_last_reference_takes_its_own_piece_out_of_the_write_queue
//@end
// path canary (must FAIL): the path that removes the piece is not vacuous
//@region foyer-storage/src/keeper.rs :: impl~^impl<K, V, P> Drop for PieceRef<K, V, P>/fn drop name=canary_piece_ref_drop_removal_path whole=1 sub=@let mut shard = shard\.write\(\);@@ sub=@shard\.entry\(@verif_tab.entry(@ sub=@(?m)\.entry\(([^|]+), \|(\w+)\| (.+), \|(\w+)\| (.+)\)( \{)?$@.entry(\1, |verif_e: &Piece| -> (r: bool) ensures verif_e.h == self.piece.h ==> r == (self.piece.k == verif_e.k) /* #label the_write_queue_is_probed_by_key_equality_not_by_hash */ { let \2 = verif_e; \3 }, |verif_e: &Piece| -> (r: u64) ensures r == verif_e.h /* #label rehash_closure_returns_the_hash_the_element_was_stored_under */ { let \4 = verif_e; \5 })\6@ subopt=@(?s)(if [^{}]+\{\s*o\.remove\(\);\s*\})(\s*\})@\1 else { verif_drop_entry(o); }\2@
//@head
    fn canary_piece_ref_drop_removal_path(&mut self, verif_tab: &mut HashTable)
        requires wf(old(verif_tab).v@), old(self).piece.h == key_hash(old(self).piece.k),
        ensures
            forall|i: int| at(old(verif_tab).v@, old(self).piece.k, i) && old(verif_tab).v@[i].id@ == old(self).piece.id@ && old(self).shard is Some ==> final(verif_tab).v@.len() == 777,
//@end
}

} // verus!

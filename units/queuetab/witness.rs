    // Replay of the KEEPER contracts on the real write-queue table, pieces taken from a real memory cache.
    use foyer_memory::{Cache, CacheBuilder};

    #[test]
    fn verif_witness_keeper() {
        let mut found: Vec<String> = vec![];
        let memory: Cache<u64, u64> = CacheBuilder::new(16).build();
        let keeper: Keeper<u64, u64, foyer_memory::CacheProperties> = Keeper::new(1);
        // two versions of key 7 in the write queue; the older version's flush completes first
        let e1 = memory.insert(7, 1);
        let e2 = memory.insert(7, 2);
        let hash = e1.piece().hash();
        let ref1 = keeper.insert(e1.piece());
        let ref2 = keeper.insert(e2.piece());
        match keeper.get(hash, &7) { Some(p) if *p.value() == 2 => {}, other => found.push(format!("WITNESS lookup_returns_latest_insert_of_the_key :: insert(7,v1); insert(7,v2) => get = {:?}", other.map(|p| *p.value()))) }
        drop(ref1);
        match keeper.get(hash, &7) {
            Some(p) if *p.value() == 2 => {}
            other => found.push(format!("WITNESS newer_piece_survives_drop_of_older_reference :: keeper.insert(7,v1) -> r1; keeper.insert(7,v2) -> r2; drop(r1) [flush of v1 completed]; keeper.get(7) = {:?} (expected v2, still in the write queue)", other.map(|p| *p.value()))),
        }
        drop(ref2);
        if keeper.get(hash, &7).is_some() { found.push("WITNESS dropped_reference_leaves_the_write_queue :: entry still present after its last reference dropped".to_string()); }
        for f in found.iter().take(3) { println!("{f}"); }
        println!("WITNESS-SEARCH-DONE found={}", found.len());
    }

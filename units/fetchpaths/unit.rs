// UNIT fetchpaths — the helper functions of the fetch task that unit fetch sees only through stand-ins (C06, C11):
// RawFetch::handle_error, the slow path of try_set_required, handle_target. Kept in a unit of its own so that a change
// of their signatures (which makes the call sites of unit fetch undecided) still fails a contract here.
#![allow(unused_imports, unused_variables, dead_code, unused_mut)]
use vstd::prelude::*;
verus! {

global size_of usize == 8;

//@item foyer-common/src/properties.rs :: enum Source rules=derive-structural
#[derive(Debug)]
pub struct Error { pub e: u8 }
pub type Result<T> = core::result::Result<T, Error>;
pub struct NotifierT { pub id: Ghost<int> }
impl NotifierT {
    /// a waiter is answered; the ghost argument (supplied mechanically by a `sub`) is the result of the fetch task
    #[verifier::external_body]
    pub fn send(self, Ghost(expected): Ghost<Result<Option<u64>>>, r: Result<Option<u64>>) -> core::result::Result<(), ()>
        requires r == expected, // @label every_waiter_is_answered_with_the_result_of_the_fetch
    { unimplemented!() }
}
impl Error { pub fn clone(&self) -> (r: Error) ensures r == *self { Error { e: self.e } } }
/// `notifiers.drain(..)`
#[verifier::external_body]
pub fn verif_drain(v: &mut Vec<NotifierT>) -> (r: Vec<NotifierT>) ensures r@ == old(v)@, final(v)@.len() == 0 { unimplemented!() }
pub struct BuilderT { pub b: u8 }
pub struct ReqFutT { pub from: Ghost<u8> }
pub struct CtxT { pub c: u8 }
/// `required_fetch_builder(ctx)` (a boxed FnOnce)
#[verifier::external_body]
pub fn verif_build(b: BuilderT, ctx: &mut CtxT) -> (r: ReqFutT) ensures r.from@ == b.b { unimplemented!() }
pub enum RawFetchState {
    Init, FetchOptional, FetchRequired { required_fetch: ReqFutT },
    Notify { res: Option<Result<Option<u64>>>, notifiers: Vec<NotifierT> }, Ready,
}
pub enum Try { Noop, SetStateAndContinue(RawFetchState), Ready }
pub enum FetchOrTake { Fetch(BuilderT), Notifiers(Vec<NotifierT>) }
/// the in-flight table behind its mutex: calls are logged, the answers are arbitrary (ghost)
pub struct InflightsT {
    pub takes: Ghost<Seq<(u64, Option<usize>)>>, pub fetch_or_takes: Ghost<Seq<(u64, usize)>>,
    pub take_answer: Ghost<Option<Vec<NotifierT>>>, pub fot_answer: Ghost<Option<FetchOrTake>>,
}
impl InflightsT {
    #[verifier::external_body]
    pub fn take(&mut self, hash: u64, key: &u64, id: Option<usize>) -> (r: Option<Vec<NotifierT>>)
        ensures final(self).takes@ == old(self).takes@.push((hash, id)), r == old(self).take_answer@, final(self).fetch_or_takes == old(self).fetch_or_takes,
    { unimplemented!() }
    #[verifier::external_body]
    pub fn fetch_or_take(&mut self, hash: u64, key: &u64, id: usize) -> (r: Option<FetchOrTake>)
        ensures final(self).fetch_or_takes@ == old(self).fetch_or_takes@.push((hash, id)), r == old(self).fot_answer@, final(self).takes == old(self).takes,
    { unimplemented!() }
}
pub struct PropsT { pub p: u8 }
pub struct PieceT { pub p: u8 }
pub enum FetchTarget { Entry { value: u64, properties: PropsT }, Piece(PieceT) }
pub struct KeyOnce { pub k: Option<u64> }
impl KeyOnce { pub fn take(&mut self) -> (r: Option<u64>) ensures r == old(self).k, final(self).k is None { let r = self.k; self.k = None; r } }
pub enum Inserted { Entry(u64, u64, Source), Piece }
pub struct CacheLogT { pub inserts: Ghost<Seq<Inserted>> }
impl CacheLogT {
    #[verifier::external_body]
    pub fn insert_with_properties_inner(&mut self, key: u64, value: u64, properties: PropsT, source: Source)
        ensures final(self).inserts@ == old(self).inserts@.push(Inserted::Entry(key, value, source)) { }
    #[verifier::external_body]
    pub fn insert_piece(&mut self, piece: PieceT) ensures final(self).inserts@ == old(self).inserts@.push(Inserted::Piece) { }
}

// ---- RawFetch::handle_error: a failed fetch takes ONLY its own registration (by its leader id -- never `None`, which
// would take the registration of a newer fetch of the key and answer that fetch's waiters with this error), and
// answers the waiters it took with its error
//@region foyer-memory/src/raw.rs :: impl~^impl<E, S, I, C> RawFetch<E, S, I, C>/fn handle_error name=handle_error start=/let notifiers = / stmts=99 sub=@inflights\.lock\(\)\.take\(@inflights.take(@
//@head
fn handle_error(e: Error, id: usize, hash: u64, key: &u64, inflights: &mut InflightsT) -> (r: Try)
    ensures
        final(inflights).takes@ == old(inflights).takes@.push((hash, Some(id))), // @label a_failed_fetch_takes_only_its_own_registration_by_leader_id
        old(inflights).take_answer@ is None ==> r is Ready, // @label a_superseded_failed_fetch_ends_silently
        old(inflights).take_answer@ matches Some(n) ==> r matches Try::SetStateAndContinue(RawFetchState::Notify { res: Some(Err(x)), notifiers }) && x == e && notifiers == n, // @label the_waiters_it_took_are_answered_with_its_error
//@end

// ---- RawFetch::try_set_required, slow path (the leader has no fetch of its own): it consults the table under its own
// id; a donated fetch builder becomes the required fetch, otherwise its waiters get the lookup result
//@region foyer-memory/src/raw.rs :: impl~^impl<E, S, I, C> RawFetch<E, S, I, C>/fn try_set_required name=try_set_required_slow start=/let fetch_or_take = / stmts=99 sub=@inflights\.lock\(\)\.fetch_or_take\(@inflights.fetch_or_take(@ sub=@required_fetch_builder\(ctx\)@verif_build(required_fetch_builder, ctx)@
//@head
fn try_set_required_slow(ctx: &mut CtxT, id: usize, hash: u64, key: &u64, inflights: &mut InflightsT, res_no_fetch: Result<Option<u64>>) -> (r: Try)
    ensures
        final(inflights).fetch_or_takes@ == old(inflights).fetch_or_takes@.push((hash, id)), // @label the_leader_consults_the_table_under_its_own_id
        final(inflights).takes@ == old(inflights).takes@,
        old(inflights).fot_answer@ is None ==> r is Ready,
        old(inflights).fot_answer@ matches Some(FetchOrTake::Fetch(b)) ==> r matches Try::SetStateAndContinue(RawFetchState::FetchRequired { required_fetch }) && required_fetch.from@ == b.b, // @label a_donated_fetch_closure_becomes_the_required_fetch
        old(inflights).fot_answer@ matches Some(FetchOrTake::Notifiers(n)) ==> r matches Try::SetStateAndContinue(RawFetchState::Notify { res: Some(x), notifiers }) && x == res_no_fetch && notifiers == n, // @label without_any_fetch_the_waiters_get_the_lookup_result
//@end

// ---- RawFetch::handle_target: the fetched value is inserted exactly once, under the key of this fetch, with the given
// source; then the task is done
//@region foyer-memory/src/raw.rs :: impl~^impl<E, S, I, C> RawFetch<E, S, I, C>/fn handle_target name=handle_target whole=1
//@head
fn handle_target(target: FetchTarget, key: &mut KeyOnce, cache: &mut CacheLogT, source: Source) -> (r: Try)
    requires old(key).k is Some,
    ensures
        r is Ready,
        target matches FetchTarget::Entry { value, properties } ==> final(cache).inserts@ == old(cache).inserts@.push(Inserted::Entry(old(key).k.unwrap(), value, source)), // @label fetched_value_is_inserted_once_under_the_key_of_this_fetch
        target is Piece ==> final(cache).inserts@ == old(cache).inserts@.push(Inserted::Piece),
//@end


// ---- RawFetch::handle_notify: every waiter taken by this task is answered, with the task's result (the fetched entry,
// `None`, or the error), and the task is done
//@region foyer-memory/src/raw.rs :: impl~^impl<E, S, I, C> RawFetch<E, S, I, C>/fn handle_notify name=handle_notify whole=1 sub=@notifiers\.drain\(\.\.\)@verif_drain(notifiers)@ sub=@notifier\.send\(@notifier.send(Ghost(verif_res), @
//@head
fn handle_notify(res: Result<Option<u64>>, notifiers: &mut Vec<NotifierT>) -> (r: Try)
    ensures
        r is Ready,
        final(notifiers)@.len() == 0, // @label no_waiter_is_left_unanswered
//@prologue
    let ghost verif_res = res;
//@loop 1
                    invariant verif_res == Ok::<Option<u64>, Error>(e),
//@loop 2
                    invariant verif_res == Err::<Option<u64>, Error>(e),
//@end


// ---- InflightManager::enqueue, the arm for a key that already has a fetch in flight (C06): the later caller is added as
// a waiter; a fetch closure it brings along is donated to the entry only if none is there yet -- a donation already made
// is never overwritten or dropped (a lookup-only caller joining after a fetching caller must not wipe the fetch)
pub struct ErasedT { pub from: Ghost<u8> }
pub struct TxT { pub ch: Ghost<int> }
pub struct RxT { pub ch: Ghost<int> }
pub struct WaiterT { pub ch: Ghost<int> }
impl RxT { pub fn into_future(self) -> (r: WaiterT) ensures r.ch@ == self.ch@ { WaiterT { ch: Ghost(self.ch@) } } }
pub struct oneshot { }
impl oneshot {
    #[verifier::external_body]
    pub fn channel() -> (r: (TxT, RxT)) ensures r.0.ch@ == r.1.ch@ { unimplemented!() }
}
/// `f.map(erase_required_fetch_builder)` (type erasure of the boxed closure)
#[verifier::external_body]
pub fn verif_erase(f: Option<BuilderT>) -> (r: Option<ErasedT>) ensures f.is_some() == r.is_some(), f.is_some() ==> r.unwrap().from@ == f.unwrap().b { unimplemented!() }
pub struct InflightT { pub id: usize, pub f: Option<ErasedT>, pub notifiers: Vec<TxT> }
pub struct InflightEntryT { pub hash: u64, pub key: u64, pub inflight: InflightT }
pub struct OccupiedT { pub e: InflightEntryT }
impl OccupiedT { pub fn get_mut(&mut self) -> (r: &mut InflightEntryT) ensures *r == old(self).e, *final(r) == final(self).e { &mut self.e } }
pub enum Enqueue { Lead { id: usize }, Wait(WaiterT) }
//@region foyer-memory/src/inflight.rs :: impl~InflightManager<E, S, I> where E: Eviction, E::Key: Key/fn enqueue name=enqueue_joins_inflight start=/Entry::Occupied\(mut o\) =>/ arm=1 sub=@f\.map\(erase_required_fetch_builder\)@verif_erase(f)@
//@head
fn enqueue_joins_inflight(o: &mut OccupiedT, f: Option<BuilderT>) -> (r: Enqueue)
    ensures
        old(o).e.inflight.f is Some ==> final(o).e.inflight.f == old(o).e.inflight.f, // @label a_donated_fetch_closure_is_never_overwritten_by_a_later_caller
        old(o).e.inflight.f is None && f is Some ==> final(o).e.inflight.f is Some && final(o).e.inflight.f.unwrap().from@ == f.unwrap().b, // @label the_first_offered_fetch_closure_is_donated_to_the_fetch_in_flight
        old(o).e.inflight.f is None && f is None ==> final(o).e.inflight.f is None,
        final(o).e.inflight.id == old(o).e.inflight.id && final(o).e.hash == old(o).e.hash && final(o).e.key == old(o).e.key,
        final(o).e.inflight.notifiers@.len() == old(o).e.inflight.notifiers@.len() + 1
            && final(o).e.inflight.notifiers@.drop_last() == old(o).e.inflight.notifiers@
            && (r matches Enqueue::Wait(w) && w.ch@ == final(o).e.inflight.notifiers@.last().ch@), // @label the_later_caller_is_registered_as_a_waiter_and_waits_on_that_registration
//@end

} // verus!

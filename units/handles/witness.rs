    // Executable restatement of the HANDLES contracts on the real RawCache (replay only): after lookups whose handles
    // are gone (or that never returned one: touch), a cache with no outstanding handles is brought back within
    // capacity by the next inserts, and the reference count of a touched entry is what a fresh lookup gives.
    use foyer_common::hasher::ModHasher;
    use crate::{eviction::{lru::{Lru, LruConfig}, test_utils::TestProperties}, indexer::hash_table::HashTableIndexer};

    #[test]
    fn verif_witness_handles() {
        let mut found: Vec<String> = vec![];
        for use_touch in [false, true] {
            let cache: RawCache<Lru<u64, u64, TestProperties>, ModHasher, HashTableIndexer<Lru<u64, u64, TestProperties>>> = RawCache::new(RawCacheConfig {
                capacity: 2, shards: 1, eviction_config: LruConfig::default(), hash_builder: Default::default(),
                weighter: Arc::new(|_, _| 1), filter: Arc::new(|_, _| true), event_listener: None, metrics: Arc::new(Metrics::noop()),
            });
            cache.insert(0, 0);
            cache.insert(1, 1);
            if use_touch { cache.touch(&0); cache.touch(&1); } else { drop(cache.get(&0)); drop(cache.get(&1)); }
            for k in 2..10u64 { cache.insert(k, k); }
            let what = if use_touch { "touch(0); touch(1)" } else { "drop(get(0)); drop(get(1))" };
            let label = if use_touch { "a_successful_touch_hands_the_record_to_a_handle_that_gives_the_reference_and_the_pin_back" } else { "a_successful_lookup_hands_the_record_to_exactly_one_handle" };
            if cache.usage() > cache.capacity() {
                let refs = cache.get(&0).map(|e| e.refs());
                found.push(format!("WITNESS {label} :: lru capacity=2 shards=1: insert(0); insert(1); {what}; insert(2..10) with no handle outstanding => usage {} > capacity {} (entry 0 still resident: refs seen by a fresh get = {:?}, expected 1)", cache.usage(), cache.capacity(), refs));
            }
        }
        for f in found.iter().take(3) { println!("{f}"); }
        println!("WITNESS-SEARCH-DONE found={}", found.len());
    }

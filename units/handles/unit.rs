// UNIT handles — every successful lookup hands the record to exactly one handle (C18, C05): see the comment at the regions.
// The stand-ins are those of unit locks (the lookups run under the shard locks).
#![allow(unused_imports, unused_variables, dead_code, unused_mut, unused_must_use, unused_braces)]
use vstd::prelude::*;
verus! {

global size_of usize == 8;

//@item foyer-common/src/event.rs :: enum Event rules=derive-structural
//@item foyer-common/src/properties.rs :: enum Source rules=derive-structural

pub struct PropsT { }
impl PropsT { #[verifier::external_body] pub fn phantom(&self) -> Option<bool> { unimplemented!() } }
#[verifier::external_body]
pub fn verif_unwrap_or_default(o: Option<bool>) -> bool { unimplemented!() }
/// `Arc<Record<E>>`
/// how a looked-up record was acquired in the eviction container: 0 = not at all (get_noop), 1 = get_immutable, 2 = get_mutable
pub struct RecT { pub acquired_by: Ghost<int> }
/// what the eviction algorithm of this cache requires (`E::acquire()`): the same code
pub uninterp spec fn spec_acquire_kind() -> int;
impl RecT {
    #[verifier::external_body] pub fn key(&self) -> &u64 { unimplemented!() }
    #[verifier::external_body] pub fn value(&self) -> &u64 { unimplemented!() }
    #[verifier::external_body] pub fn hash(&self) -> u64 { unimplemented!() }
    #[verifier::external_body] pub fn clone(&self) -> RecT { unimplemented!() }
    #[verifier::external_body] pub fn dec_refs(&self, n: usize) -> usize { unimplemented!() }
    #[verifier::external_body] pub fn inc_refs(&self, n: usize) -> usize { unimplemented!() }
    #[verifier::external_body] pub fn refs(&self) -> usize { unimplemented!() }
    #[verifier::external_body] pub fn properties(&self) -> &PropsT { unimplemented!() }
}
//@item foyer-common/src/properties.rs :: enum Location rules=derive-structural
pub struct CachePropsT { }
impl CachePropsT {
    #[verifier::external_body] pub fn with_phantom(self, phantom: bool) -> CachePropsT { unimplemented!() }
    #[verifier::external_body] pub fn location(&self) -> Option<Location> { unimplemented!() }
}
/// `Arc::new(Record::new(Data { key, value, properties, hash, weight }))`
#[verifier::external_body]
pub fn verif_record(key: u64, value: u64, properties: CachePropsT, hash: u64, weight: usize) -> RecT { unimplemented!() }
pub struct Piece { }
impl Piece { #[verifier::external_body] pub fn new(r: RecT) -> Piece { unimplemented!() } }

// ---- user code: each call REQUIRES that no shard lock is held (the ghost argument is supplied mechanically by the
// `sub` rules of the regions below: `listener.on_leave(` -> `listener.on_leave(Ghost(verif_locks), ` etc.)
pub struct ListenerT { }
impl ListenerT {
    #[verifier::external_body]
    pub fn on_leave(&self, Ghost(locks): Ghost<int>, reason: Event, key: &u64, value: &u64)
        requires locks == 0, // @label listener_is_called_with_no_shard_lock_held
    { }
}
pub struct ListenerSlotT { }
impl ListenerSlotT {
    #[verifier::external_body] pub fn is_some(&self) -> bool { unimplemented!() }
    #[verifier::external_body] pub fn as_ref(&self) -> Option<&ListenerT> { unimplemented!() }
}
pub struct PipeT { }
impl PipeT {
    #[verifier::external_body] pub fn is_enabled(&self) -> bool { unimplemented!() }
    #[verifier::external_body] pub fn clone(&self) -> PipeT { unimplemented!() }
    /// leads to Store::enqueue and its user-supplied admission filter
    #[verifier::external_body]
    pub fn send(&self, Ghost(locks): Ghost<int>, piece: Piece)
        requires locks == 0, // @label pipe_is_called_with_no_shard_lock_held
    { }
    #[verifier::external_body]
    pub fn flush(&self, Ghost(locks): Ghost<int>, pieces: Vec<Piece>)
        requires locks == 0, // @label pipe_is_called_with_no_shard_lock_held
    { }
}
pub struct WeighterT { }
impl WeighterT {
    #[verifier::external_body]
    pub fn call(&self, Ghost(locks): Ghost<int>, key: &u64, value: &u64) -> usize
        requires locks == 0, // @label weighter_is_called_with_no_shard_lock_held
    { unimplemented!() }
}
pub struct FilterT { }
impl FilterT {
    #[verifier::external_body]
    pub fn call(&self, Ghost(locks): Ghost<int>, key: &u64, value: &u64) -> bool
        requires locks == 0, // @label filter_is_called_with_no_shard_lock_held
    { unimplemented!() }
}

// ---- the shard behind its lock: only the guard gives access to the shard methods
pub struct NotifierT { }
impl NotifierT { #[verifier::external_body] pub fn send(self, v: core::result::Result<Option<EntryT>, ()>) -> core::result::Result<(), ()> { unimplemented!() } }
pub struct EvictionT { }
impl EvictionT { #[verifier::external_body] pub fn update(&mut self, capacity: usize, config: Option<u8>) -> core::result::Result<(), ErrT> { unimplemented!() } }
pub struct ErrT { }
pub struct GuardT { pub capacity: usize, pub eviction: EvictionT, pub inflights: InflightMutexT }
impl GuardT {
    #[verifier::external_body] pub fn emplace(&mut self, record: RecT, garbages: &mut Vec<(Event, RecT)>, notifiers: &mut Vec<NotifierT>) { }
    #[verifier::external_body] pub fn evict(&mut self, target: usize, garbages: &mut Vec<(Event, RecT)>) { }
    #[verifier::external_body] pub fn remove(&mut self, hash: u64, key: &u64) -> Option<RecT> { unimplemented!() }
    #[verifier::external_body] pub fn clear(&mut self, garbages: &mut Vec<RecT>) { }
    #[verifier::external_body] pub fn get_noop(&self, hash: u64, key: &u64) -> (r: Option<RecT>) ensures r matches Some(x) ==> x.acquired_by@ == 0 { unimplemented!() }
    #[verifier::external_body] pub fn get_immutable(&self, hash: u64, key: &u64) -> (r: Option<RecT>) ensures r matches Some(x) ==> x.acquired_by@ == 1 { unimplemented!() }
    #[verifier::external_body] pub fn get_mutable(&mut self, hash: u64, key: &u64) -> (r: Option<RecT>) ensures r matches Some(x) ==> x.acquired_by@ == 2 { unimplemented!() }
    #[verifier::external_body] pub fn release_immutable(&self, record: &RecT) { }
    #[verifier::external_body] pub fn release_mutable(&mut self, record: &RecT) { }
}
pub struct ShardLockT { }
impl ShardLockT {
    #[verifier::external_body] pub fn verif_lock_write(&self) -> GuardT { unimplemented!() }
    #[verifier::external_body] pub fn verif_lock_read(&self) -> GuardT { unimplemented!() }
}
pub struct HasherT { }
impl HasherT { #[verifier::external_body] pub fn hash_one(&self, key: &u64) -> u64 { unimplemented!() } }
pub struct InnerT { pub shards: Vec<ShardLockT>, pub event_listener: ListenerSlotT, pub weighter: WeighterT, pub filter: FilterT, pub hash_builder: HasherT }
impl InnerT { #[verifier::external_body] pub fn clone(&self) -> InnerRefT { unimplemented!() } }
pub struct InnerRefT { }
pub struct RawCacheEntry { pub pipe: PipeT, pub record: RecT, pub inner: InnerRefT, pub source: Source }
pub type EntryT = RawCacheEntry;
impl RawCacheEntry {
    #[verifier::external_body] pub fn key(&self) -> &u64 { unimplemented!() }
    #[verifier::external_body] pub fn value(&self) -> &u64 { unimplemented!() }
}
/// `shard.remove(hash, key).map(|record| RawCacheEntry { .. })` (closure): wraps the removed record into a handle
#[verifier::external_body]
pub fn verif_into_entry(c: &CacheT, r: Option<RecT>) -> Option<RawCacheEntry> { unimplemented!() }
/// `garbages.into_iter().map(|(_, record)| Piece::new(record)).collect_vec()`
#[verifier::external_body]
pub fn pieces_of(g: Vec<(Event, RecT)>) -> Vec<Piece> { unimplemented!() }
/// `shard.eviction.update(cap, None).inspect(|_| { shard.capacity = cap; shard.evict(cap, &mut garbages) })` under the lock
#[verifier::external_body]
pub fn verif_resize_locked(shard: &mut GuardT, cap: usize, garbages: &mut Vec<(Event, RecT)>) -> core::result::Result<(), ErrT> { unimplemented!() }
pub enum Op { Noop, Immutable(u8), Mutable(u8) }
#[verifier::external_body]
pub fn verif_release_op() -> Op { unimplemented!() }
#[verifier::external_body]
pub fn verif_acquire_op() -> (r: Op) ensures (r is Noop) == (spec_acquire_kind() == 0), (r is Immutable) == (spec_acquire_kind() == 1), (r is Mutable) == (spec_acquire_kind() == 2) { unimplemented!() }
pub struct InflightMutexT { }
pub enum RawGetOrFetch { Hit(Option<RawCacheEntry>), Miss(u8) }
/// the local closure `extract` of get_or_fetch_inner (a hit becomes a handle; a miss registers in the in-flight table):
/// the record it is given must have been acquired the way the algorithm requires (under LRU: pinned)
#[verifier::external_body]
pub fn verif_extract(key: &u64, opt: Option<RecT>, inflights: &InflightMutexT) -> RawGetOrFetch
    requires opt matches Some(x) ==> x.acquired_by@ == spec_acquire_kind(), // @label a_get_or_fetch_hit_is_acquired_the_way_the_algorithm_requires
{ unimplemented!() }
pub struct CacheT { pub inner: InnerT, pub pipe: PipeT }
pub open spec fn shards_ok(c: &CacheT) -> bool { c.inner.shards@.len() > 0 }

impl CacheT {
    #[verifier::external_body]
    pub fn shard(&self, hash: u64) -> (r: usize) ensures r < self.inner.shards@.len() { unimplemented!() }

// ---- RawCache::insert_inner (whole): emplace under the shard lock, waiters / listener / pipe after it
//@region foyer-memory/src/raw.rs :: impl~^impl<E, S, I> RawCache<E, S, I> where/fn insert_inner name=insert_inner whole=1 rules=lock-scope,for-tuple-pattern sub=@listener\.on_leave\(@listener.on_leave(Ghost(verif_locks), @ sub=@self\.pipe\.send\(@self.pipe.send(Ghost(verif_locks), @
//@head
    fn insert_inner(&self, record: RecT, source: Source) -> (r: EntryT)
        requires shards_ok(self),
//@prologue
        let ghost mut verif_locks: int = 0;
//@loop 1 iter=it
            invariant verif_locks == 0, // @label no_shard_lock_is_held_while_waiters_listeners_and_pipe_are_served
//@loop 2 iter=it2
                invariant verif_locks == 0, // @label no_shard_lock_is_held_while_waiters_listeners_and_pipe_are_served
//@end

// ---- RawCache::get and RawCache::touch (C18, C05): a lookup that finds the record has raised its reference count and
// acquired it in the eviction container (under LRU: moved it to the pin list) -- unit shard, get_inner / get_mutable.
// Both are given back only by `Drop for RawCacheEntry` (unit shard, entry_last_drop). So every successful lookup must
// hand the record to exactly one handle, also when the caller only wants to know whether the key was there (touch):
// otherwise the entry stays pinned and referenced for ever and the shard can no longer be brought back within capacity.
// The handle constructions are counted in a ghost variable (rule handle-ctor).
//@region foyer-memory/src/raw.rs :: impl~^impl<E, S, I> RawCache<E, S, I> where/fn get name=get whole=1 rules=lock-scope,option-map,handle-ctor sub=@E::acquire\(\)@verif_acquire_op()@
//@head
    fn get(&self, key: &u64) -> (r: Option<RawCacheEntry>)
        requires shards_ok(self),
//@prologue
        let ghost mut verif_locks: int = 0;
        let ghost mut verif_handles: int = 0;
        let verif_r = {
//@tail
        };
        assert(verif_r is Some ==> verif_handles == 1); // @label a_successful_lookup_hands_the_record_to_exactly_one_handle
        assert(verif_r matches Some(e) ==> e.record.acquired_by@ == spec_acquire_kind()); // @label a_looked_up_record_is_acquired_the_way_the_algorithm_requires
        verif_r
//@end
//@region foyer-memory/src/raw.rs :: impl~^impl<E, S, I> RawCache<E, S, I> where/fn touch name=touch whole=1 rules=lock-scope,option-map,handle-ctor sub=@E::acquire\(\)@verif_acquire_op()@
//@head
    fn touch(&self, key: &u64) -> (r: bool)
        requires shards_ok(self),
//@prologue
        let ghost mut verif_locks: int = 0;
        let ghost mut verif_handles: int = 0;
        let verif_r = {
//@tail
        };
        assert(verif_r ==> verif_handles == 1); // @label a_successful_touch_hands_the_record_to_a_handle_that_gives_the_reference_and_the_pin_back
        verif_r
//@end


// ---- RawCache::get_or_fetch_inner, the lookup arms: a hit of get_or_fetch is a lookup like any other -- under each
// acquire kind the record must come from the matching get_* (which acquires it: under LRU moves it to the pin list)
//@region foyer-memory/src/raw.rs :: impl~^impl<E, S, I> RawCache<E, S, I> where/fn get_or_fetch_inner name=get_or_fetch_lookup start=/match E::acquire\(\) \{/ stmts=1 rules=lock-scope sub=@E::acquire\(\)@verif_acquire_op()@ sub=@\bextract\(key,@verif_extract(key,@
//@head
    fn get_or_fetch_lookup(&self, hash: u64, key: &u64) -> (r: RawGetOrFetch)
        requires shards_ok(self),
//@prologue
        let ghost mut verif_locks: int = 0;
//@end
}

} // verus!

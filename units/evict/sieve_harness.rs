    // SIEVE on the REAL Sieve: the hand skips visited records (clearing the bit) and evicts the first unvisited one.
    use crate::{cache::CacheProperties, record::Data};
    type VS = Sieve<u8, u8, CacheProperties>;
    fn vrec(k: u8) -> Arc<Record<VS>> {
        Arc::new(Record::new(Data::<VS> { key: k, value: k, properties: CacheProperties::default(), hash: k as u64, weight: 1 }))
    }

    #[kani::proof]
    #[kani::unwind(5)]
    fn sieve_skips_visited_records_once() {
        let mut s = VS::new(10, &SieveConfig {});
        let r1 = vrec(1);
        let r2 = vrec(2);
        let r3 = vrec(3);
        s.push(r1.clone());
        s.push(r2.clone());
        s.push(r3.clone());
        match VS::acquire() { Op::Immutable(f) => f(&s, &r1), _ => assert!(false, "[sieve_acquire_is_immutable]") }
        let a = s.pop();
        assert!(a.is_some() && Arc::ptr_eq(a.as_ref().unwrap(), &r2), "[visited_record_is_skipped_first_unvisited_evicted]");
        let b = s.pop();
        assert!(b.is_some() && Arc::ptr_eq(b.as_ref().unwrap(), &r3), "[hand_continues_behind_the_last_victim]");
        let c = s.pop();
        assert!(c.is_some() && Arc::ptr_eq(c.as_ref().unwrap(), &r1), "[visited_bit_was_cleared_so_it_is_evicted_on_the_next_round]");
        let d = s.pop();
        assert!(d.is_none(), "[empty_queue_pops_nothing]");
        std::mem::forget((s, r1, r2, r3, a, b, c, d));
    }

    // FIFO on the REAL Fifo (intrusive list executed by CBMC): victims in insertion order; remove takes out exactly
    // that record. Three records => bounded.
    use crate::{cache::CacheProperties, record::Data};
    type VF = Fifo<u8, u8, CacheProperties>;
    fn vrec(k: u8) -> Arc<Record<VF>> {
        Arc::new(Record::new(Data::<VF> { key: k, value: k, properties: CacheProperties::default(), hash: k as u64, weight: 1 }))
    }

    #[kani::proof]
    #[kani::unwind(4)]
    fn fifo_evicts_in_insertion_order() {
        let mut q = VF::new(10, &FifoConfig {});
        let r1 = vrec(1);
        let r2 = vrec(2);
        let r3 = vrec(3);
        q.push(r1.clone());
        q.push(r2.clone());
        q.push(r3.clone());
        assert!(r1.is_in_eviction() && r2.is_in_eviction() && r3.is_in_eviction(), "[pushed_records_are_flagged_in_eviction]");
        q.remove(&r2);
        assert!(!r2.is_in_eviction(), "[removed_record_flag_cleared]");
        let a = q.pop();
        assert!(a.is_some() && Arc::ptr_eq(a.as_ref().unwrap(), &r1), "[first_inserted_is_first_evicted]");
        assert!(!r1.is_in_eviction(), "[popped_record_flag_cleared]");
        let b = q.pop();
        assert!(b.is_some() && Arc::ptr_eq(b.as_ref().unwrap(), &r3), "[removed_record_is_skipped]");
        let c = q.pop();
        assert!(c.is_none(), "[empty_queue_pops_nothing]");
        std::mem::forget((q, r1, r2, r3, a, b, c));
    }

    // LRU pinning on the REAL Lru (intrusive lists executed by CBMC): a record that was looked up (acquire) is not a
    // victim until it is released, then it is evictable again. Two records, default hints => bounded (2 records).
    use crate::{cache::CacheProperties, record::Data};
    use foyer_common::properties::Hint;
    type VL = Lru<u8, u8, CacheProperties>;
    fn vrec(k: u8) -> Arc<Record<VL>> {
        Arc::new(Record::new(Data::<VL> { key: k, value: k, properties: CacheProperties::default(), hash: k as u64, weight: 1 }))
    }

    #[kani::proof]
    #[kani::unwind(4)]
    fn held_record_is_not_a_victim_until_released() {
        let ratio_high: bool = kani::any();
        let mut lru = VL::new(10, &LruConfig { high_priority_pool_ratio: if ratio_high { 0.5 } else { 0.0 } });
        let r1 = vrec(1);
        let r2 = vrec(2);
        lru.push(r1.clone());
        lru.push(r2.clone());
        assert!(r1.is_in_eviction() && r2.is_in_eviction(), "[pushed_records_are_flagged_in_eviction]");
        match VL::acquire() { Op::Mutable(mut f) => f(&mut lru, &r1), _ => assert!(false, "[lru_acquire_is_mutable]") }
        let v = lru.pop();
        assert!(v.is_some() && Arc::ptr_eq(v.as_ref().unwrap(), &r2), "[pop_skips_the_held_record]");
        assert!(!r2.is_in_eviction(), "[popped_record_flag_cleared]");
        let v2 = lru.pop();
        assert!(v2.is_none(), "[held_record_is_not_a_victim]");
        match VL::release() { Op::Mutable(mut f) => f(&mut lru, &r1), _ => assert!(false, "[lru_release_is_mutable]") }
        let v3 = lru.pop();
        assert!(v3.is_some() && Arc::ptr_eq(v3.as_ref().unwrap(), &r1), "[released_record_is_evictable_again]");
        std::mem::forget((lru, r1, r2, v, v2, v3));
    }

    #[kani::proof]
    #[kani::unwind(4)]
    fn canary_lru_reaches_assertions() {
        let mut lru = VL::new(10, &LruConfig { high_priority_pool_ratio: 0.0 });
        let r1 = vrec(1);
        lru.push(r1.clone());
        let v = lru.pop();
        assert!(v.is_none(), "[canary]");
        std::mem::forget((lru, r1, v));
    }

    fn vrec_w(k: u8, low: bool) -> Arc<Record<VL>> {
        let props = if low { CacheProperties::default().with_hint(Hint::Low) } else { CacheProperties::default() };
        Arc::new(Record::new(Data::<VL> { key: k, value: k, properties: props, hash: k as u64, weight: 1 }))
    }

    /// low-priority entries are evicted first, then the least recently pushed high-priority one
    #[kani::proof]
    #[kani::unwind(4)]
    fn low_priority_entries_are_evicted_first() {
        let mut lru = VL::new(10, &LruConfig { high_priority_pool_ratio: 0.9 });
        let r1 = vrec_w(1, false);
        let r2 = vrec_w(2, true);
        let r3 = vrec_w(3, false);
        lru.push(r1.clone());
        lru.push(r2.clone());
        lru.push(r3.clone());
        let a = lru.pop();
        assert!(a.is_some() && Arc::ptr_eq(a.as_ref().unwrap(), &r2), "[low_priority_entry_is_the_first_victim]");
        let b = lru.pop();
        assert!(b.is_some() && Arc::ptr_eq(b.as_ref().unwrap(), &r1), "[then_least_recently_used_high_priority_entry]");
        let c = lru.pop();
        assert!(c.is_some() && Arc::ptr_eq(c.as_ref().unwrap(), &r3), "[then_the_next_one]");
        std::mem::forget((lru, r1, r2, r3, a, b, c));
    }

    /// the high-priority pool holds at most its configured share: the overflow moves to the low-priority queue
    #[kani::proof]
    #[kani::unwind(4)]
    fn high_priority_pool_is_bounded_by_its_share() {
        let mut lru = VL::new(10, &LruConfig { high_priority_pool_ratio: 0.1 }); // share = 1
        let r1 = vrec_w(1, false);
        let r2 = vrec_w(2, false);
        lru.push(r1.clone());
        lru.push(r2.clone());
        assert!(lru.high_priority_weight <= lru.high_priority_weight_capacity, "[high_priority_weight_within_share_after_push]");
        let a = lru.pop();
        assert!(a.is_some() && Arc::ptr_eq(a.as_ref().unwrap(), &r1), "[overflowed_entry_is_evicted_before_the_pool]");
        std::mem::forget((lru, r1, r2, a));
    }

    /// ... also when an entry re-enters the pool by being released: the oldest pool entry is demoted, the share holds
    #[kani::proof]
    #[kani::unwind(4)]
    fn released_entry_does_not_overfill_the_high_priority_pool() {
        let mut lru = VL::new(10, &LruConfig { high_priority_pool_ratio: 0.1 }); // share = 1
        let r1 = vrec_w(1, false);
        let r2 = vrec_w(2, false);
        lru.push(r1.clone());
        match VL::acquire() { Op::Mutable(mut f) => f(&mut lru, &r1), _ => assert!(false, "[lru_acquire_is_mutable]") }
        lru.push(r2.clone()); // refills the pool to its share while r1 is held
        match VL::release() { Op::Mutable(mut f) => f(&mut lru, &r1), _ => assert!(false, "[lru_release_is_mutable]") }
        assert!(lru.high_priority_weight <= lru.high_priority_weight_capacity, "[high_priority_weight_within_share_after_release]");
        let a = lru.pop();
        assert!(a.is_some() && Arc::ptr_eq(a.as_ref().unwrap(), &r2), "[entry_demoted_by_the_release_is_the_first_victim]");
        let b = lru.pop();
        assert!(b.is_some() && Arc::ptr_eq(b.as_ref().unwrap(), &r1), "[released_entry_is_most_recently_used]");
        std::mem::forget((lru, r1, r2, a, b));
    }

// UNIT serde — EntryDeserializer::deserialize: checksum over exactly the recorded range is verified before anything is
// decoded; value from buffer[..value_len], key from buffer[value_len..value_len+key_len]; no out-of-range slice (C03, C08)
#![allow(unused_imports, unused_variables, dead_code, unused_mut)]
use vstd::prelude::*;
verus! {

global size_of usize == 8;

//@item foyer-storage/src/compress.rs :: enum Compression rules=derive-structural

#[derive(Debug)]
pub struct Error { pub k: ErrorKind }
pub type Result<T> = core::result::Result<T, Error>;
#[derive(Clone, Copy, PartialEq, Eq, Structural, Debug)]
pub enum ErrorKind { Io, External, Config, ChannelClosed, TaskCancelled, Join, Parse, BufferSizeLimit, ChecksumMismatch, MagicMismatch, OutOfRange, NoSpace, Closed, Recover }
impl Error {
    pub fn new(kind: ErrorKind, message: &'static str) -> (r: Error) ensures r.k == kind { Error { k: kind } }
}

/// XxHash64::oneshot(0, bytes): a function of the bytes (collisions are outside the claim, DESIGN assumption 2)
pub uninterp spec fn checksum64(b: Seq<u8>) -> u64;
pub struct Checksummer { }
impl Checksummer {
    #[verifier::external_body]
    pub fn checksum64(buf: &[u8]) -> (r: u64) ensures r == checksum64(buf@) { unimplemented!() }
}

/// `Code::decode` of the key / value type (fixed-width impls: Kani unit code; zstd/lz4/bincode: assumed)
pub trait StorageKey: Sized { spec fn spec_decode(b: Seq<u8>) -> Result<Self>; }
pub trait StorageValue: Sized { spec fn spec_decode(b: Seq<u8>, c: Compression) -> Result<Self>; }

pub struct EntryDeserializer { }
impl EntryDeserializer {
    #[verifier::external_body]
    fn deserialize_key<K: StorageKey>(buf: &[u8]) -> (r: Result<K>) ensures r == K::spec_decode(buf@) { unimplemented!() }
    #[verifier::external_body]
    fn deserialize_value<V: StorageValue>(buf: &[u8], compression: Compression) -> (r: Result<V>) ensures r == V::spec_decode(buf@, compression) { unimplemented!() }

//@fn foyer-storage/src/serde.rs :: impl~^impl EntryDeserializer$/fn deserialize rules=err-ctx ret=r
//@spec
        requires
            // lengths come from the u32 fields of an entry header
            ken_len <= u32::MAX, value_len <= u32::MAX,
        ensures
            buffer@.len() < value_len + ken_len ==> (r matches Err(e) && e.k == ErrorKind::OutOfRange), // @label short_buffer_is_out_of_range_not_a_slice_panic
            r is Ok ==> buffer@.len() >= value_len + ken_len, // @label ok_only_within_bounds
            // garbage is never deserialized into a value: with a checksum, Ok implies the checksum over exactly
            // the recorded range matched
            (r is Ok && checksum is Some) ==> checksum64(buffer@.subrange(0, value_len + ken_len)) == checksum->Some_0, // @label checksum_over_recorded_range_verified_before_decode
            (buffer@.len() >= value_len + ken_len && checksum is Some && checksum64(buffer@.subrange(0, value_len + ken_len)) != checksum->Some_0)
                ==> (r matches Err(e) && e.k == ErrorKind::ChecksumMismatch), // @label mismatch_is_checksum_error
            // what is decoded: value from the first value_len bytes, key from the next key_len bytes
            r matches Ok(kv) ==> V::spec_decode(buffer@.subrange(0, value_len as int), compression) == Ok::<V, Error>(kv.1)
                && K::spec_decode(buffer@.subrange(value_len as int, value_len + ken_len)) == Ok::<K, Error>(kv.0), // @label value_then_key_decoded_from_their_recorded_ranges
            // completeness: an intact entry that fits is not refused (bit-exact round trip needs the decode to happen)
            (buffer@.len() >= value_len + ken_len && (checksum is None || checksum64(buffer@.subrange(0, value_len + ken_len)) == checksum->Some_0)
                && V::spec_decode(buffer@.subrange(0, value_len as int), compression) is Ok
                && K::spec_decode(buffer@.subrange(value_len as int, value_len + ken_len)) is Ok) ==> r is Ok, // @label intact_entry_that_fits_is_decoded
//@end
}

} // verus!

    // Replay of the HASHTAB contracts on the real HashTableIndexer (real hashbrown): random insert / get / remove sequences
    // over a few keys that collide pairwise (hash = key % 2), compared step by step with a key -> record model.
    use crate::{cache::CacheProperties, eviction::fifo::Fifo, record::Data};
    type VE = Fifo<u8, u8, CacheProperties>;
    fn vrec(k: u8, v: u8, hash: u64) -> Arc<Record<VE>> {
        Arc::new(Record::new(Data::<VE> { key: k, value: v, properties: CacheProperties::default(), hash, weight: 1 }))
    }
    #[test]
    fn verif_witness_hashtab() {
        let seed0: u64 = std::env::var("VERIF_SEED").ok().and_then(|s| s.parse().ok()).unwrap_or(1);
        let mut found: Vec<String> = vec![];
        for round in 0..400u64 {
            let mut s = seed0.wrapping_mul(0x9E3779B97F4A7C15).wrapping_add(round.wrapping_mul(0xD1B54A32D192ED03)) | 1;
            let mut next = move || { s ^= s << 13; s ^= s >> 7; s ^= s << 17; s };
            let mut ix = HashTableIndexer::<VE>::default();
            let mut model: Vec<Arc<Record<VE>>> = vec![];
            let mut trace: Vec<String> = vec![];
            let mut bad: Option<(&'static str, String)> = None;
            for step in 0..12u8 {
                let key = (next() % 4) as u8;
                let hash = (key % 2) as u64;
                let pos = model.iter().position(|r| *r.key() == key);
                match next() % 3 {
                    0 => {
                        trace.push(format!("insert(k={key},v={step})"));
                        let r = vrec(key, step, hash);
                        let old = ix.insert(r.clone());
                        match (old, pos) {
                            (None, None) => model.push(r),
                            (Some(o), Some(i)) => { if !Arc::ptr_eq(&o, &model[i]) { bad = Some(("a_record_of_an_indexed_key_replaces_that_keys_record_only", format!("replaced the record of key {}", o.key()))); } model[i] = r; }
                            (Some(o), None) => bad = Some(("a_record_of_a_new_key_is_added_and_nothing_else_changes", format!("a new key replaced the record of key {}", o.key()))),
                            (None, Some(_)) => bad = Some(("a_record_of_an_indexed_key_replaces_that_keys_record_only", "an indexed key was inserted as a second record".into())),
                        }
                    }
                    1 => {
                        trace.push(format!("get(k={key})"));
                        match (ix.get(hash, &key), pos) {
                            (None, None) => {}
                            (Some(g), Some(i)) if Arc::ptr_eq(g, &model[i]) => {}
                            (g, _) => bad = Some(("lookup_returns_the_record_of_that_key", format!("got the record of key {:?}", g.map(|r| *r.key())))),
                        }
                    }
                    _ => {
                        trace.push(format!("remove(k={key})"));
                        match (ix.remove(hash, &key), pos) {
                            (None, None) => {}
                            (Some(g), Some(i)) if Arc::ptr_eq(&g, &model[i]) => { model.remove(i); }
                            (g, Some(_)) => bad = Some(("remove_takes_only_that_keys_record", format!("removed the record of key {:?}", g.map(|r| *r.key())))),
                            (g, None) => bad = Some(("remove_of_a_key_that_is_not_indexed_changes_nothing", format!("removed the record of key {:?}", g.map(|r| *r.key())))),
                        }
                    }
                }
                if bad.is_none() {
                    for r in model.iter() {
                        match ix.get(*r.key() as u64 % 2, r.key()) { Some(g) if Arc::ptr_eq(g, r) => {}, _ => { bad = Some(("one_record_per_key_each_under_the_hash_of_its_key", format!("the record of key {} is no longer what the index maps it to", r.key()))); break; } }
                    }
                }
                if bad.is_some() { break; }
            }
            if let Some((label, what)) = bad {
                found.push(format!("WITNESS {label} :: keys collide pairwise (hash = key % 2); {} => {what}", trace.join("; ")));
                if found.len() >= 3 { break; }
            }
        }
        found.sort_by_key(|f| f.len());
        for f in found.iter().take(3) { println!("{f}"); }
        println!("WITNESS-SEARCH-DONE found={}", found.len());
    }

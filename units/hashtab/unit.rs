// UNIT hashtab — the memory index itself (C17, C18, C05): HashTableIndexer::{insert, get, remove}, whole bodies, over a
// stand-in for hashbrown's HashTable that carries hashbrown's CONTRACT for `entry(hash, eq, hasher)` and `find(hash, eq)`
// (see unit registry). The probe and re-hash closures are the repository's own text; a mechanical substitution adds their
// parameter type and the clause they have to meet, so Verus PROVES the closure bodies: the probe answers KEY equality /
// equivalence on every element stored under the probed hash (a probe by hash alone fails), the re-hash closure returns
// the hash the element was stored under. `key_hash` is an uninterpreted function of the key: distinct keys may collide.
// This discharges, for the hash-table indexer, the `Indexer` contract that units shard / sentry / handles assume.
#![allow(unused_imports, unused_variables, dead_code, unused_mut, non_camel_case_types)]
use vstd::prelude::*;
use std::sync::Arc;
verus! {

global size_of usize == 8;

#[derive(PartialEq, Eq, Structural)]
pub struct KeyT { pub k: u64 }
impl KeyT {
    /// `Equivalent::equivalent` of the lookup key type
    pub fn equivalent(&self, other: &KeyT) -> (r: bool) ensures r == (self.k == other.k) { self.k == other.k }
}
/// the hash builder applied to a key (any function: collisions between distinct keys are possible)
pub uninterp spec fn key_hash(k: KeyT) -> u64;

/// `Record<E>`: `id` is the identity of the allocation
pub struct Record { pub h: u64, pub k: KeyT, pub id: Ghost<int> }
impl Record {
    pub fn hash(&self) -> (r: u64) ensures r == self.h { self.h }
    pub fn key(&self) -> (r: &KeyT) ensures *r == self.k { &self.k }
}

// ---- hashbrown::HashTable<Arc<Record>> (stand-in with hashbrown's contract)
pub struct HashTable { pub v: Ghost<Seq<Arc<Record>>> }
pub enum HashTableEntry<'a> { Occupied(OccupiedEntry<'a>), Vacant(VacantEntry<'a>) }
pub struct OccupiedEntry<'a> { pub t: &'a mut HashTable, pub idx: Ghost<int> }
pub struct VacantEntry<'a> { pub t: &'a mut HashTable, pub hash: Ghost<u64> }
impl HashTable {
    #[verifier::external_body]
    pub fn entry<'a, EQ: Fn(&Arc<Record>) -> bool, H: Fn(&Arc<Record>) -> u64>(&'a mut self, hash: u64, eq: EQ, hasher: H) -> (r: HashTableEntry<'a>)
        requires
            forall|e: &Arc<Record>| eq.requires((e,)),
            forall|e: &Arc<Record>| hasher.requires((e,)),
            forall|e: &Arc<Record>, h: u64| hasher.ensures((e,), h) ==> h == e.h, // @label rehash_closure_returns_the_hash_the_element_was_stored_under
        ensures
            match r {
                HashTableEntry::Occupied(o) => 0 <= o.idx@ < old(self).v@.len() && old(self).v@[o.idx@].h == hash && eq.ensures((&old(self).v@[o.idx@],), true)
                    && *o.t == *old(self) && *final(o.t) == *final(self),
                HashTableEntry::Vacant(v) => v.hash@ == hash && (forall|i: int| 0 <= i < old(self).v@.len() && (#[trigger] old(self).v@[i]).h == hash ==> eq.ensures((&old(self).v@[i],), false))
                    && *v.t == *old(self) && *final(v.t) == *final(self),
            }
    { unimplemented!() }
    #[verifier::external_body]
    pub fn find<EQ: Fn(&Arc<Record>) -> bool>(&self, hash: u64, eq: EQ) -> (r: Option<&Arc<Record>>)
        requires forall|e: &Arc<Record>| eq.requires((e,)),
        ensures
            match r {
                Some(x) => exists|i: int| 0 <= i < self.v@.len() && (#[trigger] self.v@[i]).h == hash && eq.ensures((&self.v@[i],), true) && *x == self.v@[i],
                None => forall|i: int| 0 <= i < self.v@.len() && (#[trigger] self.v@[i]).h == hash ==> eq.ensures((&self.v@[i],), false),
            }
    { unimplemented!() }
}
impl<'a> OccupiedEntry<'a> {
    #[verifier::external_body]
    pub fn get_mut(&mut self) -> (r: &mut Arc<Record>)
        requires 0 <= old(self).idx@ < old(self).t.v@.len(),
        ensures *r == old(self).t.v@[old(self).idx@],
            final(self).idx == old(self).idx,
            final(self).t.v@ == old(self).t.v@.update(old(self).idx@, *final(r)),
            *final(final(self).t) == *final(old(self).t),
    { unimplemented!() }
    #[verifier::external_body]
    pub fn remove(self) -> (r: (Arc<Record>, VacantEntry<'a>))
        requires 0 <= self.idx@ < old(self.t).v@.len(),
        ensures r.0 == old(self.t).v@[self.idx@], r.1.t.v@ == old(self.t).v@.remove(self.idx@), *final(r.1.t) == *final(self.t),
    { unimplemented!() }
}
impl<'a> VacantEntry<'a> {
    #[verifier::external_body]
    pub fn insert(self, e: Arc<Record>) -> (r: OccupiedEntry<'a>)
        requires e.h == self.hash@, // @label an_element_is_stored_under_the_hash_the_slot_was_probed_with
        ensures r.t.v@ == old(self.t).v@.push(e), r.idx@ == old(self.t).v@.len(), *final(r.t) == *final(self.t),
    { unimplemented!() }
}

pub struct HashTableIndexer { pub table: HashTable }

/// index invariant: one record per key (two keys with one hash are two records), every record stored under the hash of
/// its key
pub open spec fn wf(v: Seq<Arc<Record>>) -> bool {
    &&& forall|i: int, j: int| 0 <= i < v.len() && 0 <= j < v.len() && (#[trigger] v[i]).k == (#[trigger] v[j]).k ==> i == j
    &&& forall|i: int| 0 <= i < v.len() ==> (#[trigger] v[i]).h == key_hash(v[i].k)
}
pub open spec fn at(v: Seq<Arc<Record>>, key: KeyT, i: int) -> bool { 0 <= i < v.len() && v[i].k == key }
pub open spec fn absent(v: Seq<Arc<Record>>, key: KeyT) -> bool { forall|i: int| 0 <= i < v.len() ==> (#[trigger] v[i]).k != key }
pub open spec fn removed_at(new: Seq<Arc<Record>>, old: Seq<Arc<Record>>, i: int) -> bool {
    &&& new.len() == old.len() - 1
    &&& forall|j: int| 0 <= j < i ==> (#[trigger] new[j]) == old[j]
    &&& forall|j: int| i <= j < new.len() ==> (#[trigger] new[j]) == old[j + 1]
}

impl HashTableIndexer {

// ---- insert: a record of a new key is added (None); a record of an indexed key REPLACES that key's record and only it,
// the replaced record is returned; records of other keys -- also of colliding ones -- are untouched
//@region foyer-memory/src/indexer/hash_table.rs :: impl~^impl<E> Indexer for HashTableIndexer<E>/fn insert name=insert whole=1 sub=@(?m)\.entry\(([^|]+), \|(\w+)\| (.+), \|(\w+)\| (.+)\)( \{)?$@.entry(\1, |verif_e: &Arc<Record>| -> (r: bool) ensures verif_e.h == record.h ==> r == (record.k == verif_e.k) /* #label the_index_is_probed_by_key_equality_not_by_hash */ { let \2 = verif_e; \3 }, |verif_e: &Arc<Record>| -> (r: u64) ensures r == verif_e.h /* #label rehash_closure_returns_the_hash_the_element_was_stored_under */ { let \4 = verif_e; \5 })\6@
//@head
    pub fn insert(&mut self, mut record: Arc<Record>) -> (r: Option<Arc<Record>>)
        requires wf(old(self).table.v@), record.h == key_hash(record.k),
        ensures
            wf(final(self).table.v@), // @label one_record_per_key_each_under_the_hash_of_its_key
            absent(old(self).table.v@, record.k) ==> r is None && final(self).table.v@ == old(self).table.v@.push(record), // @label a_record_of_a_new_key_is_added_and_nothing_else_changes
            forall|i: int| at(old(self).table.v@, record.k, i) ==> r == Some(old(self).table.v@[i])
                && final(self).table.v@ == old(self).table.v@.update(i, record), // @label a_record_of_an_indexed_key_replaces_that_keys_record_only
//@end
// path canary (must FAIL): this path of insert is not vacuous
//@region foyer-memory/src/indexer/hash_table.rs :: impl~^impl<E> Indexer for HashTableIndexer<E>/fn insert name=canary_insert_replace_path whole=1 sub=@(?m)\.entry\(([^|]+), \|(\w+)\| (.+), \|(\w+)\| (.+)\)( \{)?$@.entry(\1, |verif_e: &Arc<Record>| -> (r: bool) ensures verif_e.h == record.h ==> r == (record.k == verif_e.k) /* #label the_index_is_probed_by_key_equality_not_by_hash */ { let \2 = verif_e; \3 }, |verif_e: &Arc<Record>| -> (r: u64) ensures r == verif_e.h /* #label rehash_closure_returns_the_hash_the_element_was_stored_under */ { let \4 = verif_e; \5 })\6@
//@head
    pub fn canary_insert_replace_path(&mut self, mut record: Arc<Record>) -> (r: Option<Arc<Record>>)
        requires wf(old(self).table.v@), record.h == key_hash(record.k),
        ensures forall|i: int| at(old(self).table.v@, record.k, i) ==> final(self).table.v@.len() == 777,
//@end

// ---- get: the record of exactly the requested key, or None when that key is not indexed
//@region foyer-memory/src/indexer/hash_table.rs :: impl~^impl<E> Indexer for HashTableIndexer<E>/fn get name=get whole=1 sub=@(?m)\.find\((\w+), \|(\w+)\| (.+)\)( \{)?$@.find(\1, |verif_e: &Arc<Record>| -> (r: bool) ensures verif_e.h == \1 ==> r == (*key == verif_e.k) /* #label the_index_is_probed_by_key_equality_not_by_hash */ { let \2 = verif_e; \3 })@
//@head
    pub fn get(&self, hash: u64, key: &KeyT) -> (r: Option<&Arc<Record>>)
        requires wf(self.table.v@), hash == key_hash(*key),
        ensures
            absent(self.table.v@, *key) ==> r is None,
            forall|i: int| at(self.table.v@, *key, i) ==> (r matches Some(x) && *x == self.table.v@[i]), // @label lookup_returns_the_record_of_that_key
//@end

// ---- remove: removes the record of exactly the requested key and returns it; anything else changes nothing
//@region foyer-memory/src/indexer/hash_table.rs :: impl~^impl<E> Indexer for HashTableIndexer<E>/fn remove name=remove whole=1 sub=@(?m)\.entry\(([^|]+), \|(\w+)\| (.+), \|(\w+)\| (.+)\)( \{)?$@.entry(\1, |verif_e: &Arc<Record>| -> (r: bool) ensures verif_e.h == \1 ==> r == (*key == verif_e.k) /* #label the_index_is_probed_by_key_equality_not_by_hash */ { let \2 = verif_e; \3 }, |verif_e: &Arc<Record>| -> (r: u64) ensures r == verif_e.h /* #label rehash_closure_returns_the_hash_the_element_was_stored_under */ { let \4 = verif_e; \5 })\6@
//@head
    pub fn remove(&mut self, hash: u64, key: &KeyT) -> (r: Option<Arc<Record>>)
        requires wf(old(self).table.v@), hash == key_hash(*key),
        ensures
            wf(final(self).table.v@),
            absent(old(self).table.v@, *key) ==> r is None && final(self).table.v@ == old(self).table.v@, // @label remove_of_a_key_that_is_not_indexed_changes_nothing
            forall|i: int| at(old(self).table.v@, *key, i) ==> r == Some(old(self).table.v@[i]) && removed_at(final(self).table.v@, old(self).table.v@, i), // @label remove_takes_only_that_keys_record
//@end
// path canary (must FAIL): this path of remove is not vacuous
//@region foyer-memory/src/indexer/hash_table.rs :: impl~^impl<E> Indexer for HashTableIndexer<E>/fn remove name=canary_remove_hit_path whole=1 sub=@(?m)\.entry\(([^|]+), \|(\w+)\| (.+), \|(\w+)\| (.+)\)( \{)?$@.entry(\1, |verif_e: &Arc<Record>| -> (r: bool) ensures verif_e.h == \1 ==> r == (*key == verif_e.k) /* #label the_index_is_probed_by_key_equality_not_by_hash */ { let \2 = verif_e; \3 }, |verif_e: &Arc<Record>| -> (r: u64) ensures r == verif_e.h /* #label rehash_closure_returns_the_hash_the_element_was_stored_under */ { let \4 = verif_e; \5 })\6@
//@head
    pub fn canary_remove_hit_path(&mut self, hash: u64, key: &KeyT) -> (r: Option<Arc<Record>>)
        requires wf(old(self).table.v@), hash == key_hash(*key),
        ensures forall|i: int| at(old(self).table.v@, *key, i) ==> final(self).table.v@.len() == 777,
//@end

}

} // verus!

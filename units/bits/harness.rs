    // foyer_common::bits at the widths foyer uses: loop-free, full domain => complete proofs. These are the contracts
    // the Verus units assume for `bits::align_up(PAGE, v)` / `assert_aligned`.
    macro_rules! vk_bits {
        ($name:ident, $t:ty) => {
            #[kani::proof]
            fn $name() {
                let align: $t = kani::any();
                let v: $t = kani::any();
                kani::assume(align > 0 && is_pow2(align));
                kani::assume(v <= <$t>::MAX - align);
                let up = align_up(align, v);
                assert!(up >= v, "[align_up_not_below]");
                assert!(up - v < align, "[align_up_less_than_one_unit_above]");
                assert!(up % align == 0, "[align_up_is_multiple]");
                assert!(is_aligned(align, up), "[align_up_is_aligned]");
                let down = align_down(align, v);
                assert!(down <= v && v - down < align && down % align == 0, "[align_down_is_floor_multiple]");
                assert!(is_aligned(align, v) == (v % align == 0), "[is_aligned_iff_multiple]");
                if v % align == 0 { assert!(up == v && down == v, "[aligned_values_are_fixed_points]"); }
            }
        };
    }
    vk_bits!(bits_usize, usize);
    vk_bits!(bits_u64, u64);
    vk_bits!(bits_u32, u32);

    #[kani::proof]
    fn bits_is_pow2() {
        let v: u32 = kani::any();
        kani::assume(v > 0);
        assert!(is_pow2(v) == (v.count_ones() == 1), "[is_pow2_iff_single_bit]");
    }
    #[kani::proof]
    fn canary_bits_reaches_assertions() {
        let v: u32 = kani::any();
        kani::assume(v < u32::MAX - 4096);
        assert!(align_up(4096u32, v) == v, "[canary]");
    }

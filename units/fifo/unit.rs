// UNIT fifo — Fifo (C14), whole bodies of push / pop / remove over a stand-in list (the real one is an intrusive list): the
// queue is the sequence of record ids; push appends at the back, pop takes the front, remove unlinks exactly the named
// record and keeps the order of the others -- hence, for every operation sequence, records leave in insertion order.
// Proved for all queues (no bound); the bounded Kani unit evict runs 2-3 record scenarios on the real intrusive list.
#![allow(unused_imports, unused_variables, dead_code, unused_mut)]
use vstd::prelude::*;
verus! {

global size_of usize == 8;

/// an `Arc<Record>`: names the record; `flag` logs what `set_in_eviction` was last told (atomic flag behind `&self`:
/// the stand-in returns the id so that the call is visible in the effect log of the Fifo stand-in)
pub struct QRec { pub id: Ghost<int> }
pub struct PtrT { pub id: Ghost<int> }
pub fn verif_ptr(record: &QRec) -> (p: PtrT) ensures p.id@ == record.id@ { PtrT { id: record.id } }

#[verifier::external_body]
pub struct ListT { _p: core::marker::PhantomData<u8> }
impl ListT {
    pub uninterp spec fn view(&self) -> Seq<int>;
    #[verifier::external_body]
    pub fn pop_front(&mut self) -> (r: Option<QRec>)
        ensures old(self)@.len() == 0 ==> r is None && final(self)@ == old(self)@,
            old(self)@.len() > 0 ==> r is Some && r.unwrap().id@ == old(self)@[0] && final(self)@ == old(self)@.subrange(1, old(self)@.len() as int),
    { unimplemented!() }
    #[verifier::external_body]
    pub fn push_back(&mut self, r: QRec) ensures final(self)@ == old(self)@.push(r.id@) { }
    /// intrusive unlink of the record the pointer names (unsafe fn: the caller guarantees it is linked in THIS list)
    #[verifier::external_body]
    pub fn remove_from_ptr(&mut self, p: PtrT) -> (r: QRec)
        requires old(self)@.contains(p.id@),
        ensures r.id@ == p.id@, exists|i: int| 0 <= i < old(self)@.len() && old(self)@[i] == p.id@ && final(self)@ == #[trigger] old(self)@.remove(i),
    { unimplemented!() }
}
pub open spec fn nodup(s: Seq<int>) -> bool { forall|i: int, j: int| 0 <= i < s.len() && 0 <= j < s.len() && s[i] == s[j] ==> i == j }

pub proof fn lemma_nodup_remove(s: Seq<int>, i: int)
    requires nodup(s), 0 <= i < s.len(),
    ensures nodup(s.remove(i)), forall|y: int| #![trigger s.remove(i).contains(y)] #![trigger s.contains(y)] s.remove(i).contains(y) <==> (s.contains(y) && y != s[i]),
{
    let t = s.remove(i);
    assert forall|a: int, b: int| 0 <= a < t.len() && 0 <= b < t.len() && t[a] == t[b] implies a == b by {
        let a2 = if a < i { a } else { a + 1 }; let b2 = if b < i { b } else { b + 1 };
        assert(t[a] == s[a2] && t[b] == s[b2]);
    }
    assert forall|y: int| t.contains(y) <==> (s.contains(y) && y != s[i]) by {
        if t.contains(y) { let a = choose|a: int| 0 <= a < t.len() && t[a] == y; let a2 = if a < i { a } else { a + 1 }; assert(s[a2] == y); assert(s.contains(y)); }
        if s.contains(y) && y != s[i] { let a = choose|a: int| 0 <= a < s.len() && s[a] == y; let a1 = if a < i { a } else { a - 1 }; assert(t[a1] == y); }
    }
}
pub proof fn lemma_nodup_remove_all(s: Seq<int>)
    requires nodup(s),
    ensures forall|i: int| 0 <= i < s.len() ==> nodup(#[trigger] s.remove(i)) && (forall|y: int| #![trigger s.remove(i).contains(y)] #![trigger s.contains(y)] s.remove(i).contains(y) <==> (s.contains(y) && y != s[i])),
{
    assert forall|i: int| 0 <= i < s.len() implies nodup(#[trigger] s.remove(i)) && (forall|y: int| #![trigger s.remove(i).contains(y)] #![trigger s.contains(y)] s.remove(i).contains(y) <==> (s.contains(y) && y != s[i])) by { lemma_nodup_remove(s, i); }
}
pub proof fn lemma_nodup_pop_front(s: Seq<int>)
    requires nodup(s),
    ensures s.len() > 0 ==> nodup(s.subrange(1, s.len() as int)) && (forall|y: int| #![trigger s.subrange(1, s.len() as int).contains(y)] #![trigger s.contains(y)] s.subrange(1, s.len() as int).contains(y) <==> (s.contains(y) && y != s[0])),
{ if s.len() > 0 { lemma_nodup_remove(s, 0); assert(s.remove(0) =~= s.subrange(1, s.len() as int)); } }

/// the in-eviction flags (atomics behind `&self`) as a ghost set owned by the stand-in
pub struct FifoT { pub queue: ListT, pub in_ev: Ghost<Set<int>> }
impl FifoT {
    #[verifier::external_body]
    pub fn verif_set_in_eviction(&mut self, r: &QRec, v: bool)
        ensures final(self).queue == old(self).queue, final(self).in_ev@ == (if v { old(self).in_ev@.insert(r.id@) } else { old(self).in_ev@.remove(r.id@) }) { }
    /// flag <=> membership
    pub open spec fn wf(&self) -> bool { nodup(self.queue@) && forall|id: int| #![trigger self.in_ev@.contains(id)] #![trigger self.queue@.contains(id)] self.in_ev@.contains(id) <==> self.queue@.contains(id) }

//@region foyer-memory/src/eviction/fifo.rs :: impl~^impl<K, V, P> Eviction for Fifo<K, V, P>/fn push name=fifo_push whole=1 sub=@(\w+)\.set_in_eviction\(@self.verif_set_in_eviction(&\1, @
//@head
    fn fifo_push(&mut self, record: QRec)
        requires old(self).wf(), !old(self).queue@.contains(record.id@),
        ensures final(self).wf(), // @label in_eviction_flag_is_membership
            final(self).queue@ == old(self).queue@.push(record.id@), // @label a_pushed_record_is_the_newest_of_the_queue
//@tail
        proof {
            let s = old(self).queue@; let t = self.queue@; let x = record.id@;
            assert forall|i: int, j: int| 0 <= i < t.len() && 0 <= j < t.len() && t[i] == t[j] implies i == j by {
                if i < s.len() && j < s.len() { assert(s[i] == s[j]); } else if i < s.len() { assert(s.contains(s[i])); } else if j < s.len() { assert(s.contains(s[j])); }
            }
            assert forall|y: int| self.in_ev@.contains(y) <==> #[trigger] t.contains(y) by {
                if t.contains(y) { let i = choose|i: int| 0 <= i < t.len() && t[i] == y; if i < s.len() { assert(s[i] == y); assert(s.contains(y)); } }
                if s.contains(y) { let i = choose|i: int| 0 <= i < s.len() && s[i] == y; assert(t[i] == y); }
                if y == x { assert(t[s.len() as int] == x); }
            }
        }
//@end

//@region foyer-memory/src/eviction/fifo.rs :: impl~^impl<K, V, P> Eviction for Fifo<K, V, P>/fn pop name=fifo_pop whole=1 rules=option-inspect sub=@(\w+)\.set_in_eviction\(@self.verif_set_in_eviction(&\1, @
//@head
    fn fifo_pop(&mut self) -> (r: Option<QRec>)
        requires old(self).wf(),
        ensures final(self).wf(), // @label in_eviction_flag_is_membership
            old(self).queue@.len() == 0 ==> r is None && final(self).queue@ == old(self).queue@,
            old(self).queue@.len() > 0 ==> r is Some && r.unwrap().id@ == old(self).queue@[0]
                && final(self).queue@ == old(self).queue@.subrange(1, old(self).queue@.len() as int), // @label the_victim_is_the_oldest_record_of_the_queue
//@prologue
        proof { lemma_nodup_pop_front(self.queue@); }
//@end

//@region foyer-memory/src/eviction/fifo.rs :: impl~^impl<K, V, P> Eviction for Fifo<K, V, P>/fn remove name=fifo_remove whole=1 sub=@(\w+)\.set_in_eviction\(@self.verif_set_in_eviction(\1, @ sub=@unsafe \{@{@ sub=@Arc::as_ptr\(record\)@verif_ptr(record)@
//@head
    fn fifo_remove(&mut self, record: &QRec)
        requires old(self).wf(), old(self).queue@.contains(record.id@),
        ensures final(self).wf(), // @label in_eviction_flag_is_membership
            exists|i: int| 0 <= i < old(self).queue@.len() && old(self).queue@[i] == record.id@ && final(self).queue@ == #[trigger] old(self).queue@.remove(i), // @label remove_unlinks_exactly_that_record_and_keeps_the_order_of_the_others
//@prologue
        proof { lemma_nodup_remove_all(self.queue@); }
//@end
}

} // verus!

    // Executable restatement of the TEARDOWN contracts on the real cache (replay only): for every algorithm, the entries
    // resident at clear() / at the drop of the last handle each leave with exactly one Event::Clear notification.
    use std::sync::Mutex as StdMutex;
    use crate::eviction::{fifo::FifoConfig, lfu::LfuConfig, lru::LruConfig, s3fifo::S3FifoConfig, sieve::SieveConfig};
    use foyer_common::event::{Event, EventListener};

    #[derive(Default)]
    struct Rec { left: StdMutex<Vec<(Event, u64)>> }
    impl EventListener for Rec {
        type Key = u64;
        type Value = u64;
        fn on_leave(&self, reason: Event, key: &u64, _value: &u64) { self.left.lock().unwrap().push((reason, *key)); }
    }

    #[test]
    fn verif_witness_teardown() {
        let mut found: Vec<String> = vec![];
        let configs: Vec<(&str, EvictionConfig)> = vec![
            ("fifo", FifoConfig::default().into()), ("s3fifo", S3FifoConfig::default().into()), ("lru", LruConfig::default().into()),
            ("lfu", LfuConfig::default().into()), ("sieve", SieveConfig::default().into()),
        ];
        for (name, cfg) in configs {
            for by_drop in [false, true] {
                let rec = Arc::new(Rec::default());
                let cache: Cache<u64, u64> = CacheBuilder::new(64).with_shards(2).with_eviction_config(cfg.clone()).with_event_listener(rec.clone()).build();
                for k in 0..5u64 { cache.insert(k, k); }
                cache.remove(&0);
                let resident: Vec<u64> = (0..5u64).filter(|k| cache.contains(k)).collect();
                let second = cache.clone();
                if by_drop { drop(cache); drop(second); } else { cache.clear(); }
                let mut clears: Vec<u64> = rec.left.lock().unwrap().iter().filter(|(e, _)| *e == Event::Clear).map(|(_, k)| *k).collect();
                clears.sort();
                if clears != resident {
                    let (label, how) = if by_drop { ("a_dropped_cache_clears_itself_so_every_resident_entry_leaves_with_one_notification", "drop(all handles)") } else { ("clear_reaches_the_cache_inside_once_for_every_algorithm", "clear()") };
                    found.push(format!("WITNESS {label} :: {name} capacity=64 shards=2: insert(0..5); remove(0); {how} => Clear notifications for {:?}, resident were {:?}", clears, resident));
                }
            }
        }
        for f in found.iter().take(3) { println!("{f}"); }
        println!("WITNESS-SEARCH-DONE found={}", found.len());
    }

// UNIT teardown — C13: dropping the cache is a clear. `Drop for RawCacheInner` runs the SAME `RawCacheInner::clear` whose
// contract (unit shard, region clear_notify: every record that was resident is handed to the listener once with
// Event::Clear, outside the locks) covers an explicit clear(); `RawCache::clear` and the algorithm dispatch `Cache::clear`
// forward to it exactly once, for the cache inside. So every entry still resident when the last handle to the cache goes
// away leaves memory with exactly one notification, like any other.
// Effects behind `&self` (interior mutability) are modelled as `&mut` stand-ins with a ghost call counter.
#![allow(unused_imports, unused_variables, dead_code, unused_mut)]
use vstd::prelude::*;
verus! {

pub struct RawCacheInner { pub clears: Ghost<nat> }
impl RawCacheInner {
    /// RawCacheInner::clear (contract proved in unit shard, region clear_notify): one more complete clear
    #[verifier::external_body]
    pub fn clear(&mut self) ensures final(self).clears@ == old(self).clears@ + 1 { unimplemented!() }

//@region foyer-memory/src/raw.rs :: impl~^impl<E, S, I> Drop for RawCacheInner<E, S, I>/fn drop name=inner_drop whole=1 rules=drop-tracing
//@head
    fn inner_drop(&mut self)
        ensures final(self).clears@ == old(self).clears@ + 1, // @label a_dropped_cache_clears_itself_so_every_resident_entry_leaves_with_one_notification
//@end
}

pub struct RawCacheT { pub inner: RawCacheInner }
impl RawCacheT {
//@region foyer-memory/src/raw.rs :: impl~^impl<E, S, I> RawCache<E, S, I> where/fn clear name=raw_clear whole=1 rules=drop-tracing
//@head
    fn raw_clear(&mut self)
        ensures final(self).inner.clears@ == old(self).inner.clears@ + 1, // @label clear_of_the_cache_is_one_clear_of_its_shards_and_listener_round
//@end
    pub fn clear(&mut self) ensures final(self).inner.clears@ == old(self).inner.clears@ + 1 { self.raw_clear() }
}

pub enum Cache { Fifo(RawCacheT), S3Fifo(RawCacheT), Lru(RawCacheT), Lfu(RawCacheT), Sieve(RawCacheT) }
impl Cache {
    pub open spec fn raw(&self) -> RawCacheT {
        match self { Cache::Fifo(c) => *c, Cache::S3Fifo(c) => *c, Cache::Lru(c) => *c, Cache::Lfu(c) => *c, Cache::Sieve(c) => *c }
    }
    pub open spec fn same_algorithm(&self, o: &Cache) -> bool {
        (self is Fifo <==> o is Fifo) && (self is S3Fifo <==> o is S3Fifo) && (self is Lru <==> o is Lru) && (self is Lfu <==> o is Lfu) && (self is Sieve <==> o is Sieve)
    }
//@region foyer-memory/src/cache.rs :: impl~^impl<K, V, S, P> Cache<K, V, S, P>/fn clear name=cache_clear whole=1 rules=drop-tracing
//@head
    fn cache_clear(&mut self)
        ensures final(self).same_algorithm(old(self)),
            final(self).raw().inner.clears@ == old(self).raw().inner.clears@ + 1, // @label clear_reaches_the_cache_inside_once_for_every_algorithm
//@end
}

} // verus!

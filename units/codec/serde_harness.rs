    // ---- EntryHeader (36 bytes): total over all inputs, loop-free => complete proof
    pub fn vk_with_context_stub(this: Error, _key: &'static str, _value: impl ToString) -> Error { this }
    pub fn vk_bt_stub() -> std::backtrace::Backtrace { std::backtrace::Backtrace::disabled() }

    fn vk_compression(tag: u8) -> Compression {
        match tag % 3 { 0 => Compression::None, 1 => Compression::Zstd, _ => Compression::Lz4 }
    }

    #[kani::proof]
    #[kani::unwind(3)]
    #[kani::stub(foyer_common::error::Error::with_context, vk_with_context_stub)]
    #[kani::stub(std::backtrace::Backtrace::capture, vk_bt_stub)]
    fn entry_header_read_total() {
        let buf: [u8; 36] = kani::any();
        let r = EntryHeader::read(&buf[..]);
        let magic_ok = buf[32] == 0x97 && buf[33] == 0x03 && buf[34] == 0x27;
        match r {
            Ok(h) => {
                assert!(magic_ok, "[ok_implies_magic]");
                assert!(buf[35] < 3, "[ok_implies_valid_compression_tag]");
                assert!(h.compression.to_u8() == buf[35], "[compression_is_tag]");
                assert!(h.key_len == u32::from_be_bytes([buf[0], buf[1], buf[2], buf[3]]), "[key_len_is_be_bytes_0_4]");
                assert!(h.value_len == u32::from_be_bytes([buf[4], buf[5], buf[6], buf[7]]), "[value_len_is_be_bytes_4_8]");
                assert!(h.hash == u64::from_be_bytes([buf[8], buf[9], buf[10], buf[11], buf[12], buf[13], buf[14], buf[15]]), "[hash_is_be_bytes_8_16]");
                assert!(h.sequence == u64::from_be_bytes([buf[16], buf[17], buf[18], buf[19], buf[20], buf[21], buf[22], buf[23]]), "[sequence_is_be_bytes_16_24]");
                assert!(h.checksum == u64::from_be_bytes([buf[24], buf[25], buf[26], buf[27], buf[28], buf[29], buf[30], buf[31]]), "[checksum_is_be_bytes_24_32]");
            }
            Err(e) => {
                assert!(!(magic_ok && buf[35] < 3), "[valid_header_is_accepted]");
                if !magic_ok {
                    assert!(e.kind() == ErrorKind::MagicMismatch, "[bad_magic_is_magic_mismatch]");
                } else {
                    assert!(e.kind() == ErrorKind::Parse, "[bad_tag_is_parse_error]");
                }
            }
        }
        kani::cover!(magic_ok && buf[35] == 2, "reachable: valid lz4 header");
    }

    #[kani::proof]
    #[kani::unwind(3)]
    #[kani::stub(foyer_common::error::Error::with_context, vk_with_context_stub)]
    #[kani::stub(std::backtrace::Backtrace::capture, vk_bt_stub)]
    fn entry_header_write_read_roundtrip() {
        let h = EntryHeader {
            key_len: kani::any(),
            value_len: kani::any(),
            hash: kani::any(),
            sequence: kani::any(),
            checksum: kani::any(),
            compression: vk_compression(kani::any()),
        };
        let mut buf = [0xA5u8; 40];
        {
            let mut w = &mut buf[..];
            h.write(&mut w);
            assert!(w.len() == 40 - EntryHeader::serialized_len(), "[write_advances_exactly_serialized_len]");
        }
        assert!(EntryHeader::serialized_len() == 36, "[serialized_len_is_36]");
        assert!(buf[36] == 0xA5 && buf[37] == 0xA5 && buf[38] == 0xA5 && buf[39] == 0xA5, "[write_frame_nothing_past_header]");
        match EntryHeader::read(&buf[..36]) {
            Ok(r) => assert!(r == h, "[read_of_write_is_identity]"),
            Err(_) => assert!(false, "[read_of_write_is_ok]"),
        }
    }

    #[kani::proof]
    #[kani::unwind(3)]
    #[kani::stub(foyer_common::error::Error::with_context, vk_with_context_stub)]
    #[kani::stub(std::backtrace::Backtrace::capture, vk_bt_stub)]
    fn compression_tag_roundtrip() {
        let tag: u8 = kani::any();
        match Compression::try_from(tag) {
            Ok(c) => {
                assert!(tag < 3, "[only_tags_0_1_2_parse]");
                assert!(c.to_u8() == tag, "[to_u8_inverts_try_from]");
                assert!(u8::from(c) == tag, "[from_inverts_try_from]");
            }
            Err(e) => {
                assert!(tag >= 3, "[tags_0_1_2_always_parse]");
                assert!(e.kind() == ErrorKind::Parse, "[unknown_tag_is_parse_error]");
            }
        }
    }

    #[kani::proof]
    fn canary_codec_reaches_assertions() {
        let buf: [u8; 36] = kani::any();
        kani::assume(buf[32] == 0x97);
        assert!(buf[33] != 0x03, "[canary]");
    }

    // ---- Tombstone (16 bytes)
    #[kani::proof]
    fn tombstone_roundtrip() {
        let t = Tombstone { hash: kani::any(), sequence: kani::any() };
        let mut buf = [0x5Au8; 20];
        {
            let mut w = &mut buf[..];
            t.write(&mut w);
            assert!(w.len() == 20 - Tombstone::SERIALIZED_LEN, "[write_advances_exactly_16]");
        }
        assert!(Tombstone::SERIALIZED_LEN == 16, "[serialized_len_is_16]");
        assert!(buf[16] == 0x5A && buf[19] == 0x5A, "[write_frame]");
        let r = Tombstone::read(&buf[..16]);
        assert!(r.hash == t.hash && r.sequence == t.sequence, "[read_of_write_is_identity]");
    }

    #[kani::proof]
    fn tombstone_read_total() {
        let buf: [u8; 16] = kani::any();
        let r = Tombstone::read(&buf[..]);
        assert!(r.hash == u64::from_be_bytes([buf[0], buf[1], buf[2], buf[3], buf[4], buf[5], buf[6], buf[7]]), "[hash_is_be_bytes_0_8]");
        assert!(r.sequence == u64::from_be_bytes([buf[8], buf[9], buf[10], buf[11], buf[12], buf[13], buf[14], buf[15]]), "[sequence_is_be_bytes_8_16]");
        // an all-zero slot is an empty slot (sequence 0): what `open` relies on to skip unused slots
        if buf == [0u8; 16] { assert!(r.sequence == 0, "[zero_slot_has_sequence_zero]"); }
    }

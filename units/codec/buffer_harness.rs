    // ---- BlobEntryIndex (24 bytes): loop-free, full domain => complete
    #[kani::proof]
    fn blob_entry_index_roundtrip() {
        let idx = BlobEntryIndex { hash: kani::any(), sequence: kani::any(), offset: kani::any(), len: kani::any() };
        let mut buf = [0x5Au8; 28];
        idx.write(&mut buf[..24]);
        assert!(BlobEntryIndex::serialized_len() == 24, "[serialized_len_is_24]");
        assert!(buf[24] == 0x5A && buf[27] == 0x5A, "[write_frame]");
        let r = BlobEntryIndex::read(&buf[..24]);
        assert!(r == idx, "[read_of_write_is_identity]");
    }

    #[kani::proof]
    fn blob_entry_index_read_total() {
        let buf: [u8; 24] = kani::any();
        let r = BlobEntryIndex::read(&buf[..]);
        assert!(r.hash == u64::from_be_bytes([buf[0], buf[1], buf[2], buf[3], buf[4], buf[5], buf[6], buf[7]]), "[hash_is_be_bytes_0_8]");
        assert!(r.sequence == u64::from_be_bytes([buf[8], buf[9], buf[10], buf[11], buf[12], buf[13], buf[14], buf[15]]), "[sequence_is_be_bytes_8_16]");
        assert!(r.offset == u32::from_be_bytes([buf[16], buf[17], buf[18], buf[19]]), "[offset_is_be_bytes_16_20]");
        assert!(r.len == u32::from_be_bytes([buf[20], buf[21], buf[22], buf[23]]), "[len_is_be_bytes_20_24]");
    }

    // ---- BlobIndexReader::read: the count / offsets of a blob index page are trusted only after its checksum matched.
    // The checksum function is stubbed by a constant, so "mismatch" / "match" are decided by the first 8 bytes alone;
    // all 64-byte pages (room for 2 entries).
    pub fn vk_checksum_const(_buf: &[u8]) -> u64 { 0x0123_4567_89AB_CDEF }
    /// same constant, and it checks WHAT is checksummed: everything behind the 8 checksum bytes of the 64-byte page, i.e.
    /// the count field and the entries (a checksum that skips the count lets a corrupted count through)
    pub fn vk_checksum_const_over_count_and_entries(buf: &[u8]) -> u64 {
        assert!(buf.len() == 64 - 8, "[blob_index_checksum_covers_the_count_field_and_the_entries]");
        0x0123_4567_89AB_CDEF
    }

    #[kani::proof]
    #[kani::unwind(4)]
    #[kani::stub(crate::serde::Checksummer::checksum64, vk_checksum_const)]
    fn blob_index_bad_checksum_rejected_before_count_is_used() {
        let buf: [u8; 64] = kani::any();
        let stored = u64::from_be_bytes([buf[0], buf[1], buf[2], buf[3], buf[4], buf[5], buf[6], buf[7]]);
        kani::assume(stored != 0x0123_4567_89AB_CDEF);
        // must not panic whatever the count field says, and must reject the page
        let r = BlobIndexReader::read(&buf[..]);
        assert!(r.is_none(), "[index_page_with_wrong_checksum_is_rejected]");
        std::mem::forget(r);
    }

    #[kani::proof]
    #[kani::unwind(4)]
    #[kani::stub(crate::serde::Checksummer::checksum64, vk_checksum_const_over_count_and_entries)]
    fn blob_index_good_checksum_decodes_count_entries() {
        let mut buf: [u8; 64] = kani::any();
        let c = 0x0123_4567_89AB_CDEFu64.to_be_bytes();
        buf[0] = c[0]; buf[1] = c[1]; buf[2] = c[2]; buf[3] = c[3]; buf[4] = c[4]; buf[5] = c[5]; buf[6] = c[6]; buf[7] = c[7];
        let count = u32::from_be_bytes([buf[8], buf[9], buf[10], buf[11]]);
        kani::assume(count <= 2);
        match BlobIndexReader::read(&buf[..]) {
            None => assert!(false, "[index_page_with_matching_checksum_is_accepted]"),
            Some(v) => {
                assert!(v.len() == count as usize, "[decoded_entry_count_is_the_recorded_count]");
                if count >= 1 { assert!(v[0] == BlobEntryIndex::read(&buf[12..36]), "[entry_i_is_decoded_from_its_24_byte_slot]"); }
                if count == 2 { assert!(v[1] == BlobEntryIndex::read(&buf[36..60]), "[entry_i_is_decoded_from_its_24_byte_slot]"); }
                std::mem::forget(v);
            }
        }
    }

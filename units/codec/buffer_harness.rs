    // ---- BlobEntryIndex (24 bytes): loop-free, full domain => complete
    #[kani::proof]
    fn blob_entry_index_roundtrip() {
        let idx = BlobEntryIndex { hash: kani::any(), sequence: kani::any(), offset: kani::any(), len: kani::any() };
        let mut buf = [0x5Au8; 28];
        idx.write(&mut buf[..24]);
        assert!(BlobEntryIndex::serialized_len() == 24, "[serialized_len_is_24]");
        assert!(buf[24] == 0x5A && buf[27] == 0x5A, "[write_frame]");
        let r = BlobEntryIndex::read(&buf[..24]);
        assert!(r == idx, "[read_of_write_is_identity]");
    }

    #[kani::proof]
    fn blob_entry_index_read_total() {
        let buf: [u8; 24] = kani::any();
        let r = BlobEntryIndex::read(&buf[..]);
        assert!(r.hash == u64::from_be_bytes([buf[0], buf[1], buf[2], buf[3], buf[4], buf[5], buf[6], buf[7]]), "[hash_is_be_bytes_0_8]");
        assert!(r.sequence == u64::from_be_bytes([buf[8], buf[9], buf[10], buf[11], buf[12], buf[13], buf[14], buf[15]]), "[sequence_is_be_bytes_8_16]");
        assert!(r.offset == u32::from_be_bytes([buf[16], buf[17], buf[18], buf[19]]), "[offset_is_be_bytes_16_20]");
        assert!(r.len == u32::from_be_bytes([buf[20], buf[21], buf[22], buf[23]]), "[len_is_be_bytes_20_24]");
    }

    // EntrySerializer::serialize / EntryDeserializer::deserialize on fixed-width key and value, Compression::None:
    // recorded lengths are the bytes actually written, value first then key, round trip is the identity, and a
    // destination that is too small is refused as a whole (size-limit error). Loop-free, full domain => complete.
    pub fn vk_with_context_stub(this: Error, _key: &'static str, _value: impl ToString) -> Error { this }
    pub fn vk_with_source_stub(this: Error, _source: impl Into<anyhow::Error>) -> Error { this }
    pub fn vk_bt_stub() -> std::backtrace::Backtrace { std::backtrace::Backtrace::disabled() }

    #[kani::proof]
    #[kani::unwind(3)]
    #[kani::stub(foyer_common::error::Error::with_context, vk_with_context_stub)]
    #[kani::stub(foyer_common::error::Error::with_source, vk_with_source_stub)]
    #[kani::stub(std::backtrace::Backtrace::capture, vk_bt_stub)]
    fn entry_serialize_records_lengths_and_roundtrips() {
        let k: u64 = kani::any();
        let v: u32 = kani::any();
        let mut buf = [0xA5u8; 16];
        let info = {
            let w = &mut buf[..];
            match EntrySerializer::serialize(&k, &v, Compression::None, w) {
                Ok(info) => info,
                Err(e) => { assert!(false, "[serialize_into_large_enough_buffer_succeeds]"); std::mem::forget(e); return; }
            }
        };
        assert!(info.value_len == 4, "[recorded_value_len_is_bytes_written]");
        assert!(info.key_len == 8, "[recorded_key_len_is_bytes_written]");
        assert!(buf[12] == 0xA5 && buf[15] == 0xA5, "[exactly_recorded_bytes_are_written]");
        assert!(buf[0] == v.to_le_bytes()[0] && buf[3] == v.to_le_bytes()[3] && buf[4] == k.to_le_bytes()[0] && buf[11] == k.to_le_bytes()[7], "[value_is_written_before_key]");
        match EntryDeserializer::deserialize::<u64, u32>(&buf[..12], info.key_len, info.value_len, Compression::None, None) {
            Ok((k2, v2)) => assert!(k2 == k && v2 == v, "[deserialize_of_serialize_is_identity]"),
            Err(e) => { assert!(false, "[deserialize_of_serialize_is_ok]"); std::mem::forget(e); }
        }
        // a destination smaller than the entry: refused as a whole
        let short: usize = kani::any();
        kani::assume(short < 12);
        let mut small = [0u8; 12];
        match EntrySerializer::serialize(&k, &v, Compression::None, &mut small[..short]) {
            Ok(i) => { assert!(false, "[oversize_entry_is_rejected_whole_with_size_limit]"); std::mem::forget(i); }
            Err(e) => { assert!(e.kind() == ErrorKind::BufferSizeLimit, "[oversize_entry_is_rejected_whole_with_size_limit]"); std::mem::forget(e); }
        }
    }


// UNIT placement — RawCache::insert_with_properties_inner, whole (C11, C12, C06): EVERY explicit insert -- also one the
// in-memory filter rejects or that is advised on-disk -- goes through insert_inner (=> RawCacheShard::emplace, which takes
// over a pending fetch of the key, closes it and answers its waiters: unit shard) exactly once, with the placement
// decision made before: phantom iff filtered out or advised on-disk. A unit of its own so that a change of the
// function's shape cannot make the large shard unit undecided.
#![allow(unused_imports, unused_variables, dead_code, unused_mut)]
use vstd::prelude::*;
verus! {

global size_of usize == 8;

//@item foyer-common/src/properties.rs :: enum Source rules=derive-structural
//@item foyer-common/src/properties.rs :: enum Location rules=derive-structural
#[derive(Clone, Copy)]
pub struct PropsT { pub phantom: bool, pub loc: Option<Location> }
impl PropsT {
    pub fn with_phantom(self, phantom: bool) -> (r: PropsT) ensures r.phantom == phantom, r.loc == self.loc { PropsT { phantom, loc: self.loc } }
    pub fn location(&self) -> (r: Option<Location>) ensures r == self.loc { self.loc }
    pub fn phantom(&self) -> (r: Option<bool>) ensures r == Some(self.phantom) { Some(self.phantom) }
}
pub struct Data { pub key: u64, pub value: u64, pub properties: PropsT, pub hash: u64, pub weight: usize }
/// `Arc<Record<E>>`
pub struct RecT { pub d: Data }
impl RecT {
    #[verifier::external_body] pub fn inc_refs(&self, n: usize) -> usize { unimplemented!() }
    #[verifier::external_body] pub fn dec_refs(&self, n: usize) -> usize { unimplemented!() }
}
/// `Arc::new(Record::new(data))`
pub fn verif_record(d: Data) -> (r: RecT) ensures r.d == d { RecT { d } }
pub struct PipeRefT { }
pub struct PipeT { }
impl PipeT { pub fn clone(&self) -> PipeRefT { PipeRefT { } } #[verifier::external_body] pub fn is_enabled(&self) -> bool { unimplemented!() } }
pub struct InnerRefT { }
pub struct WeighterT { }
pub struct FilterT { }
pub struct HashBuilderT { }
pub uninterp spec fn spec_filter(k: u64, v: u64) -> bool;
pub uninterp spec fn spec_weight(k: u64, v: u64) -> usize;
pub uninterp spec fn spec_hash(k: u64) -> u64;
impl WeighterT { #[verifier::external_body] pub fn call(&self, k: &u64, v: &u64) -> (r: usize) ensures r == spec_weight(*k, *v) { unimplemented!() } }
impl FilterT { #[verifier::external_body] pub fn call(&self, k: &u64, v: &u64) -> (r: bool) ensures r == spec_filter(*k, *v) { unimplemented!() } }
impl HashBuilderT { #[verifier::external_body] pub fn hash_one(&self, k: &u64) -> (r: u64) ensures r == spec_hash(*k) { unimplemented!() } }
pub struct InnerT { pub hash_builder: HashBuilderT, pub weighter: WeighterT, pub filter: FilterT }
impl InnerT { pub fn clone(&self) -> InnerRefT { InnerRefT { } } }
pub struct RawCacheEntry { pub record: RecT, pub pipe: PipeRefT, pub inner: InnerRefT, pub source: Source }
/// what reached RawCacheShard::emplace (through insert_inner), in order
pub struct CacheT { pub inner: InnerT, pub pipe: PipeT, pub emplaced: Ghost<Seq<(Data, Source)>> }
impl CacheT {
    #[verifier::external_body]
    pub fn insert_inner(&mut self, record: RecT, source: Source) -> (r: RawCacheEntry)
        ensures final(self).emplaced@ == old(self).emplaced@.push((record.d, source)), r.record == record, r.source == source,
    { unimplemented!() }

//@region foyer-memory/src/raw.rs :: impl~^impl<E, S, I> RawCache<E, S, I> where/fn insert_with_properties_inner name=insert_with_properties_inner whole=1 rules=let-chain,drop-metrics sub=@\(self\.inner\.weighter\)\(@self.inner.weighter.call(@ sub=@\(self\.inner\.filter\)\(@self.inner.filter.call(@ sub=@Arc::new\(Record::new\(Data \{@verif_record(Data {@ sub=@\}\)\);@});@
//@head
    fn insert_with_properties_inner(&mut self, key: u64, value: u64, mut properties: PropsT, source: Source) -> (r: RawCacheEntry)
        ensures
            final(self).emplaced@ == old(self).emplaced@.push((Data { key, value, hash: spec_hash(key), weight: spec_weight(key, value),
                properties: PropsT { loc: properties.loc, phantom: if !spec_filter(key, value) || properties.loc == Some(Location::OnDisk) { true } else { properties.phantom } } }, source)), // @label every_insert_reaches_emplace_exactly_once_and_is_a_phantom_iff_filtered_out_or_advised_on_disk
            r.source == source && r.record.d.key == key && r.record.d.value == value, // @label the_returned_handle_is_that_of_the_inserted_record
//@end
}

} // verus!

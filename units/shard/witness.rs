    // Executable restatement of the SHARD contracts at the public API of the real crate, used only to look for a
    // concrete failing input after a proof obligation failed (replay). Prints `WITNESS <label> :: <input>`.
    use std::sync::Mutex as StdMutex;
    use foyer_common::hasher::ModHasher;
    use crate::{
        eviction::{fifo::{Fifo, FifoConfig}, lru::{Lru, LruConfig}, test_utils::TestProperties},
        indexer::hash_table::HashTableIndexer,
    };

    #[derive(Default)]
    struct Rec { left: StdMutex<Vec<(Event, u64, u64)>> }
    impl EventListener for Rec {
        type Key = u64;
        type Value = u64;
        fn on_leave(&self, reason: Event, key: &u64, value: &u64) { self.left.lock().unwrap().push((reason, *key, *value)); }
    }

    struct Lcg(u64);
    impl Lcg { fn next(&mut self, n: u64) -> u64 { self.0 = self.0.wrapping_mul(6364136223846793005).wrapping_add(1442695040888963407); (self.0 >> 33) % n } }

    fn run<E>(name: &str, cfg: E::Config, seed: u64, found: &mut Vec<String>)
    where E: Eviction<Key = u64, Value = u64, Properties = TestProperties>,
    {
        let mut rng = Lcg(seed);
        for round in 0..400u64 {
            let cap = 1 + rng.next(12) as usize;
            let rec = Arc::new(Rec::default());
            let cache: RawCache<E, ModHasher, HashTableIndexer<E>> = RawCache::new(RawCacheConfig {
                capacity: cap, shards: 1, eviction_config: cfg.clone(), hash_builder: Default::default(),
                weighter: Arc::new(|_, v: &u64| (*v % 16) as usize), filter: Arc::new(|_, _| true),
                event_listener: Some(rec.clone()), metrics: Arc::new(Metrics::noop()),
            });
            // model: key -> value(version*16 + weight)
            let mut live: std::collections::HashMap<u64, u64> = Default::default();
            let mut trace = vec![];
            let mut version = 0u64;
            for _step in 0..12 {
                let op = rng.next(10);
                let k = rng.next(4);
                let before_usage = cache.usage();
                let before_events = rec.left.lock().unwrap().len();
                match op {
                    0..=5 => {
                        version += 1;
                        let w = rng.next(8);
                        let v = version * 16 + w;
                        trace.push(format!("insert({k},w={w})"));
                        drop(cache.insert(k, v));
                        let evs: Vec<_> = rec.left.lock().unwrap()[before_events..].to_vec();
                        let evicted = evs.iter().filter(|e| e.0 == Event::Evict).count();
                        for (e, ek, ev) in evs.iter() {
                            match e {
                                Event::Evict => { if live.get(ek) != Some(ev) { found.push(format!("WITNESS victims_are_evict_events_of_unindexed_records :: {name} cap={cap} {trace:?} evicted ({ek},{ev}) not live")); } live.remove(ek); }
                                Event::Replace => { if *ek != k || live.get(ek) != Some(ev) { found.push(format!("WITNESS replaced_record_is_the_old_copy_of_that_key :: {name} cap={cap} {trace:?}")); } live.remove(ek); }
                                _ => found.push(format!("WITNESS garbage_events_are_evict_or_replace :: {name} cap={cap} {trace:?} event {e:?}")),
                            }
                        }
                        live.insert(k, v);
                        if evicted > 0 && before_usage + (w as usize) <= cap {
                            found.push(format!("WITNESS no_eviction_when_it_already_fits :: {name} cap={cap} {trace:?} usage_before={before_usage}"));
                        }
                        if cache.usage() > cap && (w as usize) <= cap {
                            found.push(format!("WITNESS within_capacity_after_insert :: {name} cap={cap} {trace:?} usage={}", cache.usage()));
                        }
                    }
                    6..=7 => {
                        trace.push(format!("remove({k})"));
                        let r = cache.remove(&k);
                        if r.is_some() != live.contains_key(&k) { found.push(format!("WITNESS removed_record_returned_and_accounted :: {name} cap={cap} {trace:?}")); }
                        live.remove(&k);
                    }
                    8 => {
                        trace.push("clear".to_string());
                        cache.clear();
                        live.clear();
                        if cache.usage() != 0 { found.push(format!("WITNESS usage_zero :: {name} cap={cap} {trace:?} usage after clear = {}", cache.usage())); }
                        if cache.entries() != 0 { found.push(format!("WITNESS entries_zero :: {name} cap={cap} {trace:?}")); }
                    }
                    _ => {
                        trace.push(format!("get({k})"));
                        let g = cache.get(&k).map(|e| *e.value());
                        if g != live.get(&k).copied() { found.push(format!("WITNESS lookup_returns_exactly_the_indexed_record_of_that_key :: {name} cap={cap} {trace:?} got {g:?}")); }
                    }
                }
                let want: usize = live.values().map(|v| (*v % 16) as usize).sum();
                if cache.usage() != want { found.push(format!("WITNESS accounting_invariant_preserved :: {name} cap={cap} {trace:?} usage={} expected={want}", cache.usage())); }
                if cache.entries() != live.len() { found.push(format!("WITNESS accounting_invariant_preserved :: {name} cap={cap} {trace:?} entries={} expected={}", cache.entries(), live.len())); }
                if found.len() > 0 { return; }
            }
            let _ = round;
        }
    }

    /// C18: under LRU a looked-up entry is no victim while the lookup's handle is held, however many other handles exist
    fn pinned_by_lookup(found: &mut Vec<String>) {
        for other_handles in 0..3usize {
            let cache: RawCache<Lru<u64, u64, TestProperties>, ModHasher, HashTableIndexer<Lru<u64, u64, TestProperties>>> = RawCache::new(RawCacheConfig {
                capacity: 4, shards: 1, eviction_config: LruConfig::default(), hash_builder: Default::default(),
                weighter: Arc::new(|_, _| 1), filter: Arc::new(|_, _| true), event_listener: None, metrics: Arc::new(Metrics::noop()),
            });
            let inserted = cache.insert(0, 0);
            let mut others = vec![];
            if other_handles == 0 { drop(inserted); } else { for _ in 1..other_handles { others.push(inserted.clone()); } others.push(inserted); }
            let looked_up = cache.get(&0).unwrap();
            for i in 1..=8u64 { cache.insert(i, i); }
            if looked_up.is_outdated() || cache.get(&0).is_none() {
                found.push(format!("WITNESS every_lookup_hit_acquires_the_record_once :: lru cap=4: insert(0) keeping {other_handles} handle(s); get(0) held; insert(1..=8) => the looked-up entry was evicted (is_outdated={})", looked_up.is_outdated()));
                return;
            }
        }
    }

    /// C13: a disk-only (phantom) entry with several handles leaves exactly once, when the LAST handle drops
    fn phantom_leaves_once(found: &mut Vec<String>) {
        use foyer_common::properties::Properties as _;
        let rec = Arc::new(Rec::default());
        let cache: RawCache<Fifo<u64, u64, TestProperties>, ModHasher, HashTableIndexer<Fifo<u64, u64, TestProperties>>> = RawCache::new(RawCacheConfig {
            capacity: 4, shards: 1, eviction_config: FifoConfig::default(), hash_builder: Default::default(),
            weighter: Arc::new(|_, _| 1), filter: Arc::new(|_, _| true), event_listener: Some(rec.clone()), metrics: Arc::new(Metrics::noop()),
        });
        let h1 = cache.insert_with_properties(7, 7, TestProperties::default().with_phantom(true));
        let h2 = h1.clone();
        drop(h1);
        // (the phantom insert itself reports `Remove` for the record it did not retain; the hand-off event is `Evict`)
        let early: Vec<_> = rec.left.lock().unwrap().iter().filter(|e| e.0 == Event::Evict).cloned().collect();
        if !early.is_empty() {
            found.push(format!("WITNESS drop_of_a_non_last_handle_has_no_effects :: fifo: h1 = insert_with_properties(7, phantom); h2 = h1.clone(); drop(h1) => listener already saw {early:?} while h2 is alive"));
            return;
        }
        drop(h2);
        let all: Vec<_> = rec.left.lock().unwrap().iter().filter(|e| e.0 == Event::Evict).cloned().collect();
        if all != vec![(Event::Evict, 7, 7)] {
            found.push(format!("WITNESS phantom_last_drop_notifies_evict_once :: fifo: phantom insert(7) with two handles, both dropped => listener saw {all:?}"));
        }
    }

    /// C05: resize() re-establishes the bound for the NEW capacity (growing and shrinking), shares sum to the capacity
    fn resize_reestablishes_bound(found: &mut Vec<String>) {
        for (shards, from, to) in [(1usize, 1usize, 2usize), (1, 4, 2), (3, 3, 7), (2, 8, 3)] {
            let cache: RawCache<Fifo<u64, u64, TestProperties>, ModHasher, HashTableIndexer<Fifo<u64, u64, TestProperties>>> = RawCache::new(RawCacheConfig {
                capacity: from, shards, eviction_config: FifoConfig::default(), hash_builder: Default::default(),
                weighter: Arc::new(|_, _| 1), filter: Arc::new(|_, _| true), event_listener: None, metrics: Arc::new(Metrics::noop()),
            });
            for k in 0..(from as u64 * 4) { cache.insert(k, k); }
            let before = cache.usage();
            cache.resize(to).unwrap();
            if cache.usage() > to || (to >= from && cache.usage() != before) {
                found.push(format!("WITNESS bound_reestablished_for_new_capacity :: fifo shards={shards}: fill at capacity {from} (usage {before}); resize({to}) => usage {}", cache.usage()));
                return;
            }
            // ModHasher: key k lives in shard k % shards; fill every shard well beyond its share
            for k in 100..(100 + to as u64 * 8) { cache.insert(k, k); }
            if cache.usage() != to {
                found.push(format!("WITNESS capacity_updated :: fifo shards={shards}: capacity {from}; resize({to}); {} more inserts spread over all shards => usage {} (expected the new capacity {to})", to * 8, cache.usage()));
                return;
            }
        }
    }

    /// C13: flush() / evict_all() on a cache WITHOUT a pipe still tell the listener about every record they evict
    fn flush_and_evict_all_notify(found: &mut Vec<String>) {
        use futures_util::FutureExt;
        for via_flush in [true, false] {
            let rec = Arc::new(Rec::default());
            let cache: RawCache<Fifo<u64, u64, TestProperties>, ModHasher, HashTableIndexer<Fifo<u64, u64, TestProperties>>> = RawCache::new(RawCacheConfig {
                capacity: 64, shards: 2, eviction_config: FifoConfig::default(), hash_builder: Default::default(),
                weighter: Arc::new(|_, _| 1), filter: Arc::new(|_, _| true), event_listener: Some(rec.clone()), metrics: Arc::new(Metrics::noop()),
            });
            for k in 0..6u64 { cache.insert(k, k); }
            if via_flush { if cache.flush().now_or_never().is_none() { continue; } } else { cache.evict_all(); }
            let mut evicted: Vec<u64> = rec.left.lock().unwrap().iter().filter(|(e, _, _)| *e == Event::Evict).map(|(_, k, _)| *k).collect();
            evicted.sort();
            if evicted != (0..6u64).collect::<Vec<_>>() || cache.usage() != 0 {
                let (label, how) = if via_flush { ("each_flushed_record_notified_once_with_its_event", "flush()") } else { ("each_garbage_notified_once_with_its_event", "evict_all()") };
                found.push(format!("WITNESS {label} :: fifo capacity=64 shards=2, listener, no pipe: insert(0..6); {how} => usage {}, Evict notifications for {:?}", cache.usage(), evicted));
                return;
            }
        }
    }

    /// C05: the shard capacities add up to the configured capacity, whatever the remainder: a flooded cache (unit weights,
    /// no handle held) uses exactly the configured capacity
    fn capacity_split_adds_up(found: &mut Vec<String>) {
        for capacity in 1usize..=12 {
            for shards in 1usize..=4 {
                // a shard whose share is 0 keeps its newest entry (the documented oversize exception): not this check's business
                if capacity < shards { continue; }
                let cache: RawCache<Fifo<u64, u64, TestProperties>, ModHasher, HashTableIndexer<Fifo<u64, u64, TestProperties>>> = RawCache::new(RawCacheConfig {
                    capacity, shards, eviction_config: FifoConfig::default(), hash_builder: Default::default(),
                    weighter: Arc::new(|_, _| 1), filter: Arc::new(|_, _| true), event_listener: None, metrics: Arc::new(Metrics::noop()),
                });
                for k in 0..(capacity as u64 * 8 + 8) { cache.insert(k, k); }
                if cache.usage() != capacity {
                    found.push(format!("WITNESS shares_sum_to_capacity :: fifo capacity={capacity} shards={shards}, unit weights: {} inserts spread over all shards, no handle held => usage {} (configured capacity {capacity})", capacity * 8 + 8, cache.usage()));
                    return;
                }
            }
        }
    }

    #[test]
    fn verif_witness_shard() {
        let seed: u64 = std::env::var("VERIF_SEED").ok().and_then(|s| s.parse().ok()).unwrap_or(0);
        let mut found = vec![];
        // the real code may panic (e.g. usize underflow in the accounting) before a check fires: that is a witness too
        let r = std::panic::catch_unwind(|| {
            let mut f = vec![];
            run::<Fifo<u64, u64, TestProperties>>("fifo", FifoConfig::default(), seed.wrapping_add(1), &mut f);
            if f.is_empty() { run::<Lru<u64, u64, TestProperties>>("lru", LruConfig::default(), seed.wrapping_add(2), &mut f); }
            if f.is_empty() { pinned_by_lookup(&mut f); }
            if f.is_empty() { phantom_leaves_once(&mut f); }
            if f.is_empty() { resize_reestablishes_bound(&mut f); }
            if f.is_empty() { flush_and_evict_all_notify(&mut f); }
            if f.is_empty() { capacity_split_adds_up(&mut f); }
            f
        });
        match r {
            Ok(f) => found = f,
            Err(e) => {
                let msg = e.downcast_ref::<String>().cloned().or_else(|| e.downcast_ref::<&str>().map(|s| s.to_string())).unwrap_or_default();
                found.push(format!("WITNESS accounting_invariant_preserved :: random insert/remove/clear/get sequence (seed {seed}) on a 1-shard cache makes the real code panic: {msg}"));
            }
        }
        for f in found.iter().take(3) { println!("{f}"); }
        println!("WITNESS-SEARCH-DONE found={}", found.len());
    }

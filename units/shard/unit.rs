// UNIT shard — RawCacheShard accounting / garbage / view contracts (C05, C13, C18, parts of C01, C11, C12)
#![allow(unused_imports, unused_variables, dead_code)]
use vstd::prelude::*;
use std::sync::Arc;
use vstd::std_specs::iter::IteratorSpec;
verus! {

global size_of usize == 8;

// =====================================================================================================
// PRELUDE (hand-written abstract environment; every external_body / uninterp here is an assumption)
// =====================================================================================================

pub trait Hash {}
pub trait Equivalent<K>  {
    /// the key this borrowed form is equivalent to (`Equivalent::equivalent` is an equivalence with exactly one key)
    spec fn as_key(&self) -> K;
}

//@item foyer-common/src/event.rs :: enum Event rules=derive-structural
//@item foyer-common/src/properties.rs :: enum Location rules=derive-structural

/// `foyer_common::code::Key` (Hash + Eq ...); every key is `Equivalent` to itself
/// (blanket `impl<Q: Eq, K: Borrow<Q>> Equivalent<K> for Q` of the `equivalent` crate)
pub trait Key: Hash + Equivalent<Self> + Sized {}
#[verifier::external_body]
pub proof fn axiom_key_self_equivalent<K: Key>(k: K)
    ensures k.as_key() == k,
{ }

pub trait Properties: Sized {
    spec fn spec_phantom(&self) -> Option<bool>;
    spec fn spec_location(&self) -> Option<Location>;
    fn phantom(&self) -> (r: Option<bool>) ensures r == self.spec_phantom();
    fn location(&self) -> (r: Option<Location>) ensures r == self.spec_location();
}

#[verifier::external_body]
#[verifier::accept_recursive_types(E)]
pub struct Record<E> { _p: core::marker::PhantomData<E> }

impl<E> Record<E> {
    /// identity of the allocation (Arc pointer)
    pub uninterp spec fn id(&self) -> int;
    pub uninterp spec fn spec_weight(&self) -> nat;
    pub uninterp spec fn spec_hash(&self) -> u64;
    #[verifier::external_body]
    pub fn weight(&self) -> (r: usize) ensures r == self.spec_weight() { unimplemented!() }
    #[verifier::external_body]
    pub fn hash(&self) -> (r: u64) ensures r == self.spec_hash() { unimplemented!() }
    #[verifier::external_body]
    pub fn inc_refs(&self, v: usize) -> usize { unimplemented!() }
    /// the handle count left after the (single) `dec_refs(1)` of the drop under contract (`entry_last_drop`)
    pub uninterp spec fn refs_left_after_this_drop(&self) -> usize;
    #[verifier::external_body]
    pub fn dec_refs(&self, v: usize) -> (r: usize) ensures v == 1 ==> r == self.refs_left_after_this_drop() { unimplemented!() }
    #[verifier::external_body]
    pub fn refs(&self) -> usize { unimplemented!() }
}
impl<E: Eviction> Record<E> {
    pub uninterp spec fn spec_key(&self) -> E::Key;
    pub uninterp spec fn spec_props(&self) -> E::Properties;
    #[verifier::external_body]
    pub fn key(&self) -> (r: &E::Key) ensures *r == self.spec_key() { unimplemented!() }
    #[verifier::external_body]
    pub fn properties(&self) -> (r: &E::Properties) ensures *r == self.spec_props() { unimplemented!() }
    pub uninterp spec fn spec_value(&self) -> E::Value;
    #[verifier::external_body]
    pub fn value(&self) -> (r: &E::Value) ensures *r == self.spec_value() { unimplemented!() }
}

// ---- effect logs: the collaborators a dispatch loop talks to are modelled as state with a ghost log, so
// "exactly once, in order, with the right reason" is a postcondition. In the real code they are
// `Option<Arc<dyn EventListener>>` / `Arc<dyn Pipe>` behind `&self`; a dispatch region owns them sequentially.
pub struct ListenerT<E: Eviction> { pub left: Ghost<Seq<(Event, E::Key, E::Value)>> }
impl<E: Eviction> ListenerT<E> {
    #[verifier::external_body]
    pub fn on_leave(&mut self, reason: Event, key: &E::Key, value: &E::Value)
        ensures final(self).left@ == old(self).left@.push((reason, *key, *value)),
    { }
}
pub struct ListenerSlot<E: Eviction> { pub l: Option<ListenerT<E>> }
impl<E: Eviction> ListenerSlot<E> {
    pub open spec fn log(&self) -> Seq<(Event, E::Key, E::Value)> { if self.l.is_some() { self.l.unwrap().left@ } else { Seq::empty() } }
    #[verifier::external_body]
    pub fn is_some(&self) -> (b: bool) ensures b == self.l.is_some() { unimplemented!() }
    #[verifier::external_body]
    pub fn as_ref(&mut self) -> (r: Option<&mut ListenerT<E>>)
        ensures
            old(self).l.is_some() == r.is_some(),
            r.is_some() ==> *r.unwrap() == old(self).l.unwrap() && final(self).l == Some(*final(r.unwrap())),
            r.is_none() ==> final(self).l == old(self).l,
    { unimplemented!() }
}
#[verifier::external_body]
#[verifier::accept_recursive_types(E)]
pub struct Piece<E> { _p: core::marker::PhantomData<E> }
impl<E: Eviction> Piece<E> {
    pub uninterp spec fn rec(&self) -> Arc<Record<E>>;
    #[verifier::external_body]
    pub fn new(record: Arc<Record<E>>) -> (r: Self) ensures r.rec() == record { unimplemented!() }
}
pub struct PipeT<E: Eviction> { pub enabled: bool, pub sent: Ghost<Seq<Arc<Record<E>>>>, pub flushed: Ghost<Seq<Arc<Record<E>>>> }
impl<E: Eviction> PipeT<E> {
    #[verifier::external_body]
    pub fn is_enabled(&self) -> (b: bool) ensures b == self.enabled { unimplemented!() }
    #[verifier::external_body]
    pub fn send(&mut self, piece: Piece<E>)
        ensures final(self).sent@ == old(self).sent@.push(piece.rec()), final(self).enabled == old(self).enabled, final(self).flushed@ == old(self).flushed@,
    { }
    #[verifier::external_body]
    pub fn flush(&mut self, pieces: Vec<Piece<E>>)
        ensures final(self).flushed@ == old(self).flushed@ + pieces@.map_values(|p: Piece<E>| p.rec()), final(self).enabled == old(self).enabled, final(self).sent@ == old(self).sent@,
    { }
}
/// stands for `garbages.into_iter().map(|(_, record)| Piece::new(record)).collect_vec()` (iterator adapters + closure)
#[verifier::external_body]
pub fn pieces_of<E: Eviction>(garbages: Vec<(Event, Arc<Record<E>>)>) -> (r: Vec<Piece<E>>)
    ensures r@.map_values(|p: Piece<E>| p.rec()) == garbages@.map_values(|x: (Event, Arc<Record<E>>)| x.1),
{ unimplemented!() }
pub struct InnerT<E: Eviction> { pub event_listener: ListenerSlot<E> }
pub struct CacheT<E: Eviction> { pub pipe: PipeT<E>, pub inner: InnerT<E> }

/// notifications a garbage list must produce, in order
pub open spec fn notes_of<E: Eviction>(g: Seq<(Event, Arc<Record<E>>)>) -> Seq<(Event, E::Key, E::Value)> {
    g.map_values(|x: (Event, Arc<Record<E>>)| (x.0, x.1.spec_key(), x.1.spec_value()))
}
/// records a garbage list must hand to the disk tier, in order: exactly the capacity evictions
pub open spec fn evicted_of<E: Eviction>(g: Seq<(Event, Arc<Record<E>>)>) -> Seq<Arc<Record<E>>>
    decreases g.len()
{
    if g.len() == 0 { Seq::empty() } else {
        let p = evicted_of(g.drop_last());
        if g.last().0 == Event::Evict { p.push(g.last().1) } else { p }
    }
}
pub proof fn lemma_evicted_of_push<E: Eviction>(g: Seq<(Event, Arc<Record<E>>)>, x: (Event, Arc<Record<E>>))
    ensures evicted_of(g.push(x)) == (if x.0 == Event::Evict { evicted_of(g).push(x.1) } else { evicted_of(g) }),
{
    assert(g.push(x).drop_last() =~= g);
}
pub proof fn lemma_prefix_step<T>(s: Seq<T>, i: int)
    requires 0 <= i < s.len(),
    ensures s.subrange(0, i + 1) == s.subrange(0, i).push(s[i]),
{
    assert(s.subrange(0, i + 1) =~= s.subrange(0, i).push(s[i]));
}


/// contract of the eviction container exactly as documented on `trait Eviction` (eviction/mod.rs):
/// push: caller guarantees the record is NOT held; pop: returns a held record and releases it;
/// remove: caller guarantees the record is held; clear: releases all.
/// `holds` stands for the `IN_EVICTION` flag (rule flag-as-membership; flag <=> membership is the
/// documented obligation of every implementation, checked on the real code in unit `evict`).
pub trait Eviction: Sized {
    type Key: Key;
    type Value;
    type Properties: Properties;
    spec fn contents(&self) -> Set<int>;
    /// whether `pop` can still produce a victim (false e.g. when everything left is pinned under LRU)
    spec fn poppable(&self) -> bool;
    /// ids `pop` may return (held and not pinned); `poppable() <==> victims() != {}`
    spec fn victims(&self) -> Set<int>;
    fn push(&mut self, record: Arc<Record<Self>>)
        requires !old(self).contents().contains(record.id()), // @label eviction_push_requires_not_held
        ensures final(self).contents() == old(self).contents().insert(record.id()),
            final(self).victims().subset_of(old(self).victims().insert(record.id()));
    fn pop(&mut self) -> (r: Option<Arc<Record<Self>>>)
        ensures
            match r {
                Some(rec) => old(self).poppable() && old(self).contents().contains(rec.id()) && final(self).contents() == old(self).contents().remove(rec.id())
                    && final(self).victims().subset_of(old(self).victims()),
                None => !old(self).poppable() && old(self).victims().is_empty() && *final(self) == *old(self),
            };
    fn remove(&mut self, record: &Arc<Record<Self>>)
        requires old(self).contents().contains(record.id()), // @label eviction_remove_requires_held
        ensures final(self).contents() == old(self).contents().remove(record.id()),
            final(self).victims().subset_of(old(self).victims());
    fn clear(&mut self)
        ensures final(self).contents().is_empty();
    fn holds(&self, record: &Arc<Record<Self>>) -> (b: bool)
        ensures b == self.contents().contains(record.id());
}

#[verifier::external_body]
pub struct Counter { _p: usize }
impl Counter {
    #[verifier::external_body] pub fn increase(&self, v: u64) { }
    #[verifier::external_body] pub fn decrease(&self, v: u64) { }
}
pub struct Metrics {
    pub memory_evict: Counter, pub memory_entries: Counter, pub memory_insert: Counter, pub memory_replace: Counter,
    pub memory_usage: Counter, pub memory_remove: Counter, pub memory_hit: Counter, pub memory_miss: Counter,
}

/// `Arc::as_ptr(a) == Arc::as_ptr(b)`
#[verifier::external_body]
pub fn same_record<E: Eviction>(a: &Arc<Record<E>>, b: &Arc<Record<E>>) -> (r: bool) ensures r == (a.id() == b.id()) { unimplemented!() }

pub type KeyOf<E> = <E as Eviction>::Key;

#[verifier::external_body]
#[verifier::accept_recursive_types(T)]
pub struct Drained<T> { v: Vec<T> }
impl<T> Drained<T> {
    pub uninterp spec fn items(&self) -> Seq<T>;
    #[verifier::external_body]
    pub fn collect_vec(self) -> (r: Vec<T>) ensures r@ == self.items(), r@.len() <= usize::MAX { unimplemented!() }
}

/// the memory index as a map key -> record (what `HashTableIndexer` + `Sentry` implement; full-key comparison
/// of the real hash table is checked on the real code in unit `hashtable`)
pub trait Indexer: Sized {
    type Eviction: Eviction;
    spec fn view(&self) -> Map<KeyOf<Self::Eviction>, Arc<Record<Self::Eviction>>>;
    fn insert(&mut self, record: Arc<Record<Self::Eviction>>) -> (r: Option<Arc<Record<Self::Eviction>>>)
        ensures
            final(self).view() == old(self).view().insert(record.spec_key(), record),
            match r { Some(o) => old(self).view().contains_key(record.spec_key()) && old(self).view()[record.spec_key()] == o,
                      None => !old(self).view().contains_key(record.spec_key()) };
    fn get<Q>(&self, hash: u64, key: &Q) -> (r: Option<&Arc<Record<Self::Eviction>>>)
        where Q: Hash + Equivalent<KeyOf<Self::Eviction>> + ?Sized
        ensures
            match r { Some(o) => self.view().contains_key(key.as_key()) && self.view()[key.as_key()] == *o,
                      None => !self.view().contains_key(key.as_key()) };
    fn remove<Q>(&mut self, hash: u64, key: &Q) -> (r: Option<Arc<Record<Self::Eviction>>>)
        where Q: Hash + Equivalent<KeyOf<Self::Eviction>> + ?Sized
        ensures
            final(self).view() == old(self).view().remove(key.as_key()),
            match r { Some(o) => old(self).view().contains_key(key.as_key()) && old(self).view()[key.as_key()] == o,
                      None => !old(self).view().contains_key(key.as_key()) };
    /// drain yields every indexed record exactly once (as a sequence without duplicates covering ran(view))
    fn drain(&mut self) -> (r: Drained<Arc<Record<Self::Eviction>>>)
        ensures
            final(self).view() == Map::<KeyOf<Self::Eviction>, Arc<Record<Self::Eviction>>>::empty(),
            r.items().len() == old(self).view().dom().len(),
            r.items().no_duplicates(),
            forall|i: int| 0 <= i < r.items().len() ==>
                old(self).view().contains_key((#[trigger] r.items()[i]).spec_key()) && old(self).view()[r.items()[i].spec_key()] == r.items()[i];
    fn holds(&self, record: &Arc<Record<Self::Eviction>>) -> (b: bool)
        ensures b == (self.view().contains_key(record.spec_key()) && self.view()[record.spec_key()].id() == record.id());
}


#[verifier::external_body]
#[verifier::accept_recursive_types(T)]
pub struct Notifier<T> { _p: core::marker::PhantomData<T> }
#[verifier::external_body]
#[verifier::accept_recursive_types(E)]
#[verifier::accept_recursive_types(S)]
#[verifier::accept_recursive_types(I)]
pub struct RawCacheEntry<E, S, I> { _p: core::marker::PhantomData<(E, S, I)> }
#[verifier::external_body]
#[verifier::accept_recursive_types(E)]
#[verifier::accept_recursive_types(S)]
#[verifier::accept_recursive_types(I)]
pub struct InflightManager<E, S, I> { _p: core::marker::PhantomData<(E, S, I)> }
#[verifier::external_body]
#[verifier::accept_recursive_types(T)]
pub struct Mutex<T> { _p: core::marker::PhantomData<T> }
#[verifier::external_body]
#[verifier::accept_recursive_types(T)]
pub struct MutexGuard<'a, T> { _p: core::marker::PhantomData<&'a T> }
impl<T> Mutex<T> {
    #[verifier::external_body]
    pub fn lock(&self) -> MutexGuard<'_, T> { unimplemented!() }
}
pub type Waiters<E, S, I> = Vec<Notifier<Option<RawCacheEntry<E, S, I>>>>;
/// what the in-flight table hands back for (hash, key, id) at the single call inside `emplace`
pub uninterp spec fn spec_inflight_take<E: Eviction, S, I>(hash: u64, key: E::Key, id: Option<usize>) -> Option<Waiters<E, S, I>>;
impl<'a, E: Eviction, S, I> MutexGuard<'a, InflightManager<E, S, I>> {
    /// `InflightManager::take` (contract checked on the real code in unit `inflight`): with `id == None` the entry
    /// is taken unconditionally. An insert must use `None` — a leader id would leave a foreign fetch registered.
    #[verifier::external_body]
    pub fn take(&self, hash: u64, key: &E::Key, id: Option<usize>) -> (r: Option<Waiters<E, S, I>>)
        requires id.is_none(), // @label insert_takes_inflight_entry_unconditionally
        ensures r == spec_inflight_take::<E, S, I>(hash, *key, id),
            r.is_some() ==> r.unwrap()@.len() < usize::MAX, // a Vec of non-zero-sized notifiers cannot have usize::MAX elements
    { unimplemented!() }
}

// ---- Σ weight over a finite map ------------------------------------------------------------------
pub open spec fn wsum<E: Eviction>(m: Map<E::Key, Arc<Record<E>>>) -> nat
    decreases m.dom().len()
    when m.dom().finite()
{
    if m.dom().len() == 0 { 0 } else {
        let k = m.dom().choose();
        m[k].spec_weight() + wsum(m.remove(k))
    }
}

pub proof fn lemma_wsum_remove<E: Eviction>(m: Map<E::Key, Arc<Record<E>>>, k: E::Key)
    requires m.contains_key(k), m.dom().finite(),
    ensures wsum(m) == m[k].spec_weight() + wsum(m.remove(k)),
    decreases m.dom().len(),
{
    let c = m.dom().choose();
    assert(m.dom().len() != 0) by { if m.dom().len() == 0 { assert(m.dom() =~= Set::empty()); } }
    if c == k {
    } else {
        let m1 = m.remove(c);
        assert(m1.contains_key(k));
        assert(m1.dom().len() < m.dom().len());
        lemma_wsum_remove(m1, k);
        let m2 = m.remove(k);
        assert(m2.contains_key(c));
        assert(m2.dom().len() < m.dom().len());
        lemma_wsum_remove(m2, c);
        assert(m1.remove(k) =~= m2.remove(c));
    }
}

pub proof fn lemma_wsum_insert<E: Eviction>(m: Map<E::Key, Arc<Record<E>>>, k: E::Key, v: Arc<Record<E>>)
    requires m.dom().finite(),
    ensures wsum(m.insert(k, v)) == v.spec_weight() + wsum(m.remove(k)),
{
    let mi = m.insert(k, v);
    lemma_wsum_remove(mi, k);
    assert(mi.remove(k) =~= m.remove(k));
}

pub proof fn lemma_wsum_empty<E: Eviction>()
    ensures wsum(Map::<E::Key, Arc<Record<E>>>::empty()) == 0,
{
    assert(Map::<E::Key, Arc<Record<E>>>::empty().dom() =~= Set::empty());
}

// `Arc::clone` yields a handle to the same allocation (vstd's own spec of Arc::clone); needed because
// `Option::<&T>::cloned` is specified through the `cloned` predicate only
#[verifier::external_body]
pub proof fn axiom_arc_cloned<T>(a: Arc<T>, b: Arc<T>)
    requires cloned(a, b),
    ensures a == b,
{ }

// modelling assumption: `id` is the identity of the allocation, so equal ids mean the same record
#[verifier::external_body]
pub proof fn axiom_record_identity<E: Eviction>(a: Arc<Record<E>>, b: Arc<Record<E>>)
    ensures a.id() == b.id() ==> a == b,
{ }

// the real struct wraps the indexer in
// `Sentry<I>` (flag maintenance only; see rule flag-as-membership)
#[verifier::reject_recursive_types(E)]
#[verifier::reject_recursive_types(S)]
#[verifier::reject_recursive_types(I)]
pub struct RawCacheShard<E, S, I>
where
    E: Eviction,
    I: Indexer<Eviction = E>,
{
    pub eviction: E,
    pub indexer: I,

    pub usage: usize,
    pub entries: usize,
    pub capacity: usize,

    pub inflights: Arc<Mutex<InflightManager<E, S, I>>>,

    pub metrics: Arc<Metrics>,
    /// `Option<Arc<dyn EventListener>>` in the real struct (not used by the shard methods on the pinned tree)
    pub _event_listener: Option<ListenerMarkT>,
    /// the same field under the name it would have if a change started to use it
    pub event_listener: Option<ListenerMarkT>,
}

pub struct ListenerMarkT { }
/// `drop(x)`: no effect on anything else (destructor side effects are not modelled)
pub assume_specification [usize::div_ceil] (a: usize, b: usize) -> (r: usize)
    requires b != 0,
    ensures r as int == (a as int + b as int - 1) / (b as int);
pub assume_specification<T>[ core::mem::drop::<T> ](_0: T);
pub open spec fn garbage_is<E: Eviction>(g: (Event, Arc<Record<E>>), ev: Event, r: Arc<Record<E>>) -> bool {
    g.0 == ev && g.1 == r
}

impl<E, S, I> RawCacheShard<E, S, I>
where
    E: Eviction,
    I: Indexer<Eviction = E>,
{
    /// representation invariant of a shard (C05): exact accounting and eviction ⊆ index
    pub open spec fn wf(&self) -> bool {
        &&& self.indexer.view().dom().finite()
        &&& self.usage == wsum(self.indexer.view())
        &&& self.entries == self.indexer.view().dom().len()
        &&& forall|k: E::Key| #[trigger] self.indexer.view().contains_key(k) ==> self.indexer.view()[k].spec_key() == k
        &&& forall|id: int| #[trigger] self.eviction.contents().contains(id) ==>
                exists|k: E::Key| self.indexer.view().contains_key(k) && (#[trigger] self.indexer.view()[k]).id() == id
    }

    pub open spec fn view(&self) -> Map<E::Key, Arc<Record<E>>> { self.indexer.view() }

    proof fn lemma_remove_keeps_eviction_subset(view0: Map<E::Key, Arc<Record<E>>>, view1: Map<E::Key, Arc<Record<E>>>, ev0: Set<int>, ev1: Set<int>, key: E::Key, gone: Arc<Record<E>>)
        requires
            view0.contains_key(key), view0[key] == gone, view1 == view0.remove(key),
            forall|id: int| ev1.contains(id) ==> ev0.contains(id) && id != gone.id(),
            forall|id: int| #[trigger] ev0.contains(id) ==> exists|k: E::Key| view0.contains_key(k) && (#[trigger] view0[k]).id() == id,
        ensures
            forall|id: int| #[trigger] ev1.contains(id) ==> exists|k: E::Key| view1.contains_key(k) && (#[trigger] view1[k]).id() == id,
    {
        assert forall|id: int| #[trigger] ev1.contains(id) implies exists|k: E::Key| view1.contains_key(k) && (#[trigger] view1[k]).id() == id by {
            assert(ev0.contains(id) && id != gone.id());
            let k = choose|k: E::Key| view0.contains_key(k) && (#[trigger] view0[k]).id() == id;
            assert(k != key);
            assert(view1.contains_key(k) && view1[k].id() == id);
        }
    }

//@fn foyer-memory/src/raw.rs :: impl~RawCacheShard<E, S, I>/fn evict rules=assert-eq,flag-as-membership sub=@Arc::as_ptr\(&evicted\) == Arc::as_ptr\(&e\)@same_record(&evicted, &e)@
//@spec
        requires old(self).wf(), // @label requires_wf
        ensures
            final(self).wf(), // @label accounting_invariant_preserved
            final(self).capacity == old(self).capacity, // @label capacity_unchanged
            final(self).usage <= target || (!final(self).eviction.poppable() && final(self).eviction.victims().is_empty()), // @label evicts_until_fits_or_nothing_evictable
            final(self).usage <= old(self).usage, // @label usage_never_grows
            old(self).usage <= target ==> final(self).view() == old(self).view() && final(garbages)@ == old(garbages)@
                && final(self).eviction.contents() == old(self).eviction.contents(), // @label no_eviction_when_it_already_fits
            final(garbages)@.len() >= old(garbages)@.len(), // @label garbage_only_grows
            final(garbages)@.subrange(0, old(garbages)@.len() as int) == old(garbages)@, // @label garbage_prefix_kept
            // minimality (C05): the last victim was taken while the shard was still over the target
            final(garbages)@.len() > old(garbages)@.len() ==>
                final(self).usage + final(garbages)@.last().1.spec_weight() > target, // @label stops_as_soon_as_it_fits
            // exactly-once (C13): every new garbage is an Evict of a record that was indexed before and is not any more;
            // records still indexed are untouched
            forall|i: int| old(garbages)@.len() <= i < final(garbages)@.len() ==> (#[trigger] final(garbages)@[i]).0 == Event::Evict
                && old(self).view().contains_key(final(garbages)@[i].1.spec_key())
                && old(self).view()[final(garbages)@[i].1.spec_key()] == final(garbages)@[i].1
                && !final(self).view().contains_key(final(garbages)@[i].1.spec_key()), // @label victims_are_evict_events_of_unindexed_records
            forall|k: E::Key| #[trigger] final(self).view().contains_key(k) ==> old(self).view().contains_key(k) && final(self).view()[k] == old(self).view()[k], // @label survivors_unchanged
            forall|k: E::Key| #[trigger] old(self).view().contains_key(k) && !final(self).view().contains_key(k) ==>
                exists|i: int| old(garbages)@.len() <= i < final(garbages)@.len() && (#[trigger] final(garbages)@[i]).1 == old(self).view()[k], // @label every_evicted_record_is_in_garbage
            final(garbages)@.len() - old(garbages)@.len() == old(self).view().dom().len() - final(self).view().dom().len(), // @label one_garbage_per_evicted_record
            final(self).eviction.contents().subset_of(old(self).eviction.contents()), // @label eviction_only_shrinks
//@loop 1
            invariant
                self.wf(),
                old(self).wf(),
                self.capacity == old(self).capacity,
                self.usage <= old(self).usage,
                old(self).usage <= target ==> self.view() == old(self).view() && garbages@ == old(garbages)@ && self.eviction.contents() == old(self).eviction.contents(),
                garbages@.len() >= old(garbages)@.len(),
                garbages@.subrange(0, old(garbages)@.len() as int) == old(garbages)@,
                garbages@.len() > old(garbages)@.len() ==> self.usage + garbages@.last().1.spec_weight() > target,
                forall|i: int| old(garbages)@.len() <= i < garbages@.len() ==> (#[trigger] garbages@[i]).0 == Event::Evict
                    && old(self).view().contains_key(garbages@[i].1.spec_key())
                    && old(self).view()[garbages@[i].1.spec_key()] == garbages@[i].1
                    && !self.view().contains_key(garbages@[i].1.spec_key()),
                forall|k: E::Key| #[trigger] self.view().contains_key(k) ==> old(self).view().contains_key(k) && self.view()[k] == old(self).view()[k],
                forall|k: E::Key| #[trigger] old(self).view().contains_key(k) && !self.view().contains_key(k) ==>
                    exists|i: int| old(garbages)@.len() <= i < garbages@.len() && (#[trigger] garbages@[i]).1 == old(self).view()[k],
                garbages@.len() - old(garbages)@.len() == old(self).view().dom().len() - self.view().dom().len(),
                self.eviction.contents().subset_of(old(self).eviction.contents()),
            ensures
                self.usage <= target || (!self.eviction.poppable() && self.eviction.victims().is_empty()),
            decreases self.view().dom().len(),
//@after /self\.metrics\.memory_evict\.increase\(1\);/
            proof {
                let ghost view = self.indexer.view();
                let k = choose|k: E::Key| view.contains_key(k) && (#[trigger] view[k]).id() == evicted.id();
                axiom_record_identity(view[k], evicted);
                lemma_wsum_remove(view, evicted.spec_key());
                axiom_key_self_equivalent::<E::Key>(evicted.spec_key());
            }
            let ghost view0 = self.indexer.view();
            let ghost ev0 = self.eviction.contents();
            let ghost g0 = garbages@;
//@after /garbages\.push\(\(Event::Evict, evicted\)\);/
            proof {
                let view1 = self.indexer.view();
                assert(view1 == view0.remove(evicted.spec_key()));
                assert(view1.dom() =~= view0.dom().remove(evicted.spec_key()));
                Self::lemma_remove_keeps_eviction_subset(view0, view1, ev0, self.eviction.contents(), evicted.spec_key(), evicted);
                assert(garbages@ == g0.push((Event::Evict, evicted)));
                assert forall|k: E::Key| #[trigger] old(self).view().contains_key(k) && !self.view().contains_key(k) implies
                    exists|i: int| old(garbages)@.len() <= i < garbages@.len() && (#[trigger] garbages@[i]).1 == old(self).view()[k] by {
                    if view0.contains_key(k) {
                        assert(k == evicted.spec_key());
                        assert(garbages@[g0.len() as int].1 == old(self).view()[k]);
                    } else {
                        let i = choose|i: int| old(garbages)@.len() <= i < g0.len() && (#[trigger] g0[i]).1 == old(self).view()[k];
                        assert(garbages@[i] == g0[i]);
                    }
                }
                assert forall|i: int| old(garbages)@.len() <= i < garbages@.len() implies (#[trigger] garbages@[i]).0 == Event::Evict
                    && old(self).view().contains_key(garbages@[i].1.spec_key())
                    && old(self).view()[garbages@[i].1.spec_key()] == garbages@[i].1
                    && !self.view().contains_key(garbages@[i].1.spec_key()) by {
                    if i < g0.len() { assert(garbages@[i] == g0[i]); }
                }
            }
//@end


//@fn foyer-memory/src/raw.rs :: impl~RawCacheShard<E, S, I>/fn remove rules=assert-eq,flag-as-membership ret=r
//@spec
        requires old(self).wf(), // @label requires_wf
        ensures
            final(self).wf(), // @label accounting_invariant_preserved
            final(self).capacity == old(self).capacity, // @label capacity_unchanged
            final(self).view() == old(self).view().remove(key.as_key()), // @label only_that_key_leaves_the_index
            match r {
                Some(rec) => old(self).view().contains_key(key.as_key()) && old(self).view()[key.as_key()] == rec
                    && final(self).usage == old(self).usage - rec.spec_weight()
                    && final(self).entries == old(self).entries - 1
                    && final(self).eviction.contents() == old(self).eviction.contents().remove(rec.id()),
                None => !old(self).view().contains_key(key.as_key()) && final(self).usage == old(self).usage
                    && final(self).entries == old(self).entries
                    && final(self).eviction.contents() == old(self).eviction.contents(),
            }, // @label removed_record_returned_and_accounted
//@before /let record = self\.indexer\.remove\(hash, key\)\?;/
        proof {
            if self.indexer.view().contains_key(key.as_key()) { lemma_wsum_remove(self.indexer.view(), key.as_key()); }
            else { assert(self.indexer.view().remove(key.as_key()) =~= self.indexer.view()); }
        }
        let ghost view0 = self.indexer.view();
        let ghost ev0 = self.eviction.contents();
//@before /Some\(record\)\s*$/
        proof {
            let view1 = self.indexer.view();
            assert(view1.dom() =~= view0.dom().remove(key.as_key()));
            Self::lemma_remove_keeps_eviction_subset(view0, view1, ev0, self.eviction.contents(), key.as_key(), record);
            assert(self.eviction.contents() =~= ev0.remove(record.id()));
        }
//@end

//@fn foyer-memory/src/raw.rs :: impl~RawCacheShard<E, S, I>/fn get_inner rules=assert-eq,flag-as-membership ret=r
//@spec
        requires self.wf(), // @label requires_wf
        ensures
            match r {
                Some(rec) => self.view().contains_key(key.as_key()) && self.view()[key.as_key()] == rec && rec.spec_key() == key.as_key(),
                None => !self.view().contains_key(key.as_key()),
            }, // @label lookup_returns_exactly_the_indexed_record_of_that_key
//@before /assert!\(self\.indexer\.holds\(&record\)\);/
        proof { axiom_arc_cloned(self.indexer.view()[key.as_key()], record); }
//@end

//@fn foyer-memory/src/raw.rs :: impl~RawCacheShard<E, S, I>/fn clear rules=assert-eq,flag-as-membership
//@spec
        requires old(self).wf(), // @label requires_wf
        ensures
            final(self).wf(), // @label accounting_invariant_preserved
            final(self).view() == Map::<E::Key, Arc<Record<E>>>::empty(), // @label index_empty
            final(self).eviction.contents().is_empty(), // @label eviction_empty
            final(self).entries == 0, // @label entries_zero
            final(self).usage == 0, // @label usage_zero
            final(self).capacity == old(self).capacity, // @label capacity_unchanged
            // C13: every record that was indexed is handed back exactly once (for the Clear notification)
            final(garbages)@.len() == old(garbages)@.len() + old(self).view().dom().len(), // @label one_garbage_per_cleared_record
            final(garbages)@.subrange(0, old(garbages)@.len() as int) == old(garbages)@, // @label garbage_prefix_kept
            forall|i: int| old(garbages)@.len() <= i < final(garbages)@.len() ==>
                old(self).view().contains_key((#[trigger] final(garbages)@[i]).spec_key()) && old(self).view()[final(garbages)@[i].spec_key()] == final(garbages)@[i], // @label cleared_records_were_indexed
            forall|i: int, j: int| old(garbages)@.len() <= i < j < final(garbages)@.len() ==> final(garbages)@[i] != final(garbages)@[j], // @label no_record_cleared_twice
//@loop 1 iter=it
            invariant
                count == it.index@, it.index@ <= records@.len(), it.snapshot@.remaining() == records@, records@.len() <= usize::MAX,
                records@.len() == old(self).view().dom().len(),
                records@.no_duplicates(),
                forall|i: int| 0 <= i < records@.len() ==>
                    old(self).view().contains_key((#[trigger] records@[i]).spec_key()) && old(self).view()[records@[i].spec_key()] == records@[i],
                self.indexer.view() == Map::<E::Key, Arc<Record<E>>>::empty(),
                self.eviction.contents().is_empty(),
                self.usage == old(self).usage,
                self.capacity == old(self).capacity,
                garbages@ == old(garbages)@ + records@.subrange(0, it.index@ as int),
//@end

//@fn foyer-memory/src/raw.rs :: impl~RawCacheShard<E, S, I>/fn emplace rules=assert-eq,flag-as-membership
//@spec
        requires
            old(self).wf(), // @label requires_wf
            // the record is new: neither indexed nor held by the eviction container (a fresh `Arc<Record>`)
            !old(self).eviction.contents().contains(record.id()),
            forall|k: E::Key| old(self).view().contains_key(k) ==> (#[trigger] old(self).view()[k]).id() != record.id(),
            // weights fit machine arithmetic (assumption 7: sums of weights do not overflow usize)
            old(self).usage + record.spec_weight() <= usize::MAX,
            old(self).entries < usize::MAX,
        ensures
            final(self).wf(), // @label accounting_invariant_preserved
            final(self).capacity == old(self).capacity, // @label capacity_unchanged
            // C11 / C06: the waiters of this key are exactly what the in-flight table handed over for (hash, key, None)
            final(notifiers)@ == (match spec_inflight_take::<E, S, I>(record.spec_hash(), record.spec_key(), None) { Some(v) => v@, None => Seq::empty() }), // @label notifiers_are_all_waiters_of_the_key
            final(garbages)@.len() >= old(garbages)@.len(), // @label garbage_only_grows
            final(garbages)@.subrange(0, old(garbages)@.len() as int) == old(garbages)@, // @label garbage_prefix_kept
            // survivors are untouched (frame)
            forall|k: E::Key| k != record.spec_key() && #[trigger] final(self).view().contains_key(k) ==> old(self).view().contains_key(k) && final(self).view()[k] == old(self).view()[k], // @label other_keys_unchanged_or_evicted
            // ---- phantom (disk-only / filtered) insert: C01(e), C12
            record.spec_props().spec_phantom() == Some(true) ==> {
                &&& final(self).view() == old(self).view().remove(record.spec_key())
                &&& final(self).eviction.contents() == (if old(self).view().contains_key(record.spec_key()) { old(self).eviction.contents().remove(old(self).view()[record.spec_key()].id()) } else { old(self).eviction.contents() })
                &&& (old(self).view().contains_key(record.spec_key()) ==>
                        final(garbages)@ == old(garbages)@.push((Event::Replace, old(self).view()[record.spec_key()])).push((Event::Remove, record)))
                &&& (!old(self).view().contains_key(record.spec_key()) ==> final(garbages)@ == old(garbages)@.push((Event::Remove, record)))
            }, // @label phantom_insert_removes_memory_copy_and_is_not_indexed
            // ---- ordinary insert
            record.spec_props().spec_phantom() != Some(true) ==> {
                &&& final(self).view().contains_key(record.spec_key()) && final(self).view()[record.spec_key()] == record
                &&& final(self).eviction.contents().contains(record.id())
            }, // @label inserted_record_is_indexed_and_evictable
            // C05 bound: within capacity afterwards unless the new entry alone is larger than the shard or nothing
            // else is evictable (everything left is pinned)
            record.spec_props().spec_phantom() != Some(true) ==>
                final(self).usage <= final(self).capacity || record.spec_weight() > final(self).capacity
                || final(self).eviction.victims().subset_of(set![record.id()]), // @label within_capacity_unless_oversize_or_rest_unevictable
            // C05 no over-eviction: if it fits without evicting, nothing is evicted
            record.spec_props().spec_phantom() != Some(true) && old(self).usage + record.spec_weight() <= old(self).capacity ==>
                forall|k: E::Key| k != record.spec_key() && old(self).view().contains_key(k) ==> #[trigger] final(self).view().contains_key(k), // @label no_eviction_when_it_fits
            // C13: every new garbage is Evict or Replace of a record that was indexed and is not any more; Replace only
            // for the old copy of the same key, as the last element
            record.spec_props().spec_phantom() != Some(true) ==> {
                &&& forall|i: int| old(garbages)@.len() <= i < final(garbages)@.len() ==> {
                        let g = #[trigger] final(garbages)@[i];
                        &&& (g.0 == Event::Evict || g.0 == Event::Replace)
                        &&& old(self).view().contains_key(g.1.spec_key()) && old(self).view()[g.1.spec_key()] == g.1
                        &&& (g.0 == Event::Replace ==> g.1.spec_key() == record.spec_key() && i == final(garbages)@.len() - 1)
                        &&& (g.0 == Event::Evict && g.1.spec_key() != record.spec_key() ==> !final(self).view().contains_key(g.1.spec_key()))
                    }
                &&& final(garbages)@.len() - old(garbages)@.len() == old(self).view().dom().len() + 1 - final(self).view().dom().len()
            }, // @label garbage_is_exactly_the_records_that_left
//@after /\.unwrap_or_default\(\);/
        let ghost view_in = self.indexer.view();
        let ghost ev_in = self.eviction.contents();
        proof {
            axiom_key_self_equivalent::<E::Key>(record.spec_key());
            if view_in.contains_key(record.spec_key()) { lemma_wsum_remove(view_in, record.spec_key()); }
            else { assert(view_in.remove(record.spec_key()) =~= view_in); }
        }
//@before /record\.inc_refs\(notifiers\.len\(\) \+ 1\);\s*\n\s*garbages\.push\(\(Event::Remove, record\)\);/
            proof {
                let view1 = self.indexer.view();
                assert(view1.dom() =~= view_in.dom().remove(record.spec_key()));
                if view_in.contains_key(record.spec_key()) {
                    Self::lemma_remove_keeps_eviction_subset(view_in, view1, ev_in, self.eviction.contents(), record.spec_key(), view_in[record.spec_key()]);
                    assert(self.eviction.contents() =~= ev_in.remove(view_in[record.spec_key()].id()));
                }
            }
//@before /\/\/ Insert new record/
        let ghost view_e = self.indexer.view();
        let ghost ev_e = self.eviction.contents();
        let ghost vic_e = self.eviction.victims();
        let ghost g_e = garbages@;
        let ghost usage_e = self.usage;
        proof {
            if view_e.contains_key(record.spec_key()) { lemma_wsum_remove(view_e, record.spec_key()); }
            lemma_wsum_insert(view_e, record.spec_key(), record);
            assert(forall|k: E::Key| view_e.contains_key(k) ==> (#[trigger] view_e[k]).id() != record.id());
        }
//@before /assert!\(self\.indexer\.holds\(&record\)\);/
        proof {
            let view1 = self.indexer.view();
            assert(view1 == view_e.insert(record.spec_key(), record));
            if view_e.contains_key(record.spec_key()) {
                assert(view1.dom() =~= view_e.dom());
                assert(view_e.remove(record.spec_key()) =~= view1.remove(record.spec_key()));
            } else {
                assert(view1.dom() =~= view_e.dom().insert(record.spec_key()));
                assert(view_e.remove(record.spec_key()) =~= view_e);
            }
            assert(!self.eviction.contents().contains(record.id()));
        }
//@after /self\.usage \+= weight;/
        proof {
            let view1 = self.indexer.view();
            assert forall|id: int| #[trigger] self.eviction.contents().contains(id) implies
                exists|k: E::Key| view1.contains_key(k) && (#[trigger] view1[k]).id() == id by {
                if id == record.id() {
                    assert(view1.contains_key(record.spec_key()) && view1[record.spec_key()].id() == id);
                } else {
                    assert(ev_e.contains(id));
                    let k = choose|k: E::Key| view_e.contains_key(k) && (#[trigger] view_e[k]).id() == id;
                    if k == record.spec_key() {
                        // the replaced old copy was removed from the container above
                        assert(false);
                    }
                    assert(view1.contains_key(k) && view1[k].id() == id);
                }
            }
        }
//@end

} // impl

// =====================================================================================================
// garbage dispatch (C13): listener notified once per garbage with its event, pipe gets exactly the Evict ones
// =====================================================================================================
impl<E: Eviction> CacheT<E> {
    pub open spec fn dispatched(&self, before: &Self, garbages: Seq<(Event, Arc<Record<E>>)>) -> bool {
        &&& self.pipe.enabled == before.pipe.enabled
        &&& self.inner.event_listener.l.is_some() == before.inner.event_listener.l.is_some()
        &&& (before.inner.event_listener.l.is_some() ==> self.inner.event_listener.log() == before.inner.event_listener.log() + notes_of(garbages))
        &&& (before.pipe.enabled ==> self.pipe.sent@ == before.pipe.sent@ + evicted_of(garbages))
        &&& (!before.pipe.enabled ==> self.pipe.sent@ == before.pipe.sent@)
    }

//@region foyer-memory/src/raw.rs :: impl~^impl<E, S, I> RawCache<E, S, I> where/fn insert_inner name=insert_inner_dispatch start=/let piped = / stmts=2 rules=for-tuple-pattern
//@head
    fn insert_inner_dispatch(&mut self, garbages: Vec<(Event, Arc<Record<E>>)>)
        ensures final(self).dispatched(old(self), garbages@), // @label each_garbage_notified_once_and_only_evictions_piped
//@loop 1 iter=it
                invariant
                    piped == old(self).pipe.enabled,
                    self.pipe.enabled == old(self).pipe.enabled,
                    self.inner.event_listener.l.is_some() == old(self).inner.event_listener.l.is_some(),
                    old(self).inner.event_listener.l.is_some() ==> self.inner.event_listener.log() == old(self).inner.event_listener.log() + notes_of(garbages@.subrange(0, it.index@ as int)),
                    piped ==> self.pipe.sent@ == old(self).pipe.sent@ + evicted_of(garbages@.subrange(0, it.index@ as int)),
                    !piped ==> self.pipe.sent@ == old(self).pipe.sent@,
//@after /let \(event, record\) = verif_item;/
                proof {
                    lemma_prefix_step(garbages@, it.index@ as int);
                    lemma_evicted_of_push(garbages@.subrange(0, it.index@ as int), verif_item);
                    assert(notes_of(garbages@.subrange(0, it.index@ + 1)) =~= notes_of(garbages@.subrange(0, it.index@ as int)).push((verif_item.0, verif_item.1.spec_key(), verif_item.1.spec_value())));
                }
//@tail
        proof {
            assert(garbages@.subrange(0, garbages@.len() as int) == garbages@);
            if !(old(self).inner.event_listener.l.is_some() || old(self).pipe.enabled) { }
        }
//@end

//@region foyer-memory/src/raw.rs :: impl~^impl<E, S, I> RawCache<E, S, I> where/fn evict_all name=evict_all_dispatch start=/let piped = / stmts=2 rules=for-tuple-pattern
//@head
    fn evict_all_dispatch(&mut self, garbages: Vec<(Event, Arc<Record<E>>)>)
        ensures final(self).dispatched(old(self), garbages@), // @label each_garbage_notified_once_and_only_evictions_piped
//@loop 1 iter=it
                invariant
                    piped == old(self).pipe.enabled,
                    self.pipe.enabled == old(self).pipe.enabled,
                    self.inner.event_listener.l.is_some() == old(self).inner.event_listener.l.is_some(),
                    old(self).inner.event_listener.l.is_some() ==> self.inner.event_listener.log() == old(self).inner.event_listener.log() + notes_of(garbages@.subrange(0, it.index@ as int)),
                    piped ==> self.pipe.sent@ == old(self).pipe.sent@ + evicted_of(garbages@.subrange(0, it.index@ as int)),
                    !piped ==> self.pipe.sent@ == old(self).pipe.sent@,
//@after /let \(event, record\) = verif_item;/
                proof {
                    lemma_prefix_step(garbages@, it.index@ as int);
                    lemma_evicted_of_push(garbages@.subrange(0, it.index@ as int), verif_item);
                    assert(notes_of(garbages@.subrange(0, it.index@ + 1)) =~= notes_of(garbages@.subrange(0, it.index@ as int)).push((verif_item.0, verif_item.1.spec_key(), verif_item.1.spec_value())));
                }
//@tail
        proof { assert(garbages@.subrange(0, garbages@.len() as int) == garbages@); }
//@end

// ---- RawCache::flush after the shards were evicted (C13, C15): the listener (if any) is told about every evicted record
// once, AND -- independently of whether there is a listener -- every evicted record is handed to pipe.flush exactly once
// when the pipe is enabled. One region from the statement after the shard loop to the end of the function.
// the iterator-adapter line `garbages.into_iter().map(|(_, record)| Piece::new(record)).collect_vec()` is outside
// Verus; it is replaced by the prelude function `pieces_of` (assumed: one piece per garbage record, in order)
//@region foyer-memory/src/raw.rs :: impl~^impl<E, S, I> RawCache<E, S, I> where/fn flush name=flush_dispatch start=/for shard in self\.inner\.shards\.iter\(\) \{/ skip=1 stmts=99 rules=for-tuple-pattern,de-async subopt=@garbages\.into_iter\(\)\.map\(\|\(_, record\)\| Piece::new\(record\)\)\.collect_vec\(\)@pieces_of(garbages)@
//@head
    #[verifier::loop_isolation(false)]
    fn flush_dispatch(&mut self, garbages: Vec<(Event, Arc<Record<E>>)>)
        ensures
            final(self).pipe.enabled == old(self).pipe.enabled,
            final(self).pipe.sent@ == old(self).pipe.sent@, // @label flush_does_not_use_send
            final(self).inner.event_listener.l.is_some() == old(self).inner.event_listener.l.is_some(),
            old(self).inner.event_listener.l.is_some() ==> final(self).inner.event_listener.log() == old(self).inner.event_listener.log() + notes_of(garbages@), // @label each_flushed_record_notified_once_with_its_event
            old(self).pipe.enabled ==> final(self).pipe.flushed@ == old(self).pipe.flushed@ + garbages@.map_values(|x: (Event, Arc<Record<E>>)| x.1), // @label every_flushed_record_handed_to_pipe_once_with_or_without_a_listener
            !old(self).pipe.enabled ==> final(self).pipe.flushed@ == old(self).pipe.flushed@, // @label nothing_handed_over_when_pipe_disabled
//@loop 1 iter=it
                invariant
                    listener.left@ == l0 + notes_of(garbages@.subrange(0, it.index@ as int)),
                    self.pipe == old(self).pipe,
//@before /for verif_item in/
            let ghost l0 = listener.left@;
//@after /let \(event, record\) = verif_item;/
                proof {
                    lemma_prefix_step(garbages@, it.index@ as int);
                    assert(notes_of(garbages@.subrange(0, it.index@ + 1)) =~= notes_of(garbages@.subrange(0, it.index@ as int)).push((verif_item.0, verif_item.1.spec_key(), verif_item.1.spec_value())));
                }
//@before /if piped \{/
        proof { assert(garbages@.subrange(0, garbages@.len() as int) == garbages@); }
//@end
}

// ---- RawCache::resize, per-shard closure body: capacity updated, then evict to the new capacity (C05)
//@region foyer-memory/src/raw.rs :: impl~^impl<E, S, I> RawCache<E, S, I> where/fn resize name=resize_shard start=/shard\.eviction\.update\(shard_capacity, None\)\.inspect\(\|_\| \{/ body=1 sub=@&mut garbages@garbages@
//@head
fn resize_shard<E: Eviction, S, I: Indexer<Eviction = E>>(shard: &mut RawCacheShard<E, S, I>, shard_capacity: usize, garbages: &mut Vec<(Event, Arc<Record<E>>)>)
    requires old(shard).wf(),
    ensures
        final(shard).wf(), // @label accounting_invariant_preserved
        final(shard).capacity == shard_capacity, // @label capacity_updated
        final(shard).usage <= shard_capacity || (!final(shard).eviction.poppable() && final(shard).eviction.victims().is_empty()), // @label bound_reestablished_for_new_capacity
        old(shard).usage <= shard_capacity ==> final(shard).view() == old(shard).view() && final(garbages)@ == old(garbages)@, // @label no_eviction_when_it_already_fits
        forall|i: int| old(garbages)@.len() <= i < final(garbages)@.len() ==> (#[trigger] final(garbages)@[i]).0 == Event::Evict, // @label resize_victims_are_evictions
//@end

//@region foyer-memory/src/raw.rs :: impl~^impl<E, S, I> RawCache<E, S, I> where/fn resize name=resize_dispatch start=/let piped = / stmts=2 rules=for-tuple-pattern
//@head
fn resize_dispatch<E: Eviction>(inner: &mut InnerT<E>, pipe: &mut PipeT<E>, garbages: Vec<(Event, Arc<Record<E>>)>)
    ensures
        final(pipe).enabled == old(pipe).enabled,
        final(inner).event_listener.l.is_some() == old(inner).event_listener.l.is_some(),
        old(inner).event_listener.l.is_some() ==> final(inner).event_listener.log() == old(inner).event_listener.log() + notes_of(garbages@), // @label each_garbage_notified_once
        old(pipe).enabled ==> final(pipe).sent@ == old(pipe).sent@ + evicted_of(garbages@), // @label exactly_the_evictions_piped
        !old(pipe).enabled ==> final(pipe).sent@ == old(pipe).sent@, // @label nothing_piped_when_disabled
//@loop 1 iter=it
                invariant
                    piped == old(pipe).enabled,
                    pipe.enabled == old(pipe).enabled,
                    inner.event_listener.l.is_some() == old(inner).event_listener.l.is_some(),
                    old(inner).event_listener.l.is_some() ==> inner.event_listener.log() == old(inner).event_listener.log() + notes_of(garbages@.subrange(0, it.index@ as int)),
                    piped ==> pipe.sent@ == old(pipe).sent@ + evicted_of(garbages@.subrange(0, it.index@ as int)),
                    !piped ==> pipe.sent@ == old(pipe).sent@,
//@after /let \(event, record\) = verif_item;/
                proof {
                    lemma_prefix_step(garbages@, it.index@ as int);
                    lemma_evicted_of_push(garbages@.subrange(0, it.index@ as int), verif_item);
                    assert(notes_of(garbages@.subrange(0, it.index@ + 1)) =~= notes_of(garbages@.subrange(0, it.index@ as int)).push((verif_item.0, verif_item.1.spec_key(), verif_item.1.spec_value())));
                }
//@tail
        proof { assert(garbages@.subrange(0, garbages@.len() as int) == garbages@); }
//@end

// ---- RawCache::remove: one Remove notification for the removed record, nothing piped
//@region foyer-memory/src/raw.rs :: impl~^impl<E, S, I> RawCache<E, S, I> where/fn remove name=remove_notify start=/if let Some\(listener\) = self\.inner\.event_listener\.as_ref\(\)/ stmts=1
//@head
impl<E: Eviction> CacheT<E> {
    fn remove_notify(&mut self, record: &Arc<Record<E>>)
        ensures
            final(self).pipe == old(self).pipe, // @label removed_entry_not_piped
            final(self).inner.event_listener.l.is_some() == old(self).inner.event_listener.l.is_some(),
            old(self).inner.event_listener.l.is_some() ==>
                final(self).inner.event_listener.log() == old(self).inner.event_listener.log().push((Event::Remove, record.spec_key(), record.spec_value())), // @label one_remove_notification
//@end
}

// ---- RawCacheInner::clear: one Clear notification per cleared record, nothing piped
//@region foyer-memory/src/raw.rs :: impl~^impl<E, S, I> RawCacheInner<E, S, I> where/fn clear name=clear_notify start=/if let Some\(listener\) = self\.event_listener\.as_ref\(\)/ stmts=1
//@head
impl<E: Eviction> InnerT<E> {
    fn clear_notify(&mut self, garbages: Vec<Arc<Record<E>>>)
        ensures
            final(self).event_listener.l.is_some() == old(self).event_listener.l.is_some(),
            old(self).event_listener.l.is_some() ==>
                final(self).event_listener.log() == old(self).event_listener.log() + garbages@.map_values(|r: Arc<Record<E>>| (Event::Clear, r.spec_key(), r.spec_value())), // @label one_clear_notification_per_cleared_record
//@loop 1 iter=it
                invariant
                    listener.left@ == l0 + garbages@.subrange(0, it.index@ as int).map_values(|r: Arc<Record<E>>| (Event::Clear, r.spec_key(), r.spec_value())),
//@before /for record in/
            let ghost l0 = listener.left@;
//@after /listener\.on_leave\(Event::Clear/
                proof {
                    lemma_prefix_step(garbages@, it.index@ as int);
                    assert(garbages@.subrange(0, it.index@ + 1).map_values(|r: Arc<Record<E>>| (Event::Clear, r.spec_key(), r.spec_value()))
                        =~= garbages@.subrange(0, it.index@ as int).map_values(|r: Arc<Record<E>>| (Event::Clear, r.spec_key(), r.spec_value())).push((Event::Clear, record.spec_key(), record.spec_value())));
                }
//@tail
        proof { assert(garbages@.subrange(0, garbages@.len() as int) == garbages@); }
//@end
}

// ---- RawCacheEntry::drop, last reference of a phantom (disk-only / filtered) entry: one Evict notification and one
// hand-off to the pipe (C12, C13)
//@item foyer-common/src/properties.rs :: enum Source rules=derive-structural
pub struct EntryT<E: Eviction> { pub pipe: PipeT<E>, pub inner: InnerT<E>, pub record: Arc<Record<E>>, pub source: Source }
/// the shard's eviction container as seen from the last drop of a handle: `release` log (LRU moves the record from
/// the pin list back to its queue; Noop for the other algorithms)
pub struct ReleaseLogT<E: Eviction> { pub released: Ghost<Seq<Arc<Record<E>>>> }
/// stands for `match E::release() { Op::Noop => {} Op::Immutable(_) => shard.read().with(..release_immutable..), Op::Mutable(_) => shard.write().with(..release_mutable..) }`
#[verifier::external_body]
pub fn verif_release<E: Eviction>(shard: &mut ReleaseLogT<E>, record: &Arc<Record<E>>)
    ensures final(shard).released@ == old(shard).released@.push(*record),
{ }
//@region foyer-memory/src/raw.rs :: impl~Drop for RawCacheEntry/fn drop name=entry_last_drop whole=1 sub=@(?s)match E::release\(\) \{.*?\n            \}@verif_release(shard, &self.record);@ sub=@let shard = &self\.inner\.shards\[[^;]*\];@@
//@head
impl<E: Eviction> EntryT<E> {
    fn entry_last_drop(&mut self, shard: &mut ReleaseLogT<E>)
        ensures
            final(self).record == old(self).record,
            final(self).pipe.enabled == old(self).pipe.enabled,
            final(self).inner.event_listener.l.is_some() == old(self).inner.event_listener.l.is_some(),
            // only the drop of the LAST handle has any effect (C13: exactly one leave notification / hand-off per entry)
            old(self).record.refs_left_after_this_drop() != 0 ==>
                final(self).pipe.sent@ == old(self).pipe.sent@ && final(self).inner.event_listener.l == old(self).inner.event_listener.l
                && final(shard).released@ == old(shard).released@, // @label drop_of_a_non_last_handle_has_no_effects
            old(self).record.refs_left_after_this_drop() == 0 && old(self).record.spec_props().spec_phantom() == Some(true) && old(self).inner.event_listener.l.is_some() ==>
                final(self).inner.event_listener.log() == old(self).inner.event_listener.log().push((Event::Evict, old(self).record.spec_key(), old(self).record.spec_value())), // @label phantom_last_drop_notifies_evict_once
            old(self).record.refs_left_after_this_drop() == 0 && old(self).record.spec_props().spec_phantom() == Some(true) && old(self).pipe.enabled ==>
                final(self).pipe.sent@ == old(self).pipe.sent@.push(old(self).record), // @label phantom_last_drop_piped_once
            old(self).record.spec_props().spec_phantom() == Some(true) && !old(self).pipe.enabled ==>
                final(self).pipe.sent@ == old(self).pipe.sent@, // @label phantom_not_piped_when_disabled
            old(self).record.spec_props().spec_phantom() == Some(true) ==> final(shard).released@ == old(shard).released@,
            old(self).record.spec_props().spec_phantom() != Some(true) ==>
                final(self).pipe.sent@ == old(self).pipe.sent@ && final(self).inner.event_listener.l == old(self).inner.event_listener.l, // @label ordinary_entry_drop_has_no_leave_effects
            // C18: whichever handle drops last (from an insert, a fetch or a lookup), the record is released to the
            // eviction container exactly once, so a pinned record becomes evictable again
            old(self).record.refs_left_after_this_drop() == 0 && old(self).record.spec_props().spec_phantom() != Some(true) ==>
                final(shard).released@ == old(shard).released@.push(old(self).record), // @label last_drop_of_any_handle_releases_the_record_once
//@end
}

// ---- RawCacheShard::get_mutable / get_immutable (C18): EVERY lookup hit acquires the record in the eviction container
// (under LRU: moves it to the pin list), whatever other handles exist; a miss acquires nothing. `get_inner` is seen
// through its contract above, the acquire helpers (`match E::acquire() { Op::..(f) => f(..) }`, closures) as a log.
pub struct LookupShardT<E: Eviction> { pub found: Option<Arc<Record<E>>>, pub acquired: Ghost<Seq<int>> }
impl<E: Eviction> LookupShardT<E> {
    #[verifier::external_body]
    pub fn get_inner(&self, hash: u64, key: &E::Key) -> (r: Option<Arc<Record<E>>>) ensures r == self.found { unimplemented!() }
    #[verifier::external_body]
    pub fn acquire_mutable(&mut self, record: &Arc<Record<E>>)
        ensures final(self).acquired@ == old(self).acquired@.push(record.id()), final(self).found == old(self).found { }
    #[verifier::external_body]
    pub fn acquire_immutable(&mut self, record: &Arc<Record<E>>)
        ensures final(self).acquired@ == old(self).acquired@.push(record.id()), final(self).found == old(self).found { }
//@region foyer-memory/src/raw.rs :: impl~RawCacheShard<E, S, I>/fn get_mutable name=get_mutable whole=1 rules=option-inspect
//@head
    fn get_mutable(&mut self, hash: u64, key: &E::Key) -> (r: Option<Arc<Record<E>>>)
        ensures
            r == old(self).found, // @label lookup_returns_what_get_inner_found
            r.is_some() ==> final(self).acquired@ == old(self).acquired@.push(r.unwrap().id()), // @label every_lookup_hit_acquires_the_record_once
            r.is_none() ==> final(self).acquired@ == old(self).acquired@, // @label a_miss_acquires_nothing
//@end
//@region foyer-memory/src/raw.rs :: impl~RawCacheShard<E, S, I>/fn get_immutable name=get_immutable whole=1 rules=option-inspect
//@head
    fn get_immutable(&mut self, hash: u64, key: &E::Key) -> (r: Option<Arc<Record<E>>>)
        ensures
            r == old(self).found, // @label lookup_returns_what_get_inner_found
            r.is_some() ==> final(self).acquired@ == old(self).acquired@.push(r.unwrap().id()), // @label every_lookup_hit_acquires_the_record_once
            r.is_none() ==> final(self).acquired@ == old(self).acquired@, // @label a_miss_acquires_nothing
//@end
}

// ---- RawCache::shard_capacity_for: shares add up to the configured capacity (C05)
pub assume_specification[ <usize as From<bool>>::from ](b: bool) -> (r: usize)
    ensures r == (if b { 1usize } else { 0usize });
pub open spec fn share(total: nat, shards: nat, index: nat) -> nat { total / shards + if index < total % shards { 1nat } else { 0nat } }
pub open spec fn share_sum(total: nat, shards: nat, n: nat) -> nat decreases n { if n == 0 { 0 } else { share_sum(total, shards, (n - 1) as nat) + share(total, shards, (n - 1) as nat) } }
proof fn lemma_share_sum(total: nat, shards: nat, n: nat)
    requires shards > 0, n <= shards,
    ensures share_sum(total, shards, n) == n * (total / shards) + if n < total % shards { n } else { total % shards },
    decreases n,
{
    if n > 0 {
        lemma_share_sum(total, shards, (n - 1) as nat);
        let q = total / shards; let m = (n - 1) as nat; let rem = total % shards;
        assert(n * q == m * q + q) by (nonlinear_arith) requires m + 1 == n;
        assert(share_sum(total, shards, n) == share_sum(total, shards, m) + share(total, shards, m));
        assert(share_sum(total, shards, m) == m * q + if m < rem { m } else { rem });
        assert(share(total, shards, m) == q + if m < rem { 1nat } else { 0nat });
        if m < rem { assert(share_sum(total, shards, n) == n * q + n); } else { assert(share_sum(total, shards, n) == n * q + rem); }
    } else { assert(share_sum(total, shards, 0) == 0); assert(0 * (total / shards) == 0); }
}
proof fn lemma_shard_capacities_add_up_to_total(total: nat, shards: nat)
    requires shards > 0,
    ensures share_sum(total, shards, shards) == total, // @label shard_capacities_sum_to_configured_capacity
{
    lemma_share_sum(total, shards, shards);
    assert(total % shards < shards) by (nonlinear_arith) requires shards > 0;
    assert(total == shards * (total / shards) + total % shards) by (nonlinear_arith) requires shards > 0;
}
pub struct CapT { }
impl CapT {
//@fn foyer-memory/src/raw.rs :: impl~^impl<E, S, I> RawCache<E, S, I> where/fn shard_capacity_for ret=r
//@spec
    requires shards > 0,
    ensures r == share(total as nat, shards as nat, index as nat), // @label share_is_floor_plus_one_for_the_first_remainder_shards
//@before /base \+ usize::from/
        proof { assert(remainder > 0 ==> base < usize::MAX) by (nonlinear_arith) requires shards > 0, base == total / shards, remainder == total % shards, total <= usize::MAX; }
//@end

// ---- the per-shard capacities computed by RawCache::new and RawCache::resize: share i for shard i, summing to the total
//@region foyer-memory/src/raw.rs :: impl~^impl<E, S, I> RawCache<E, S, I> where/fn resize name=resize_capacities start=/let shard_capacities = / stmts=1 rules=range-map-collect
//@head
    fn resize_capacities(capacity: usize, shards: usize) -> (r: Vec<usize>)
        requires shards > 0,
        ensures
            r@.len() == shards, // @label one_capacity_per_shard
            forall|i: int| 0 <= i < shards ==> (#[trigger] r@[i]) == share(capacity as nat, shards as nat, i as nat), // @label resize_gives_every_shard_its_share_including_the_remainder
//@loop 1 optional
            invariant verif_i <= shards, shards > 0, shard_capacities@.len() == verif_i,
                forall|i: int| 0 <= i < verif_i ==> (#[trigger] shard_capacities@[i]) == share(capacity as nat, shards as nat, i as nat), // @label construction_gives_every_shard_its_share_including_the_remainder
            decreases shards - verif_i,
//@tail
        shard_capacities
//@end
//@region foyer-memory/src/raw.rs :: impl~^impl<E, S, I> RawCache<E, S, I> where/fn new name=new_capacities start=/let shard_capacities = / stmts=1 rules=range-map-collect sub=@config\.shards@shards@ sub=@config\.capacity@capacity@
//@head
    fn new_capacities(capacity: usize, shards: usize) -> (r: Vec<usize>)
        requires shards > 0,
        ensures
            r@.len() == shards, // @label one_capacity_per_shard
            forall|i: int| 0 <= i < shards ==> (#[trigger] r@[i]) == share(capacity as nat, shards as nat, i as nat), // @label construction_gives_every_shard_its_share_including_the_remainder
//@loop 1 optional
            invariant verif_i <= shards, shards > 0, shard_capacities@.len() == verif_i,
                forall|i: int| 0 <= i < verif_i ==> (#[trigger] shard_capacities@[i]) == share(capacity as nat, shards as nat, i as nat), // @label construction_gives_every_shard_its_share_including_the_remainder
            decreases shards - verif_i,
//@tail
        shard_capacities
//@end
}

// ---- RawCacheEntry::is_outdated (C18): true exactly when the shard index no longer holds this record
// (`is_in_indexer` flag <=> index membership: rule flag-as-membership, wrapper supplies the shard's index)
#[verifier::reject_recursive_types(E)]
#[verifier::reject_recursive_types(I)]
pub struct OutdatedCtx<E: Eviction, I: Indexer<Eviction = E>> { pub record: Arc<Record<E>>, pub indexer: I }
impl<E: Eviction, I: Indexer<Eviction = E>> OutdatedCtx<E, I> {
//@fn foyer-memory/src/raw.rs :: impl~^impl<E, S, I> RawCacheEntry<E, S, I> where/fn is_outdated ret=r sub=@self\.record\.is_in_indexer\(\)@self.indexer.holds(&self.record)@
//@spec
        ensures r == !(self.indexer.view().contains_key(self.record.spec_key()) && self.indexer.view()[self.record.spec_key()].id() == self.record.id()), // @label outdated_iff_lookup_no_longer_returns_this_entry
//@end
}

// ---- RawCache::insert_with_properties_inner: placement decision before the record is built (C12): an entry rejected by
// the in-memory filter or advised on-disk becomes a phantom (not retained in memory, handed to the disk tier on drop)
pub trait PropsW: Sized {
    spec fn w_phantom(&self) -> bool;
    spec fn w_location(&self) -> Option<Location>;
    fn with_phantom(self, phantom: bool) -> (r: Self) ensures r.w_phantom() == phantom, r.w_location() == self.w_location();
    fn location(&self) -> (r: Option<Location>) ensures r == self.w_location();
}
/// `Arc<dyn Weighter>` / `Arc<dyn Filter>`: user callbacks, results unconstrained but functional
pub struct WeighterT { pub w: u8 }
pub struct FilterT { pub f: u8 }
pub uninterp spec fn spec_filter(k: u64, v: u64) -> bool;
impl WeighterT { #[verifier::external_body] pub fn call(&self, k: &u64, v: &u64) -> usize { unimplemented!() } }
impl FilterT { #[verifier::external_body] pub fn call(&self, k: &u64, v: &u64) -> (r: bool) ensures r == spec_filter(*k, *v) { unimplemented!() } }
pub struct HashBuilderT { pub h: u8 }
impl HashBuilderT { #[verifier::external_body] pub fn hash_one(&self, k: &u64) -> u64 { unimplemented!() } }
pub struct PlacementInnerT { pub hash_builder: HashBuilderT, pub weighter: WeighterT, pub filter: FilterT }
pub struct PlacementT { pub inner: PlacementInnerT }
impl PlacementT {
//@region foyer-memory/src/raw.rs :: impl~^impl<E, S, I> RawCache<E, S, I> where/fn insert_with_properties_inner name=placement start=/let hash = / stmts=4 rules=let-chain sub=@\(self\.inner\.weighter\)\(@self.inner.weighter.call(@ sub=@\(self\.inner\.filter\)\(@self.inner.filter.call(@
//@head
    fn placement<P: PropsW>(&self, key: u64, value: u64, mut properties: P) -> (r: P)
        ensures
            r.w_location() == properties.w_location(),
            r.w_phantom() == (if !spec_filter(key, value) || properties.w_location() == Some(Location::OnDisk) { true } else { properties.w_phantom() }), // @label phantom_iff_filtered_out_or_advised_on_disk
//@tail
        properties
//@end
}

// ---- RawCache::flush / evict_all: EVERY shard is evicted down to zero (C15: close persists what memory held; C13)
pub struct ShardLockT { pub id: int }
pub struct ShardGuardT { pub id: int }
/// what evicting shard `id` down to `target` puts on the garbage list (contract of RawCacheShard::evict above)
pub uninterp spec fn shard_garbage<E: Eviction>(id: int, target: usize) -> Seq<(Event, Arc<Record<E>>)>;
impl ShardLockT {
    #[verifier::external_body]
    pub fn write(&self) -> (g: ShardGuardT) ensures g.id == self.id { unimplemented!() }
}
impl ShardGuardT {
    #[verifier::external_body]
    pub fn evict<E: Eviction>(&mut self, target: usize, garbages: &mut Vec<(Event, Arc<Record<E>>)>)
        ensures final(garbages)@ == old(garbages)@ + shard_garbage::<E>(old(self).id, target), final(self).id == old(self).id,
    { unimplemented!() }
}
pub open spec fn all_evicted<E: Eviction>(shards: Seq<ShardLockT>, n: int) -> Seq<(Event, Arc<Record<E>>)>
    decreases n
{
    if n <= 0 { Seq::empty() } else { all_evicted::<E>(shards, n - 1) + shard_garbage::<E>(shards[n - 1].id, 0) }
}
pub struct ShardsInnerT { pub shards: Vec<ShardLockT> }
pub struct ShardsOwnerT { pub inner: ShardsInnerT }
impl ShardsOwnerT {
//@region foyer-memory/src/raw.rs :: impl~^impl<E, S, I> RawCache<E, S, I> where/fn flush name=flush_evicts_every_shard start=/let mut garbages = / stmts=2
//@head
    fn flush_evicts_every_shard<E: Eviction>(&self) -> (r: Vec<(Event, Arc<Record<E>>)>)
        ensures r@ == all_evicted::<E>(self.inner.shards@, self.inner.shards@.len() as int), // @label flush_evicts_every_shard_down_to_zero
//@loop 1 iter=it
            invariant garbages@ == all_evicted::<E>(self.inner.shards@, it.index@ as int), it.snapshot@.remaining().len() == self.inner.shards@.len(), forall|i: int| 0 <= i < self.inner.shards@.len() ==> *(#[trigger] it.snapshot@.remaining()[i]) == self.inner.shards@[i],
//@tail
        garbages
//@end
//@region foyer-memory/src/raw.rs :: impl~^impl<E, S, I> RawCache<E, S, I> where/fn evict_all name=evict_all_evicts_every_shard start=/let mut garbages = / stmts=2
//@head
    fn evict_all_evicts_every_shard<E: Eviction>(&self) -> (r: Vec<(Event, Arc<Record<E>>)>)
        ensures r@ == all_evicted::<E>(self.inner.shards@, self.inner.shards@.len() as int), // @label evict_all_evicts_every_shard_down_to_zero
//@loop 1 iter=it
            invariant garbages@ == all_evicted::<E>(self.inner.shards@, it.index@ as int), it.snapshot@.remaining().len() == self.inner.shards@.len(), forall|i: int| 0 <= i < self.inner.shards@.len() ==> *(#[trigger] it.snapshot@.remaining()[i]) == self.inner.shards@[i],
//@tail
        garbages
//@end
}

} // verus!

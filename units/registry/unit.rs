// UNIT registry — the in-flight table itself (C06, C11, C17): InflightManager::{enqueue, take, fetch_or_take}, whole bodies,
// over a stand-in for hashbrown's HashTable that carries hashbrown's CONTRACT for `entry(hash, eq, hasher)`:
//   * Occupied(o): o is an element that was stored under `hash` and on which the caller's `eq` closure answers true;
//   * Vacant: the `eq` closure answers false on EVERY element stored under `hash`;
//   * the `hasher` closure must return, for every element, the hash that element was stored under (re-hash contract).
// The two closures are the repository's own text: a mechanical substitution only adds their parameter type and the clause
// they have to meet (`r == key.equivalent(&e.key)`, `r == e.hash`), so Verus PROVES the closure bodies against it -- a probe
// that compares hashes instead of keys, or a re-hash closure that returns something else, fails that clause.
// The table is a sequence of entries (ghost); all quantification is over every table, every hash/key/id.
#![allow(unused_imports, unused_variables, dead_code, unused_mut, non_camel_case_types)]
use vstd::prelude::*;
use std::sync::Arc;
verus! {

global size_of usize == 8;

pub struct KeyT { pub k: u64 }
impl KeyT {
    /// `Equivalent::equivalent` of the key type
    pub fn equivalent(&self, other: &KeyT) -> (r: bool) ensures r == (self.k == other.k) { self.k == other.k }
    /// `ToOwned::to_owned`
    pub fn to_owned(&self) -> (r: KeyT) ensures r == *self { KeyT { k: self.k } }
}
/// the close flag; `cell` is its identity (which flag it is), the stores made to flags are logged in `ClosedLog`
pub struct AtomicBool { pub cell: Ghost<int> }
pub enum Ordering { Relaxed }
impl AtomicBool {
    #[verifier::external_body]
    pub fn new(v: bool) -> (r: AtomicBool) { unimplemented!() }
}
impl Default for AtomicBool {
    /// a new flag of unknown identity
    #[verifier::external_body]
    fn default() -> (r: AtomicBool) { unimplemented!() }
}
pub struct ClosedLog { pub stores: Ghost<Seq<(int, bool)>> }
impl ClosedLog {
    /// `flag.store(v, ordering)` (supplied mechanically by a `sub`: the flag expression is kept)
    #[verifier::external_body]
    pub fn store(&mut self, flag: &Arc<AtomicBool>, v: bool, o: Ordering)
        ensures final(self).stores@ == old(self).stores@.push((flag.cell@, v)),
    { unimplemented!() }
}
pub struct BuilderT { pub b: u8 }
pub struct ErasedT { pub from: Ghost<u8> }
/// `f.map(erase_required_fetch_builder)` / `f.map(unerase_required_fetch_builder)` (type erasure of the boxed closure)
#[verifier::external_body]
pub fn verif_erase(f: Option<BuilderT>) -> (r: Option<ErasedT>) ensures f.is_some() == r.is_some(), f.is_some() ==> r.unwrap().from@ == f.unwrap().b { unimplemented!() }
#[verifier::external_body]
pub fn verif_unerase(f: Option<ErasedT>) -> (r: Option<BuilderT>) ensures f.is_some() == r.is_some(), f.is_some() ==> r.unwrap().b == f.unwrap().from@ { unimplemented!() }
pub struct TxT { pub ch: Ghost<int> }
pub struct RxT { pub ch: Ghost<int> }
pub struct WaiterT { pub ch: Ghost<int> }
impl RxT { pub fn into_future(self) -> (r: WaiterT) ensures r.ch@ == self.ch@ { WaiterT { ch: Ghost(self.ch@) } } }
pub struct oneshot { }
impl oneshot {
    #[verifier::external_body]
    pub fn channel() -> (r: (TxT, RxT)) ensures r.0.ch@ == r.1.ch@ { unimplemented!() }
}

pub struct Inflight { pub id: usize, pub close: Arc<AtomicBool>, pub notifiers: Vec<TxT>, pub f: Option<ErasedT> }
pub struct InflightEntry { pub hash: u64, pub key: KeyT, pub inflight: Inflight }

// ---- hashbrown::HashTable<InflightEntry> (stand-in with hashbrown's contract)
pub struct HashTable { pub v: Ghost<Seq<InflightEntry>> }
pub enum Entry<'a> { Occupied(OccupiedEntry<'a>), Vacant(VacantEntry<'a>) }
pub struct OccupiedEntry<'a> { pub t: &'a mut HashTable, pub idx: Ghost<int> }
pub struct VacantEntry<'a> { pub t: &'a mut HashTable, pub hash: Ghost<u64> }
impl HashTable {
    #[verifier::external_body]
    pub fn entry<'a, EQ: Fn(&InflightEntry) -> bool, H: Fn(&InflightEntry) -> u64>(&'a mut self, hash: u64, eq: EQ, hasher: H) -> (r: Entry<'a>)
        requires
            forall|e: &InflightEntry| eq.requires((e,)),
            forall|e: &InflightEntry| hasher.requires((e,)),
            forall|e: &InflightEntry, h: u64| hasher.ensures((e,), h) ==> h == e.hash, // @label rehash_closure_returns_the_hash_the_element_was_stored_under
        ensures
            match r {
                Entry::Occupied(o) => 0 <= o.idx@ < old(self).v@.len() && old(self).v@[o.idx@].hash == hash && eq.ensures((&old(self).v@[o.idx@],), true)
                    && *o.t == *old(self) && *final(o.t) == *final(self),
                Entry::Vacant(v) => v.hash@ == hash && (forall|i: int| 0 <= i < old(self).v@.len() && (#[trigger] old(self).v@[i]).hash == hash ==> eq.ensures((&old(self).v@[i],), false))
                    && *v.t == *old(self) && *final(v.t) == *final(self),
            }
    { unimplemented!() }
}
impl<'a> OccupiedEntry<'a> {
    #[verifier::external_body]
    pub fn get(&self) -> (r: &InflightEntry)
        requires 0 <= self.idx@ < old(self.t).v@.len(),
        ensures *r == old(self.t).v@[self.idx@],
    { unimplemented!() }
    #[verifier::external_body]
    pub fn get_mut(&mut self) -> (r: &mut InflightEntry)
        requires 0 <= old(self).idx@ < old(self).t.v@.len(),
        ensures *r == old(self).t.v@[old(self).idx@],
            final(self).idx == old(self).idx,
            final(self).t.v@ == old(self).t.v@.update(old(self).idx@, *final(r)),
            *final(final(self).t) == *final(old(self).t),
    { unimplemented!() }
    #[verifier::external_body]
    pub fn remove(self) -> (r: (InflightEntry, VacantEntry<'a>))
        requires 0 <= self.idx@ < old(self.t).v@.len(),
        ensures r.0 == old(self.t).v@[self.idx@], r.1.t.v@ == old(self.t).v@.remove(self.idx@), *final(r.1.t) == *final(self.t),
    { unimplemented!() }
}
impl<'a> VacantEntry<'a> {
    #[verifier::external_body]
    pub fn insert(self, e: InflightEntry) -> (r: OccupiedEntry<'a>)
        requires e.hash == self.hash@, // @label an_element_is_stored_under_the_hash_the_slot_was_probed_with
        ensures r.t.v@ == old(self.t).v@.push(e), r.idx@ == old(self.t).v@.len(), *final(r.t) == *final(self.t),
    { unimplemented!() }
}

pub enum Enqueue { Lead { id: usize, close: Arc<AtomicBool>, waiter: WaiterT, required_fetch_builder: Option<BuilderT> }, Wait(WaiterT) }
pub enum FetchOrTake { Fetch(BuilderT), Notifiers(Vec<TxT>) }

pub struct InflightManager { pub inflights: HashTable, pub next_id: usize }

/// position of the registration of (hash, key), if any
pub open spec fn reg_at(v: Seq<InflightEntry>, hash: u64, key: KeyT, i: int) -> bool { 0 <= i < v.len() && v[i].hash == hash && v[i].key == key }
pub open spec fn unregistered(v: Seq<InflightEntry>, hash: u64, key: KeyT) -> bool { forall|i: int| 0 <= i < v.len() ==> !((#[trigger] v[i]).hash == hash && v[i].key == key) }
/// `new` is `old` without its i-th registration: every other registration is there, unchanged, in the same order
pub open spec fn removed_at(new: Seq<InflightEntry>, old: Seq<InflightEntry>, i: int) -> bool {
    &&& new.len() == old.len() - 1
    &&& forall|j: int| 0 <= j < i ==> (#[trigger] new[j]) == old[j]
    &&& forall|j: int| i <= j < new.len() ==> (#[trigger] new[j]) == old[j + 1]
}
/// table invariant: one registration per (hash, key) -- two keys with one hash are two registrations --, leader ids
/// unique and below the counter
pub open spec fn wf(v: Seq<InflightEntry>, next_id: usize) -> bool {
    &&& forall|i: int, j: int| 0 <= i < v.len() && 0 <= j < v.len() && (#[trigger] v[i]).hash == (#[trigger] v[j]).hash && v[i].key == v[j].key ==> i == j
    &&& forall|i: int, j: int| 0 <= i < v.len() && 0 <= j < v.len() && (#[trigger] v[i]).inflight.id == (#[trigger] v[j]).inflight.id ==> i == j
    &&& forall|i: int| 0 <= i < v.len() ==> (#[trigger] v[i]).inflight.id < next_id
}

impl InflightManager {

// ---- enqueue: the first caller of a (hash, key) leads under a fresh id and is handed the close flag that the table
// stores; any later caller of the same key -- and only of that key -- waits on that registration; all other registrations
// are untouched
//@region foyer-memory/src/inflight.rs :: impl~InflightManager<E, S, I> where E: Eviction, E::Key: Key/fn enqueue name=enqueue whole=1 sub=@(?m)\.entry\(([^|]+), \|(\w+)\| (.+), \|(\w+)\| (.+)\)( \{)?$@.entry(\1, |verif_e: &InflightEntry| -> (r: bool) ensures verif_e.hash == \1 ==> r == (*key == verif_e.key) /* #label the_table_is_probed_by_key_equivalence_not_by_hash */ { let \2 = verif_e; \3 }, |verif_e: &InflightEntry| -> (r: u64) ensures r == verif_e.hash /* #label rehash_closure_returns_the_hash_the_element_was_stored_under */ { let \4 = verif_e; \5 })\6@ sub=@f\.map\(erase_required_fetch_builder\)@verif_erase(f)@
//@head
    pub fn enqueue(&mut self, hash: u64, key: &KeyT, f: Option<BuilderT>) -> (r: Enqueue)
        requires wf(old(self).inflights.v@, old(self).next_id), old(self).next_id < usize::MAX,
        ensures
            wf(final(self).inflights.v@, final(self).next_id), // @label one_registration_per_key_and_unique_leader_ids
            // a key that is not registered: the caller leads; its registration is appended, nothing else changes
            unregistered(old(self).inflights.v@, hash, *key) ==> (r matches Enqueue::Lead { id, close, waiter, required_fetch_builder }
                && id == old(self).next_id && final(self).next_id == old(self).next_id + 1 && required_fetch_builder == f
                && final(self).inflights.v@ == old(self).inflights.v@.push(final(self).inflights.v@.last())
                && ({ let n = final(self).inflights.v@.last();
                      n.hash == hash && n.key == *key && n.inflight.id == id && n.inflight.f is None
                      && n.inflight.close.cell@ == close.cell@
                      && n.inflight.notifiers@.len() == 1 && n.inflight.notifiers@[0].ch@ == waiter.ch@ })), // @label first_caller_of_a_key_leads_with_the_close_flag_the_table_stores
            // a registered key: the caller waits on THAT registration, every other registration is untouched
            forall|i: int| reg_at(old(self).inflights.v@, hash, *key, i) ==> (r matches Enqueue::Wait(w)
                && final(self).next_id == old(self).next_id
                && final(self).inflights.v@.len() == old(self).inflights.v@.len()
                && (forall|j: int| 0 <= j < old(self).inflights.v@.len() && j != i ==> final(self).inflights.v@[j] == old(self).inflights.v@[j])
                && ({ let o = old(self).inflights.v@[i]; let n = final(self).inflights.v@[i];
                      n.hash == o.hash && n.key == o.key && n.inflight.id == o.inflight.id && n.inflight.close == o.inflight.close
                      && n.inflight.notifiers@ == o.inflight.notifiers@.push(n.inflight.notifiers@.last())
                      && n.inflight.notifiers@.last().ch@ == w.ch@
                      && (o.inflight.f is Some ==> n.inflight.f == o.inflight.f)
                      && (o.inflight.f is None && f is Some ==> n.inflight.f is Some && n.inflight.f.unwrap().from@ == f.unwrap().b)
                      && (o.inflight.f is None && f is None ==> n.inflight.f is None) })), // @label later_caller_of_the_same_key_waits_on_that_keys_registration_only
//@end
// path canary (must FAIL): this path of enqueue is not vacuous
//@region foyer-memory/src/inflight.rs :: impl~InflightManager<E, S, I> where E: Eviction, E::Key: Key/fn enqueue name=canary_enqueue_join_path whole=1 sub=@(?m)\.entry\(([^|]+), \|(\w+)\| (.+), \|(\w+)\| (.+)\)( \{)?$@.entry(\1, |verif_e: &InflightEntry| -> (r: bool) ensures verif_e.hash == \1 ==> r == (*key == verif_e.key) /* #label the_table_is_probed_by_key_equivalence_not_by_hash */ { let \2 = verif_e; \3 }, |verif_e: &InflightEntry| -> (r: u64) ensures r == verif_e.hash /* #label rehash_closure_returns_the_hash_the_element_was_stored_under */ { let \4 = verif_e; \5 })\6@ sub=@f\.map\(erase_required_fetch_builder\)@verif_erase(f)@
//@head
    pub fn canary_enqueue_join_path(&mut self, hash: u64, key: &KeyT, f: Option<BuilderT>) -> (r: Enqueue)
        requires wf(old(self).inflights.v@, old(self).next_id), old(self).next_id < usize::MAX,
        ensures forall|i: int| reg_at(old(self).inflights.v@, hash, *key, i) ==> final(self).next_id == 777,
//@end

// ---- take: removes the registration of exactly (hash, key) -- with an id, only if it is that leader's --, sets THAT
// registration's close flag, returns all its waiters; anything else leaves the table and every flag alone
//@region foyer-memory/src/inflight.rs :: impl~InflightManager<E, S, I> where E: Eviction, E::Key: Key/fn take name=take whole=1 rules=option-map sub=@(?m)\.entry\(([^|]+), \|(\w+)\| (.+), \|(\w+)\| (.+)\)( \{)?$@.entry(\1, |verif_e: &InflightEntry| -> (r: bool) ensures verif_e.hash == \1 ==> r == (*key == verif_e.key) /* #label the_table_is_probed_by_key_equivalence_not_by_hash */ { let \2 = verif_e; \3 }, |verif_e: &InflightEntry| -> (r: u64) ensures r == verif_e.hash /* #label rehash_closure_returns_the_hash_the_element_was_stored_under */ { let \4 = verif_e; \5 })\6@ subopt=@(\w+)\.close\.store\(@verif_closed.store(&\1.close, @
//@head
    pub fn take(&mut self, hash: u64, key: &KeyT, id: Option<usize>, verif_closed: &mut ClosedLog) -> (r: Option<Vec<TxT>>)
        requires wf(old(self).inflights.v@, old(self).next_id),
        ensures
            wf(final(self).inflights.v@, final(self).next_id) && final(self).next_id == old(self).next_id,
            unregistered(old(self).inflights.v@, hash, *key) ==> r is None && final(self).inflights.v@ == old(self).inflights.v@ && final(verif_closed).stores@ == old(verif_closed).stores@, // @label take_of_an_unregistered_key_changes_nothing
            forall|i: int| reg_at(old(self).inflights.v@, hash, *key, i) && (id matches Some(x) && x != old(self).inflights.v@[i].inflight.id) ==>
                r is None && final(self).inflights.v@ == old(self).inflights.v@ && final(verif_closed).stores@ == old(verif_closed).stores@, // @label take_under_another_leaders_id_changes_nothing
            forall|i: int| reg_at(old(self).inflights.v@, hash, *key, i) && (id is None || id == Some(old(self).inflights.v@[i].inflight.id)) ==>
                r == Some(old(self).inflights.v@[i].inflight.notifiers)
                && removed_at(final(self).inflights.v@, old(self).inflights.v@, i)
                && final(verif_closed).stores@ == old(verif_closed).stores@.push((old(self).inflights.v@[i].inflight.close.cell@, true)), // @label take_removes_only_that_keys_registration_sets_its_close_flag_and_returns_all_its_waiters
//@end
// path canary (must FAIL): this path of take is not vacuous
//@region foyer-memory/src/inflight.rs :: impl~InflightManager<E, S, I> where E: Eviction, E::Key: Key/fn take name=canary_take_removal_path whole=1 rules=option-map sub=@(?m)\.entry\(([^|]+), \|(\w+)\| (.+), \|(\w+)\| (.+)\)( \{)?$@.entry(\1, |verif_e: &InflightEntry| -> (r: bool) ensures verif_e.hash == \1 ==> r == (*key == verif_e.key) /* #label the_table_is_probed_by_key_equivalence_not_by_hash */ { let \2 = verif_e; \3 }, |verif_e: &InflightEntry| -> (r: u64) ensures r == verif_e.hash /* #label rehash_closure_returns_the_hash_the_element_was_stored_under */ { let \4 = verif_e; \5 })\6@ subopt=@(\w+)\.close\.store\(@verif_closed.store(&\1.close, @
//@head
    pub fn canary_take_removal_path(&mut self, hash: u64, key: &KeyT, id: Option<usize>, verif_closed: &mut ClosedLog) -> (r: Option<Vec<TxT>>)
        requires wf(old(self).inflights.v@, old(self).next_id),
        ensures forall|i: int| reg_at(old(self).inflights.v@, hash, *key, i) && (id is None || id == Some(old(self).inflights.v@[i].inflight.id)) ==> final(self).next_id == 777,
//@end

// ---- fetch_or_take: only the leader (by id) of exactly (hash, key) gets an answer: a donated fetch closure is handed
// out once and the registration stays; without one the registration is removed, its flag set, its waiters returned
//@region foyer-memory/src/inflight.rs :: impl~InflightManager<E, S, I> where E: Eviction, E::Key: Key/fn fetch_or_take name=fetch_or_take whole=1 sub=@(?m)\.entry\(([^|]+), \|(\w+)\| (.+), \|(\w+)\| (.+)\)( \{)?$@.entry(\1, |verif_e: &InflightEntry| -> (r: bool) ensures verif_e.hash == \1 ==> r == (*key == verif_e.key) /* #label the_table_is_probed_by_key_equivalence_not_by_hash */ { let \2 = verif_e; \3 }, |verif_e: &InflightEntry| -> (r: u64) ensures r == verif_e.hash /* #label rehash_closure_returns_the_hash_the_element_was_stored_under */ { let \4 = verif_e; \5 })\6@ subopt=@(\w+)\.close\.store\(@verif_closed.store(&\1.close, @ sub=@f\.map\(unerase_required_fetch_builder\)@verif_unerase(f)@
//@head
    pub fn fetch_or_take(&mut self, hash: u64, key: &KeyT, id: usize, verif_closed: &mut ClosedLog) -> (r: Option<FetchOrTake>)
        requires wf(old(self).inflights.v@, old(self).next_id),
        ensures
            wf(final(self).inflights.v@, final(self).next_id) && final(self).next_id == old(self).next_id,
            unregistered(old(self).inflights.v@, hash, *key) ==> r is None && final(self).inflights.v@ == old(self).inflights.v@ && final(verif_closed).stores@ == old(verif_closed).stores@,
            forall|i: int| reg_at(old(self).inflights.v@, hash, *key, i) && id != old(self).inflights.v@[i].inflight.id ==>
                r is None && final(self).inflights.v@ == old(self).inflights.v@ && final(verif_closed).stores@ == old(verif_closed).stores@, // @label a_superseded_leader_gets_nothing_and_changes_nothing
            forall|i: int| reg_at(old(self).inflights.v@, hash, *key, i) && id == old(self).inflights.v@[i].inflight.id && old(self).inflights.v@[i].inflight.f is Some ==>
                (r matches Some(FetchOrTake::Fetch(b)) && b.b == old(self).inflights.v@[i].inflight.f.unwrap().from@)
                && final(verif_closed).stores@ == old(verif_closed).stores@
                && final(self).inflights.v@.len() == old(self).inflights.v@.len()
                && (forall|j: int| 0 <= j < old(self).inflights.v@.len() && j != i ==> final(self).inflights.v@[j] == old(self).inflights.v@[j])
                && ({ let o = old(self).inflights.v@[i]; let n = final(self).inflights.v@[i];
                      n.hash == o.hash && n.key == o.key && n.inflight.id == o.inflight.id && n.inflight.close == o.inflight.close && n.inflight.notifiers == o.inflight.notifiers && n.inflight.f is None }), // @label the_leader_of_that_key_gets_the_donated_fetch_once_and_stays_registered
            forall|i: int| reg_at(old(self).inflights.v@, hash, *key, i) && id == old(self).inflights.v@[i].inflight.id && old(self).inflights.v@[i].inflight.f is None ==>
                (r matches Some(FetchOrTake::Notifiers(n)) && n == old(self).inflights.v@[i].inflight.notifiers)
                && removed_at(final(self).inflights.v@, old(self).inflights.v@, i)
                && final(verif_closed).stores@ == old(verif_closed).stores@.push((old(self).inflights.v@[i].inflight.close.cell@, true)), // @label without_a_donated_fetch_the_leader_takes_only_that_keys_registration_and_all_its_waiters
//@end
// path canary (must FAIL): this path of fetch_or_take is not vacuous
//@region foyer-memory/src/inflight.rs :: impl~InflightManager<E, S, I> where E: Eviction, E::Key: Key/fn fetch_or_take name=canary_fetch_or_take_fetch_path whole=1 sub=@(?m)\.entry\(([^|]+), \|(\w+)\| (.+), \|(\w+)\| (.+)\)( \{)?$@.entry(\1, |verif_e: &InflightEntry| -> (r: bool) ensures verif_e.hash == \1 ==> r == (*key == verif_e.key) /* #label the_table_is_probed_by_key_equivalence_not_by_hash */ { let \2 = verif_e; \3 }, |verif_e: &InflightEntry| -> (r: u64) ensures r == verif_e.hash /* #label rehash_closure_returns_the_hash_the_element_was_stored_under */ { let \4 = verif_e; \5 })\6@ subopt=@(\w+)\.close\.store\(@verif_closed.store(&\1.close, @ sub=@f\.map\(unerase_required_fetch_builder\)@verif_unerase(f)@
//@head
    pub fn canary_fetch_or_take_fetch_path(&mut self, hash: u64, key: &KeyT, id: usize, verif_closed: &mut ClosedLog) -> (r: Option<FetchOrTake>)
        requires wf(old(self).inflights.v@, old(self).next_id),
        ensures forall|i: int| reg_at(old(self).inflights.v@, hash, *key, i) && id == old(self).inflights.v@[i].inflight.id && old(self).inflights.v@[i].inflight.f is Some ==> final(self).next_id == 777,
//@end
// path canary (must FAIL): this path of fetch_or_take is not vacuous
//@region foyer-memory/src/inflight.rs :: impl~InflightManager<E, S, I> where E: Eviction, E::Key: Key/fn fetch_or_take name=canary_fetch_or_take_removal_path whole=1 sub=@(?m)\.entry\(([^|]+), \|(\w+)\| (.+), \|(\w+)\| (.+)\)( \{)?$@.entry(\1, |verif_e: &InflightEntry| -> (r: bool) ensures verif_e.hash == \1 ==> r == (*key == verif_e.key) /* #label the_table_is_probed_by_key_equivalence_not_by_hash */ { let \2 = verif_e; \3 }, |verif_e: &InflightEntry| -> (r: u64) ensures r == verif_e.hash /* #label rehash_closure_returns_the_hash_the_element_was_stored_under */ { let \4 = verif_e; \5 })\6@ subopt=@(\w+)\.close\.store\(@verif_closed.store(&\1.close, @ sub=@f\.map\(unerase_required_fetch_builder\)@verif_unerase(f)@
//@head
    pub fn canary_fetch_or_take_removal_path(&mut self, hash: u64, key: &KeyT, id: usize, verif_closed: &mut ClosedLog) -> (r: Option<FetchOrTake>)
        requires wf(old(self).inflights.v@, old(self).next_id),
        ensures forall|i: int| reg_at(old(self).inflights.v@, hash, *key, i) && id == old(self).inflights.v@[i].inflight.id && old(self).inflights.v@[i].inflight.f is None ==> final(self).next_id == 777,
//@end

}

} // verus!

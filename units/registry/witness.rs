    // Replay of the REGISTRY contracts on the real InflightManager (real hashbrown): random operation sequences over a few
    // keys that collide pairwise (hash = key % 2), compared step by step with a list model of the registrations.
    use std::sync::atomic::AtomicUsize;
    use foyer_common::hasher::ModHasher;
    use crate::{cache::CacheProperties, eviction::fifo::Fifo, indexer::hash_table::HashTableIndexer};
    type VE = Fifo<u8, u8, CacheProperties>;
    type VM = InflightManager<VE, ModHasher, HashTableIndexer<VE>>;
    struct Reg { hash: u64, key: u8, id: usize, waiters: usize, donated: Option<usize>, close: Arc<AtomicBool> }

    fn builder(tag: usize, ran: Arc<AtomicUsize>) -> RequiredFetchBuilder<u8, u8, CacheProperties, ()> {
        Box::new(move |_ctx: &mut ()| { ran.store(tag, Ordering::Relaxed); Box::pin(async move { Ok(FetchTarget::from(0u8)) }) })
    }

    #[test]
    fn verif_witness_registry() {
        let seed0: u64 = std::env::var("VERIF_SEED").ok().and_then(|s| s.parse().ok()).unwrap_or(1);
        let mut found: Vec<String> = vec![];
        for round in 0..400u64 {
            let mut s = seed0.wrapping_mul(0x9E3779B97F4A7C15).wrapping_add(round.wrapping_mul(0xD1B54A32D192ED03)) | 1;
            let mut next = move || { s ^= s << 13; s ^= s >> 7; s ^= s << 17; s };
            let mut m = VM::new();
            let mut model: Vec<Reg> = vec![];
            let mut next_id = 0usize;
            let mut trace: Vec<String> = vec![];
            let ran = Arc::new(AtomicUsize::new(0));
            let mut tag = 0usize;
            let mut bad: Option<(&'static str, String)> = None;
            for _step in 0..14 {
                let key = (next() % 4) as u8;
                let hash = (key % 2) as u64;
                let pos = model.iter().position(|r| r.hash == hash && r.key == key);
                match next() % 4 {
                    0 | 1 => {
                        let donate = next() % 2 == 0;
                        tag += 1;
                        let f = if donate { Some(builder(tag, ran.clone())) } else { None };
                        trace.push(format!("enqueue(h={hash},k={key},f={})", if donate { format!("#{tag}") } else { "None".into() }));
                        match (m.enqueue::<u8, ()>(hash, &key, f), pos) {
                            (Enqueue::Lead { id, close, required_fetch_builder, .. }, None) => {
                                if id != next_id { bad = Some(("one_registration_per_key_and_unique_leader_ids", format!("leader id {id}, expected {next_id}"))); }
                                if required_fetch_builder.is_some() != donate { bad = Some(("first_caller_of_a_key_leads_with_the_close_flag_the_table_stores", "the leader's own fetch closure was not handed back".into())); }
                                next_id += 1;
                                model.push(Reg { hash, key, id, waiters: 1, donated: None, close });
                            }
                            (Enqueue::Wait(_), Some(i)) => {
                                model[i].waiters += 1;
                                if model[i].donated.is_none() && donate { model[i].donated = Some(tag); }
                            }
                            (Enqueue::Lead { .. }, Some(_)) => bad = Some(("later_caller_of_the_same_key_waits_on_that_keys_registration_only", "a caller of a registered key leads a second fetch".into())),
                            (Enqueue::Wait(_), None) => bad = Some(("first_caller_of_a_key_leads_with_the_close_flag_the_table_stores", "the first caller of a key waits on another key's registration".into())),
                        }
                    }
                    2 => {
                        let id = match next() % 3 { 0 => None, 1 => pos.map(|i| model[i].id).or(Some(next_id + 7)), _ => Some((next() % 6) as usize) };
                        trace.push(format!("take(h={hash},k={key},id={id:?})"));
                        let r = m.take(hash, &key, id);
                        let expect = pos.filter(|&i| id.is_none() || id == Some(model[i].id));
                        match (r, expect) {
                            (Some(n), Some(i)) => {
                                let reg = model.remove(i);
                                if n.len() != reg.waiters { bad = Some(("take_removes_only_that_keys_registration_sets_its_close_flag_and_returns_all_its_waiters", format!("{} waiters returned, {} registered", n.len(), reg.waiters))); }
                                if !reg.close.load(Ordering::Relaxed) { bad = Some(("take_removes_only_that_keys_registration_sets_its_close_flag_and_returns_all_its_waiters", "the close flag handed to the leader was not set".into())); }
                            }
                            (None, None) => {}
                            (Some(n), None) => bad = Some((if pos.is_some() { "take_under_another_leaders_id_changes_nothing" } else { "take_of_an_unregistered_key_changes_nothing" }, format!("took {} waiters of another registration", n.len()))),
                            (None, Some(_)) => bad = Some(("take_removes_only_that_keys_registration_sets_its_close_flag_and_returns_all_its_waiters", "the registration of the key was not found".into())),
                        }
                    }
                    _ => {
                        let id = if next() % 2 == 0 { pos.map(|i| model[i].id).unwrap_or(next_id + 7) } else { (next() % 6) as usize };
                        trace.push(format!("fetch_or_take(h={hash},k={key},id={id})"));
                        let r = m.fetch_or_take::<u8, ()>(hash, &key, id);
                        let expect = pos.filter(|&i| id == model[i].id);
                        match (r, expect) {
                            (None, None) => {}
                            (Some(FetchOrTake::Fetch(f)), Some(i)) => {
                                ran.store(0, Ordering::Relaxed);
                                drop(f(&mut ()));
                                let got = ran.load(Ordering::Relaxed);
                                if model[i].donated != Some(got) { bad = Some(("the_leader_of_that_key_gets_the_donated_fetch_once_and_stays_registered", format!("got fetch closure #{got}, donated {:?}", model[i].donated))); }
                                model[i].donated = None;
                            }
                            (Some(FetchOrTake::Notifiers(n)), Some(i)) => {
                                let reg = model.remove(i);
                                if reg.donated.is_some() { bad = Some(("the_leader_of_that_key_gets_the_donated_fetch_once_and_stays_registered", format!("donated fetch #{:?} lost", reg.donated))); }
                                if n.len() != reg.waiters { bad = Some(("without_a_donated_fetch_the_leader_takes_only_that_keys_registration_and_all_its_waiters", format!("{} waiters returned, {} registered", n.len(), reg.waiters))); }
                                if !reg.close.load(Ordering::Relaxed) { bad = Some(("without_a_donated_fetch_the_leader_takes_only_that_keys_registration_and_all_its_waiters", "close flag not set".into())); }
                            }
                            (Some(_), None) => bad = Some(("a_superseded_leader_gets_nothing_and_changes_nothing", "a caller that does not lead this key's fetch was answered".into())),
                            (None, Some(_)) => bad = Some(("the_table_is_probed_by_key_equivalence_not_by_hash", "the leader of the key got no answer (its registration was not found)".into())),
                        }
                    }
                }
                // no registration that is still in the model may have been closed
                if bad.is_none() { if let Some(r) = model.iter().find(|r| r.close.load(Ordering::Relaxed)) { bad = Some(("take_removes_only_that_keys_registration_sets_its_close_flag_and_returns_all_its_waiters", format!("fetch of key {} (still registered) was closed", r.key))); } }
                if bad.is_some() { break; }
            }
            if let Some((label, what)) = bad {
                found.push(format!("WITNESS {label} :: keys collide pairwise (hash = key % 2); {} => {what}", trace.join("; ")));
                if found.len() >= 3 { break; }
            }
        }
        found.sort_by_key(|f| f.len());
        for f in found.iter().take(3) { println!("{f}"); }
        println!("WITNESS-SEARCH-DONE found={}", found.len());
    }

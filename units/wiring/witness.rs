    // Executable restatement of the WIRING contracts on the real builder (replay only): whatever the order of the builder
    // calls, close() offers the resident entry to the disk tier iff flush-on-close was configured, and an insert is
    // offered at once iff write-on-insertion was configured. The admission recorder sees every Store::enqueue.
    use foyer_storage::test_utils::{Record, Recorder};

    #[tokio::test]
    async fn verif_witness_wiring() {
        let mut found: Vec<String> = vec![];
        const KB: usize = 1024;
        let orders = ["with_policy, with_flush_on_close", "with_flush_on_close, with_policy",
                      "with_flush_on_close, with_name, with_policy, with_metrics_registry", "with_policy, with_name, with_flush_on_close"];
        for order in 0u8..4 {
            for policy in [HybridCachePolicy::WriteOnEviction, HybridCachePolicy::WriteOnInsertion] {
                for flush in [false, true] {
                    let dir = tempfile::tempdir().unwrap();
                    let recorder = Recorder::default();
                    let hybrid = tests::open_ordered_for_witness(dir.path(), order, policy, flush, recorder.clone()).await;
                    hybrid.insert(1, vec![1; 7 * KB]);
                    hybrid.storage().wait().await;
                    let at_insert = recorder.dump().iter().filter(|r| matches!(r, Record::Admit(1))).count();
                    let want_at_insert = if policy == HybridCachePolicy::WriteOnInsertion { 1 } else { 0 };
                    if at_insert != want_at_insert {
                        let label = if order % 2 == 0 { "with_flush_on_close_keeps_the_policy_as_configured" } else { "with_policy_sets_the_policy" };
                        found.push(format!("WITNESS {label} :: builder calls [{}] with {policy:?}, flush_on_close={flush}: insert(1) offered the entry to the disk tier {at_insert} time(s), expected {want_at_insert}", orders[order as usize]));
                    }
                    hybrid.close().await.unwrap();
                    let at_close = recorder.dump().iter().filter(|r| matches!(r, Record::Admit(1))).count() - at_insert;
                    // with the pipe installed (write-on-eviction) the close-time flush offers the resident entry iff configured;
                    // without a pipe (write-on-insertion) close has nothing to hand over
                    let want_at_close = if flush && policy == HybridCachePolicy::WriteOnEviction { 1 } else { 0 };
                    if at_close != want_at_close {
                        let label = if flush { "with_flush_on_close_sets_the_flag" } else if order % 2 == 1 { "with_policy_keeps_flush_on_close_as_configured" } else { "with_flush_on_close_sets_the_flag" };
                        found.push(format!("WITNESS {label} :: builder calls [{}] with {policy:?}, flush_on_close={flush}: insert(1); close() offered the entry to the disk tier {at_close} time(s), expected {want_at_close}", orders[order as usize]));
                    }
                }
            }
        }
        // the flush buffer: a resident set that exactly fits the configured buffer pool (1 flusher) survives close + reopen
        {
            let dir = tempfile::tempdir().unwrap();
            let hybrid = tests::open_pool_for_witness(dir.path(), 64 * KB).await;
            for k in 0..16u64 { hybrid.insert(k, vec![k as u8; 3 * KB]); }
            hybrid.close().await.unwrap();
            drop(hybrid);
            let hybrid = tests::open_pool_for_witness(dir.path(), 64 * KB).await;
            let mut missing = vec![];
            for k in 0..16u64 { if hybrid.get(&k).await.unwrap().is_none() { missing.push(k); } }
            if !missing.is_empty() {
                found.push(format!("WITNESS every_flusher_gets_its_equal_share_of_the_configured_buffer_pool :: write-on-eviction, flush on close, 1 flusher, buffer pool 64 KiB: insert 16 entries of 3 KiB (one page each = 64 KiB); close(); reopen => keys {:?} are not on disk", missing));
            }
            hybrid.close().await.unwrap();
        }
        for f in found.iter().take(3) { println!("{f}"); }
        println!("WITNESS-SEARCH-DONE found={}", found.len());
    }

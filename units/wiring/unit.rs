// UNIT wiring — the hybrid cache builder carries what the user configured (write policy, flush-on-close) UNCHANGED through
// every builder call of its three phases into HybridCache::new, and HybridCache::new puts exactly these two values into
// the cache's Inner (C15: "with flush-on-close disabled nothing is written at close"; C12: the configured policy decides).
// Each setter sets its own option and nothing else (full frame over the option struct).
#![allow(unused_imports, unused_variables, dead_code, unused_mut)]
use vstd::prelude::*;
verus! {

//@item foyer/src/hybrid/cache.rs :: enum HybridCachePolicy rules=derive-structural
//@item foyer/src/hybrid/cache.rs :: struct HybridCacheOptions rules=derive-structural subopt=@(?:#\[cfg\(feature = "tracing"\)\]\s*)?pub tracing_options: TracingOptions,@@

// ---- collaborators of the builder: opaque values with identity (a ghost id), so "the same one" can be stated
#[derive(PartialEq, Eq, Structural)] pub struct NameT { pub id: u64 }
impl Clone for NameT { fn clone(&self) -> (r: Self) ensures r == *self { NameT { id: self.id } } }
pub struct NameSrcT { pub id: u64 }
impl NameSrcT { pub fn into(self) -> (r: NameT) ensures r.id == self.id { NameT { id: self.id } } }
#[derive(PartialEq, Eq, Structural)] pub struct ListenerT { pub id: u64 }
#[derive(PartialEq, Eq, Structural)] pub struct RegistryT { pub id: u64 }

pub struct HybridCacheBuilder {
    pub name: NameT,
    pub options: HybridCacheOptions,
    pub event_listener: Option<ListenerT>,
    pub registry: RegistryT,
}

impl HybridCacheOptions {
//@fn foyer/src/hybrid/cache.rs :: impl~^impl Default for HybridCacheOptions/fn default ret=r subopt=@(?:#\[cfg\(feature = "tracing"\)\]\s*)?tracing_options: TracingOptions::default\(\),@@ sub=@HybridCachePolicy::default\(\)@verif_default_policy()@
//@spec
        ensures r.flush_on_close, r.policy == HybridCachePolicy::WriteOnEviction, // @label by_default_close_flushes_and_the_policy_is_write_on_eviction
//@end
}
/// `#[derive(Default)]` + `#[default]` on WriteOnEviction (foyer/src/hybrid/cache.rs): the derive is not extractable
pub fn verif_default_policy() -> (r: HybridCachePolicy) ensures r == HybridCachePolicy::WriteOnEviction { HybridCachePolicy::WriteOnEviction }

impl HybridCacheBuilder {
//@fn foyer/src/hybrid/builder.rs :: impl~^impl<K, V> HybridCacheBuilder<K, V>/fn with_name ret=r rules=mut-self sub=@impl Into<Cow<'static, str>>@NameSrcT@
//@spec
        ensures r.options == self.options, // @label with_name_keeps_policy_and_flush_on_close
            r.event_listener == self.event_listener, r.registry == self.registry,
//@end
//@fn foyer/src/hybrid/builder.rs :: impl~^impl<K, V> HybridCacheBuilder<K, V>/fn with_policy ret=r rules=mut-self
//@spec
        ensures r.options.policy == policy, // @label with_policy_sets_the_policy
            r.options.flush_on_close == self.options.flush_on_close, // @label with_policy_keeps_flush_on_close_as_configured
            r.name == self.name, r.event_listener == self.event_listener, r.registry == self.registry,
//@end
//@fn foyer/src/hybrid/builder.rs :: impl~^impl<K, V> HybridCacheBuilder<K, V>/fn with_event_listener ret=r rules=mut-self sub=@Arc<dyn EventListener<Key = K, Value = V>>@ListenerT@
//@spec
        ensures r.options == self.options, // @label with_event_listener_keeps_policy_and_flush_on_close
            r.event_listener == Some(event_listener), r.name == self.name, r.registry == self.registry,
//@end
//@fn foyer/src/hybrid/builder.rs :: impl~^impl<K, V> HybridCacheBuilder<K, V>/fn with_flush_on_close ret=r rules=mut-self
//@spec
        ensures r.options.flush_on_close == flush_on_close, // @label with_flush_on_close_sets_the_flag
            r.options.policy == self.options.policy, // @label with_flush_on_close_keeps_the_policy_as_configured
            r.name == self.name, r.event_listener == self.event_listener, r.registry == self.registry,
//@end
//@fn foyer/src/hybrid/builder.rs :: impl~^impl<K, V> HybridCacheBuilder<K, V>/fn with_metrics_registry ret=r rules=mut-self sub=@BoxedRegistry@RegistryT@ sub=@HybridCacheBuilder<K, V>@HybridCacheBuilder@
//@spec
        ensures r.options == self.options, // @label with_metrics_registry_keeps_policy_and_flush_on_close
            r.registry == registry, r.name == self.name, r.event_listener == self.event_listener,
//@end
}

// ---- phase 1 -> 2: memory(); phase 2 setters; phase 2 -> 3: storage()
pub struct MetricsT { pub id: u64 }
impl MetricsT { #[verifier::external_body] pub fn new(name: NameT, registry: &RegistryT) -> (r: MetricsT) { unimplemented!() } }
pub struct MetricsRefT { pub id: u64 }
impl Clone for MetricsRefT { fn clone(&self) -> (r: Self) ensures r == *self { MetricsRefT { id: self.id } } }
pub fn verif_arc(m: MetricsT) -> (r: MetricsRefT) { MetricsRefT { id: m.id } }
/// foyer_memory::CacheBuilder: opaque (its own fields are the memory cache's configuration, not the hybrid options)
pub struct CacheBuilder { pub id: u64 }
pub struct MemoryT { pub id: u64 }
impl Clone for MemoryT { fn clone(&self) -> (r: Self) ensures r == *self { MemoryT { id: self.id } } }
impl CacheBuilder {
    #[verifier::external_body] pub fn new(capacity: usize) -> (r: CacheBuilder) { unimplemented!() }
    #[verifier::external_body] pub fn with_name(self, name: NameT) -> (r: CacheBuilder) { unimplemented!() }
    #[verifier::external_body] pub fn with_metrics(self, m: MetricsRefT) -> (r: CacheBuilder) { unimplemented!() }
    #[verifier::external_body] pub fn with_event_listener(self, l: ListenerT) -> (r: CacheBuilder) { unimplemented!() }
    #[verifier::external_body] pub fn with_shards(self, shards: usize) -> (r: CacheBuilder) { unimplemented!() }
    #[verifier::external_body] pub fn with_eviction_config(self, c: EvictionConfigT) -> (r: CacheBuilder) { unimplemented!() }
    #[verifier::external_body] pub fn with_hash_builder(self, h: HashBuilderT) -> (r: CacheBuilder) { unimplemented!() }
    #[verifier::external_body] pub fn with_weighter(self, w: WeighterT) -> (r: CacheBuilder) { unimplemented!() }
    #[verifier::external_body] pub fn with_filter(self, f: FilterT) -> (r: CacheBuilder) { unimplemented!() }
    #[verifier::external_body] pub fn build(self) -> (r: MemoryT) { unimplemented!() }
}
pub struct EvictionConfigT { pub id: u64 }
pub struct EvictionConfigSrcT { pub id: u64 }
impl EvictionConfigSrcT { pub fn into(self) -> (r: EvictionConfigT) { EvictionConfigT { id: self.id } } }
pub struct HashBuilderT { pub id: u64 }
pub struct WeighterT { pub id: u64 }
pub struct FilterT { pub id: u64 }

pub struct HybridCacheBuilderPhaseMemory {
    pub name: NameT,
    pub options: HybridCacheOptions,
    pub metrics: MetricsRefT,
    pub builder: CacheBuilder,
}
pub struct StoreBuilder { pub id: u64, pub noop: bool }
impl StoreBuilder {
    #[verifier::external_body] pub fn new(name: NameT, memory: MemoryT, metrics: MetricsRefT) -> (r: StoreBuilder) { unimplemented!() }
    #[verifier::external_body] pub fn with_io_engine_config(self, c: IoEngineConfigT) -> (r: StoreBuilder) { unimplemented!() }
    #[verifier::external_body] pub fn with_engine_config(self, c: EngineConfigT) -> (r: StoreBuilder) { unimplemented!() }
    #[verifier::external_body] pub fn with_recover_mode(self, c: RecoverMode) -> (r: StoreBuilder) { unimplemented!() }
    #[verifier::external_body] pub fn with_compression(self, c: Compression) -> (r: StoreBuilder) { unimplemented!() }
    #[verifier::external_body] pub fn with_spawner(self, c: Spawner) -> (r: StoreBuilder) { unimplemented!() }
}
pub struct IoEngineConfigT { pub id: u64 }
pub struct EngineConfigT { pub id: u64 }
pub struct RecoverMode { pub id: u64 }
pub struct Compression { pub id: u64 }
pub struct Spawner { pub id: u64 }
pub struct HybridCacheBuilderPhaseStorage {
    pub name: NameT,
    pub options: HybridCacheOptions,
    pub metrics: MetricsRefT,
    pub memory: MemoryT,
    pub builder: StoreBuilder,
}

impl HybridCacheBuilder {
//@fn foyer/src/hybrid/builder.rs :: impl~^impl<K, V> HybridCacheBuilder<K, V>/fn memory ret=r sub=@HybridCacheBuilderPhaseMemory<K, V, DefaultHasher>\s*where\s*K: StorageKey,\s*V: StorageValue,@HybridCacheBuilderPhaseMemory@ sub=@Arc::new\(Metrics::new\(@verif_arc(MetricsT::new(@
//@spec
        ensures r.options == self.options, // @label memory_phase_starts_with_the_policy_and_flush_on_close_configured_so_far
            r.name == self.name,
//@end
}
impl HybridCacheBuilderPhaseMemory {
//@fn foyer/src/hybrid/builder.rs :: impl~^impl<K, V, S> HybridCacheBuilderPhaseMemory<K, V, S>/fn with_shards ret=r
//@spec
        ensures r.options == self.options, // @label with_shards_keeps_policy_and_flush_on_close
//@end
//@fn foyer/src/hybrid/builder.rs :: impl~^impl<K, V, S> HybridCacheBuilderPhaseMemory<K, V, S>/fn with_eviction_config ret=r sub=@impl Into<EvictionConfig>@EvictionConfigSrcT@
//@spec
        ensures r.options == self.options, // @label with_eviction_config_keeps_policy_and_flush_on_close
//@end
//@fn foyer/src/hybrid/builder.rs :: impl~^impl<K, V, S> HybridCacheBuilderPhaseMemory<K, V, S>/fn with_hash_builder ret=r sub=@<OS>\(self, hash_builder: OS\) -> HybridCacheBuilderPhaseMemory<K, V, OS>\s*where\s*OS: HashBuilder \+ Debug,@(self, hash_builder: HashBuilderT) -> HybridCacheBuilderPhaseMemory@
//@spec
        ensures r.options == self.options, // @label with_hash_builder_keeps_policy_and_flush_on_close
//@end
//@fn foyer/src/hybrid/builder.rs :: impl~^impl<K, V, S> HybridCacheBuilderPhaseMemory<K, V, S>/fn with_weighter ret=r sub=@impl Weighter<K, V>@WeighterT@
//@spec
        ensures r.options == self.options, // @label with_weighter_keeps_policy_and_flush_on_close
//@end
//@fn foyer/src/hybrid/builder.rs :: impl~^impl<K, V, S> HybridCacheBuilderPhaseMemory<K, V, S>/fn with_filter ret=r sub=@impl Filter<K, V>@FilterT@
//@spec
        ensures r.options == self.options, // @label with_filter_keeps_policy_and_flush_on_close
//@end
//@fn foyer/src/hybrid/builder.rs :: impl~^impl<K, V, S> HybridCacheBuilderPhaseMemory<K, V, S>/fn storage ret=r sub=@HybridCacheBuilderPhaseStorage<K, V, S>@HybridCacheBuilderPhaseStorage@
//@spec
        ensures r.options == self.options, // @label storage_phase_starts_with_the_policy_and_flush_on_close_configured_so_far
//@end
}
impl HybridCacheBuilderPhaseStorage {
//@fn foyer/src/hybrid/builder.rs :: impl~^impl<K, V, S> HybridCacheBuilderPhaseStorage<K, V, S>/fn with_io_engine_config ret=r sub=@impl Into<Box<dyn IoEngineConfig>>@IoEngineConfigT@
//@spec
        ensures r.options == self.options, // @label with_io_engine_config_keeps_policy_and_flush_on_close
//@end
//@fn foyer/src/hybrid/builder.rs :: impl~^impl<K, V, S> HybridCacheBuilderPhaseStorage<K, V, S>/fn with_engine_config ret=r sub=@impl Into<Box<dyn EngineConfig<K, V, HybridCacheProperties>>>@EngineConfigT@
//@spec
        ensures r.options == self.options, // @label with_engine_config_keeps_policy_and_flush_on_close
//@end
//@fn foyer/src/hybrid/builder.rs :: impl~^impl<K, V, S> HybridCacheBuilderPhaseStorage<K, V, S>/fn with_recover_mode ret=r
//@spec
        ensures r.options == self.options, // @label with_recover_mode_keeps_policy_and_flush_on_close
//@end
//@fn foyer/src/hybrid/builder.rs :: impl~^impl<K, V, S> HybridCacheBuilderPhaseStorage<K, V, S>/fn with_compression ret=r
//@spec
        ensures r.options == self.options, // @label with_compression_keeps_policy_and_flush_on_close
//@end
//@fn foyer/src/hybrid/builder.rs :: impl~^impl<K, V, S> HybridCacheBuilderPhaseStorage<K, V, S>/fn with_spawner ret=r
//@spec
        ensures r.options == self.options, // @label with_spawner_keeps_policy_and_flush_on_close
//@end
}

// ---- build(): the options reach HybridCache::new as they are; HybridCache::new copies policy and flush_on_close into Inner
pub struct StoreT { pub id: u64 }
pub struct FlagRefT { pub id: u64 }
pub struct Inner {
    pub name: NameT,
    pub policy: HybridCachePolicy,
    pub flush_on_close: bool,
    pub closed: FlagRefT,
    pub memory: MemoryT,
    pub storage: StoreT,
    pub metrics: MetricsRefT,
}
#[verifier::external_body] pub fn verif_new_flag() -> (r: FlagRefT) { unimplemented!() }
pub struct InnerRefT { pub v: Inner }
pub fn verif_arc_inner(i: Inner) -> (r: InnerRefT) ensures r.v == i { InnerRefT { v: i } }
pub struct HybridCache { pub inner: InnerRefT }
impl HybridCache {
//@fn foyer/src/hybrid/cache.rs :: impl~^impl<K, V, S> HybridCache<K, V, S> where/fn new ret=r rules=strip-attrs sub=@name: Cow<'static, str>@name: NameT@ sub=@memory: Cache<K, V, S, HybridCacheProperties>@memory: MemoryT@ sub=@storage: Store<K, V, S, HybridCacheProperties>@storage: StoreT@ sub=@metrics: Arc<Metrics>@metrics: MetricsRefT@ sub=@Arc::new\(AtomicBool::new\(false\)\)@verif_new_flag()@ sub=@Arc::new\(inner\)@verif_arc_inner(inner)@ subopt=@(?s)let tracing_config = \{.*?\};@@ subopt=@let tracing = std::sync::atomic::AtomicBool::new\(false\);@@ subopt=@(?m)^\s*tracing,$@@ subopt=@(?m)^\s*tracing_config,$@@
//@spec
        ensures
            r.inner.v.flush_on_close == options.flush_on_close, // @label the_cache_flushes_on_close_iff_the_options_say_so
            r.inner.v.policy == options.policy, // @label the_cache_runs_the_policy_of_the_options
//@end
}
pub fn verif_ok(c: HybridCache) -> (r: Result<HybridCache, u8>) ensures r == Ok::<HybridCache, u8>(c) { Ok(c) }
pub struct BuildNewT { pub seen: Ghost<Seq<HybridCacheOptions>> }
impl BuildNewT {
    /// HybridCache::new as the builder sees it: records the options it was given
    #[verifier::external_body]
    pub fn new(&mut self, name: NameT, options: HybridCacheOptions, memory: MemoryT, storage: StoreT, metrics: MetricsRefT) -> (r: u8)
        ensures final(self).seen@ == old(self).seen@.push(options),
    { unimplemented!() }
}
//@region foyer/src/hybrid/builder.rs :: impl~^impl<K, V, S> HybridCacheBuilderPhaseStorage<K, V, S>/fn build name=build_passes_options start=/Ok\(HybridCache::new\(/ stmts=1 sub=@Ok\(HybridCache::new\(@let verif_built = (verif_new.new(@ sub=@self\.@this.@
//@head
fn build_passes_options(this: HybridCacheBuilderPhaseStorage, memory: MemoryT, storage: StoreT, verif_new: &mut BuildNewT)
    ensures final(verif_new).seen@ == old(verif_new).seen@.push(this.options), // @label build_opens_the_cache_with_the_policy_and_flush_on_close_as_configured
{
//@tail
    ;
}
//@end


// ---- the flush buffer (C15: "provided the resident set fits the configured flush buffer"): every flusher's batch buffer is
// its equal share of the configured buffer pool, rounded down to whole pages -- not less
pub struct EngineCfgT { pub buffer_pool_size: usize, pub flushers: usize }
//@region foyer-storage/src/engine/block/engine.rs :: impl~^impl<K, V, P> BlockEngineConfig<K, V, P>/fn build name=engine_flush_buffer start=/let io_buffer_size = / stmts=1 sub=@self\.@this.@
//@head
fn engine_flush_buffer(this: &EngineCfgT) -> (r: usize)
    requires this.flushers > 0,
    ensures r == this.buffer_pool_size / this.flushers, // @label every_flusher_gets_its_equal_share_of_the_configured_buffer_pool
//@tail
    io_buffer_size
//@end
pub const PAGE: usize = 4096;
pub mod bits {
    use vstd::prelude::*;
    #[verifier::external_body]
    pub fn align_down(align: usize, v: usize) -> (r: usize) requires align == 4096, ensures r == (v / 4096) * 4096 { unimplemented!() }
}
//@region foyer-storage/src/engine/block/flusher.rs :: impl~^impl<K, V, P> Flusher<K, V, P>/fn run name=flusher_batch_buffer start=/let io_buffer_size = bits::align_down/ stmts=1
//@head
fn flusher_batch_buffer(io_buffer_size: usize) -> (r: usize)
    ensures r == (io_buffer_size / 4096) * 4096, // @label the_batch_buffer_is_the_given_share_rounded_down_to_whole_pages
//@tail
    io_buffer_size
//@end

} // verus!

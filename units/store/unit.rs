// UNIT store — disk tier front door and block engine entry points (C01 c/d, C03 load mapping, C12 young skip, C15 refuses
// after close, C17 key check after disk load)
#![allow(unused_imports, unused_variables, dead_code, unused_mut)]
use vstd::prelude::*;
verus! {

global size_of usize == 8;

//@item foyer-common/src/properties.rs :: enum Age rules=derive-structural
//@item foyer-storage/src/engine/block/serde.rs :: type Sequence
//@item foyer-storage/src/engine/block/manager.rs :: type BlockId
//@item foyer-storage/src/engine/block/indexer.rs :: struct EntryAddress rules=derive-clone-copy
//@item foyer-storage/src/engine/block/tombstone.rs :: struct Tombstone rules=derive-clone-copy
//@item foyer-storage/src/io/mod.rs :: const PAGE

// =====================================================================================================
// PRELUDE
// =====================================================================================================
#[derive(Debug)]
pub struct Error { pub k: ErrorKind }
pub type Result<T> = core::result::Result<T, Error>;
#[derive(Clone, Copy, PartialEq, Eq, Structural, Debug)]
pub enum ErrorKind { Io, External, Config, ChannelClosed, TaskCancelled, Join, Parse, BufferSizeLimit, ChecksumMismatch, MagicMismatch, OutOfRange, NoSpace, Closed, Recover }
impl Error {
    pub fn kind(&self) -> (r: ErrorKind) ensures r == self.k { self.k }
}
#[derive(Clone, Copy)]
pub enum Ordering { Relaxed, Acquire, Release, SeqCst }
pub struct Instant { pub t: u64 }
impl Instant { #[verifier::external_body] pub fn now() -> Instant { unimplemented!() } }

pub struct KeyT { pub k: u64 }
pub struct ValueT { pub v: u64 }
pub trait Hash {}
pub trait Equivalent<K> {
    spec fn eqv(&self, k: &K) -> bool;
    fn equivalent(&self, k: &K) -> (b: bool) ensures b == self.eqv(k);
}
pub struct PropsT { pub age_: Option<Age> }
impl PropsT { pub fn age(&self) -> (r: Option<Age>) ensures r == self.age_ { self.age_ } }
pub struct PieceT { pub key_: KeyT, pub hash_: u64, pub props: PropsT, pub id: int }
impl PieceT {
    pub fn key(&self) -> (r: &KeyT) ensures *r == self.key_ { &self.key_ }
    pub fn hash(&self) -> (r: u64) ensures r == self.hash_ { self.hash_ }
    pub fn properties(&self) -> (r: &PropsT) ensures *r == self.props { &self.props }
    #[verifier::external_body] pub fn value(&self) -> (r: &ValueT) { unimplemented!() }
}
impl KeyT { #[verifier::external_body] pub fn estimated_size(&self) -> (r: usize) ensures r <= usize::MAX / 4 { unimplemented!() } }
impl ValueT { #[verifier::external_body] pub fn estimated_size(&self) -> (r: usize) ensures r <= usize::MAX / 4 { unimplemented!() } }
pub struct Populated { pub age: Age }
pub enum Load { Entry { key: KeyT, value: ValueT, populated: Populated }, Piece { piece: PieceT, populated: Populated }, Throttled, Miss }

pub struct FlagT { pub v: bool }
impl FlagT {
    #[verifier::external_body]
    pub fn load(&self, o: Ordering) -> (r: bool) ensures r == self.v { unimplemented!() }
    #[verifier::external_body]
    pub fn store(&mut self, v: bool, o: Ordering) ensures final(self).v == v { }
}
pub struct CounterT { pub n: Sequence }
impl CounterT {
    /// AtomicU64::fetch_add (wrapping)
    #[verifier::external_body]
    pub fn fetch_add(&mut self, d: u64, o: Ordering) -> (r: u64)
        ensures r == old(self).n, final(self).n == (if old(self).n + d > u64::MAX { (old(self).n + d - u64::MAX - 1) as u64 } else { (old(self).n + d) as u64 }),
    { unimplemented!() }
    #[verifier::external_body]
    pub fn load(&self, o: Ordering) -> (r: u64) ensures r == self.n { unimplemented!() }
}
pub struct SizeT { pub n: usize }
impl SizeT { #[verifier::external_body] pub fn load(&self, o: Ordering) -> (r: usize) ensures r == self.n { unimplemented!() } }
pub struct GaugeT { pub g: u8 }
impl GaugeT { #[verifier::external_body] pub fn increase(&self, v: u64) { } }

pub struct InvalidStats { pub block: BlockId, pub size: usize }
pub enum Submission {
    CacheEntry { piece: PieceT, estimated_size: usize, sequence: Sequence },
    Tombstone { tombstone: Tombstone, stats: Option<InvalidStats> },
}
/// the flushers' submit queues as one log of (flusher index, submission)
pub struct FlushersT { pub n: usize, pub log: Ghost<Seq<(int, Submission)>> }
impl FlushersT {
    pub fn len(&self) -> (r: usize) ensures r == self.n { self.n }
    /// stands for `flushers[i].submit(s)`
    #[verifier::external_body]
    pub fn submit_to(&mut self, i: usize, s: Submission)
        requires i < old(self).n,
        ensures final(self).n == old(self).n, final(self).log@ == old(self).log@.push((i as int, s)),
    { }
}
/// disk index (contracts of the real one: unit indexer); here only the order of effects matters
pub struct IndexerT { pub tombstones: Ghost<Seq<(u64, Sequence)>>, pub removed: Ghost<Seq<u64>>, pub map: Ghost<Map<u64, EntryAddress>> }
impl IndexerT {
    #[verifier::external_body]
    pub fn insert_tombstone(&mut self, hash: u64, sequence: Sequence) -> (r: Option<EntryAddress>)
        ensures final(self).tombstones@ == old(self).tombstones@.push((hash, sequence)), final(self).removed@ == old(self).removed@,
    { unimplemented!() }
    #[verifier::external_body]
    pub fn get(&self, hash: u64) -> (r: Option<EntryAddress>)
        ensures r == (if self.map@.contains_key(hash) { Some(self.map@[hash]) } else { None::<EntryAddress> }),
    { unimplemented!() }
    #[verifier::external_body]
    pub fn remove(&mut self, hash: u64) -> (r: Option<EntryAddress>)
        ensures final(self).removed@ == old(self).removed@.push(hash), final(self).tombstones@ == old(self).tombstones@,
    { unimplemented!() }
}
pub mod bits {
    use super::*;
    #[verifier::external_body]
    pub fn align_up(align: usize, v: usize) -> (r: usize)
        requires align == 4096, v <= usize::MAX - 4096,
        ensures r >= v, r - v < 4096, r % 4096 == 0,
    { unimplemented!() }
}
/// `Option<EntryAddress>::map(|addr| InvalidStats { block: addr.block, size: bits::align_up(PAGE, addr.len as usize) })`
#[verifier::external_body]
pub fn verif_map_stats(a: Option<EntryAddress>) -> (r: Option<InvalidStats>)
    ensures a.is_some() == r.is_some(), a.is_some() ==> r.unwrap().block == a.unwrap().block,
{ unimplemented!() }

pub struct MetricsT { pub storage_block_engine_enqueue_skip: GaugeT, pub storage_queue_channel_overflow: GaugeT }
pub struct EngineInnerT {
    pub active: FlagT, pub sequence: CounterT, pub submit_queue_size: SizeT, pub submit_queue_size_threshold: usize,
    pub flushers: FlushersT, pub indexer: IndexerT, pub metrics: MetricsT,
}
pub struct BlockEngineT { pub inner: EngineInnerT }

impl BlockEngineT {
// ---- BlockEngine::enqueue: refuses after close, skips young entries, sheds on overload, else one submission with a
// fresh sequence
//@region foyer-storage/src/engine/block/engine.rs :: impl~^impl<K, V, P> BlockEngine<K, V, P> where/fn enqueue name=engine_enqueue whole=1 rules=drop-tracing sub=@self\.inner\.flushers\[(.*?)\]\.submit\(@self.inner.flushers.submit_to(\1, @
//@head
    fn engine_enqueue(&mut self, piece: PieceT, estimated_size: usize)
        requires old(self).inner.flushers.n > 0, old(self).inner.sequence.n < u64::MAX, // the 64-bit sequence counter does not wrap (assumption)
        ensures
            final(self).inner.active == old(self).inner.active,
            !old(self).inner.active.v ==> final(self).inner.flushers.log@ == old(self).inner.flushers.log@ && final(self).inner.sequence == old(self).inner.sequence, // @label writes_after_close_are_ignored
            piece.props.age_ == Some(Age::Young) ==> final(self).inner.flushers.log@ == old(self).inner.flushers.log@ && final(self).inner.sequence == old(self).inner.sequence, // @label just_loaded_young_entry_is_not_rewritten
            old(self).inner.submit_queue_size.n > old(self).inner.submit_queue_size_threshold ==> final(self).inner.flushers.log@ == old(self).inner.flushers.log@ && final(self).inner.sequence == old(self).inner.sequence, // @label overload_sheds_the_write_without_taking_a_sequence
            old(self).inner.active.v && piece.props.age_ != Some(Age::Young) && old(self).inner.submit_queue_size.n <= old(self).inner.submit_queue_size_threshold ==> {
                &&& final(self).inner.flushers.log@.len() == old(self).inner.flushers.log@.len() + 1
                &&& final(self).inner.flushers.log@.subrange(0, old(self).inner.flushers.log@.len() as int) =~= old(self).inner.flushers.log@
                &&& final(self).inner.flushers.log@.last().0 == (piece.hash_ as usize) % old(self).inner.flushers.n
                &&& (match final(self).inner.flushers.log@.last().1 {
                        Submission::CacheEntry { piece: p, estimated_size: es, sequence: s } => p == piece && es == estimated_size && s == old(self).inner.sequence.n,
                        _ => false })
                &&& final(self).inner.sequence.n == old(self).inner.sequence.n + 1
            }, // @label admitted_write_is_submitted_once_with_a_fresh_sequence
//@end

// ---- BlockEngine::delete: tombstone goes into the index synchronously, before the submission
//@region foyer-storage/src/engine/block/engine.rs :: impl~^impl<K, V, P> BlockEngine<K, V, P> where/fn delete name=engine_delete whole=1 rules=drop-tracing sub=@let this = self\.clone\(\);@let this = self;@ sub=@this\.inner\.flushers\[(.*?)\]\.submit\(@this.inner.flushers.submit_to(\1, @ sub=@(?s)let stats = self\s*\.inner\s*\.indexer\s*\.insert_tombstone\(([^()]*)\)\s*\.map\(\|addr\| InvalidStats \{.*?\}\);@let stats = verif_map_stats(self.inner.indexer.insert_tombstone(\1));@
//@head
    fn engine_delete(&mut self, hash: u64)
        requires old(self).inner.flushers.n > 0, old(self).inner.sequence.n < u64::MAX, // the 64-bit sequence counter does not wrap (assumption)
        ensures
            !old(self).inner.active.v ==> final(self).inner.flushers.log@ == old(self).inner.flushers.log@ && final(self).inner.indexer.tombstones@ == old(self).inner.indexer.tombstones@, // @label deletes_after_close_are_ignored
            old(self).inner.active.v ==> {
                &&& final(self).inner.indexer.tombstones@ == old(self).inner.indexer.tombstones@.push((hash, old(self).inner.sequence.n))
                &&& final(self).inner.flushers.log@.len() == old(self).inner.flushers.log@.len() + 1
                &&& final(self).inner.flushers.log@.last().0 == (hash as usize) % old(self).inner.flushers.n
                &&& (match final(self).inner.flushers.log@.last().1 {
                        Submission::Tombstone { tombstone, stats } => tombstone.hash == hash && tombstone.sequence == old(self).inner.sequence.n,
                        _ => false })
                &&& final(self).inner.sequence.n == old(self).inner.sequence.n + 1
            }, // @label delete_inserts_tombstone_in_index_and_logs_it_with_the_same_fresh_sequence
//@end
}

// =====================================================================================================
// Store (front door)
// =====================================================================================================
pub enum StorageFilterResult { Admit, Reject, Throttled(u64) }
impl StorageFilterResult {
//@fn foyer-storage/src/filter.rs :: impl~^impl StorageFilterResult$/fn is_admitted ret=r
//@spec
        ensures r == (*self is Admit), // @label only_admit_is_admitted
//@end
//@fn foyer-storage/src/filter.rs :: impl~^impl StorageFilterResult$/fn is_rejected ret=r
//@spec
        ensures r == (*self is Reject), // @label only_reject_is_rejected
//@end
}
pub struct KeeperT { pub held: Ghost<Seq<PieceT>>, pub lookup: Ghost<Map<(u64, KeyT), PieceT>> }
impl KeeperT {
    #[verifier::external_body]
    pub fn insert(&mut self, piece: PieceT) -> (r: PieceT) ensures r == piece, final(self).held@ == old(self).held@.push(piece) { unimplemented!() }
    /// contract of the real Keeper::get (unit keeper): only a piece whose key is equivalent to the requested key
    #[verifier::external_body]
    pub fn get<Q: Hash + Equivalent<KeyT> + ?Sized>(&self, hash: u64, key: &Q) -> (r: Option<PieceT>)
        ensures r.is_some() ==> key.eqv(&r.unwrap().key_),
    { unimplemented!() }
}
pub struct HasherT { pub h: u8 }
impl HasherT {
    pub uninterp spec fn spec_hash<Q: ?Sized>(&self, key: &Q) -> u64;
    #[verifier::external_body] pub fn hash_one<Q: Hash + ?Sized>(&self, key: &Q) -> (r: u64) ensures r == self.spec_hash(key) { unimplemented!() }
}
impl Hash for KeyT {}
impl Equivalent<KeyT> for KeyT {
    open spec fn eqv(&self, k: &KeyT) -> bool { self.k == k.k }
    fn equivalent(&self, k: &KeyT) -> (b: bool) { self.k == k.k }
}
/// the engine as seen from the store: enqueue / delete / load are effects with logs; what `load` returns is unconstrained
/// (whatever the device and the index hold)
pub struct EngineT { pub enqueued: Ghost<Seq<(PieceT, usize)>>, pub deleted: Ghost<Seq<u64>>, pub loads: Ghost<Seq<u64>>, pub admit: Ghost<bool> }
impl EngineT {
    #[verifier::external_body]
    pub fn enqueue(&mut self, piece: PieceT, estimated_size: usize)
        ensures final(self).enqueued@ == old(self).enqueued@.push((piece, estimated_size)), final(self).deleted@ == old(self).deleted@, final(self).loads@ == old(self).loads@, final(self).admit@ == old(self).admit@ { }
    #[verifier::external_body]
    pub fn delete(&mut self, hash: u64)
        ensures final(self).deleted@ == old(self).deleted@.push(hash), final(self).enqueued@ == old(self).enqueued@, final(self).loads@ == old(self).loads@, final(self).admit@ == old(self).admit@ { }
    #[verifier::external_body]
    pub fn load(&mut self, hash: u64) -> (r: Result<Load>)
        ensures final(self).loads@ == old(self).loads@.push(hash), final(self).enqueued@ == old(self).enqueued@, final(self).deleted@ == old(self).deleted@ { unimplemented!() }
    #[verifier::external_body]
    pub fn filter(&self, hash: u64, estimated_size: usize) -> (r: StorageFilterResult)
        ensures (r is Admit) == self.admit@ { unimplemented!() }
    /// whether the disk index currently has an address for the hash (unconstrained: depends on flusher progress)
    #[verifier::external_body]
    pub fn may_contains(&self, hash: u64) -> bool { unimplemented!() }
}
pub struct EntrySerializer { }
impl EntrySerializer { #[verifier::external_body] pub fn estimated_size(k: &KeyT, v: &ValueT) -> usize { unimplemented!() } }
pub struct StoreInnerT { pub hasher: HasherT, pub keeper: KeeperT, pub engine: EngineT }
pub struct StoreT { pub inner: StoreInnerT }

impl StoreT {
//@region foyer-storage/src/store.rs :: impl~^impl<K, V, S, P> Store<K, V, S, P> where/fn filter name=store_filter whole=1
//@head
    fn filter(&self, hash: u64, estimated_size: usize) -> (r: StorageFilterResult)
        ensures (r is Admit) == self.inner.engine.admit@,
//@end

//@region foyer-storage/src/store.rs :: impl~^impl<K, V, S, P> Store<K, V, S, P> where/fn may_contains name=store_may_contains whole=1
//@head
    fn may_contains<Q: Hash + Equivalent<KeyT> + ?Sized>(&self, key: &Q) -> (r: bool)
//@end

//@region foyer-storage/src/store.rs :: impl~^impl<K, V, S, P> Store<K, V, S, P> where/fn delete name=store_delete whole=1 rules=drop-metrics
//@head
    fn delete<Q: Hash + Equivalent<KeyT> + ?Sized>(&mut self, key: &Q)
        ensures
            final(self).inner.engine.deleted@ == old(self).inner.engine.deleted@.push(old(self).inner.hasher.spec_hash(key)), // @label delete_reaches_the_engine_with_the_keys_hash
            final(self).inner.engine.enqueued@ == old(self).inner.engine.enqueued@,
            final(self).inner.keeper == old(self).inner.keeper, final(self).inner.hasher == old(self).inner.hasher,
            final(self).inner.engine.admit@ == old(self).inner.engine.admit@, final(self).inner.engine.loads@ == old(self).inner.engine.loads@,
//@end

// ---- Store::enqueue: admitted (or forced) pieces go to write queue + engine; a rejected update deletes the older copy
//@region foyer-storage/src/store.rs :: impl~^impl<K, V, S, P> Store<K, V, S, P> where/fn enqueue name=store_enqueue whole=1 rules=drop-tracing,drop-metrics
//@head
    fn store_enqueue(&mut self, piece: PieceT, force: bool)
        ensures
            force || old(self).inner.engine.admit@ ==> final(self).inner.engine.enqueued@.len() == old(self).inner.engine.enqueued@.len() + 1
                && final(self).inner.engine.enqueued@.last().0 == piece
                && final(self).inner.keeper.held@ == old(self).inner.keeper.held@.push(piece)
                && final(self).inner.engine.deleted@ == old(self).inner.engine.deleted@, // @label admitted_piece_is_kept_in_write_queue_and_enqueued
            !force && !old(self).inner.engine.admit@ ==> final(self).inner.engine.enqueued@ == old(self).inner.engine.enqueued@
                && final(self).inner.keeper.held@ == old(self).inner.keeper.held@
                && final(self).inner.engine.deleted@ == old(self).inner.engine.deleted@.push(old(self).inner.hasher.spec_hash(&piece.key_)), // @label rejected_update_deletes_the_older_disk_copy
//@end

// ---- Store::load: write queue first, then the disk index; a disk hit is accepted only for an equivalent key
//@region foyer-storage/src/store.rs :: impl~^impl<K, V, S, P> Store<K, V, S, P> where/fn load name=store_load whole=1 rules=drop-tracing,de-async,drop-metrics
//@head
    fn store_load<Q: Hash + Equivalent<KeyT> + ?Sized>(&mut self, key: &Q) -> (r: Result<Load>)
        ensures
            // C01 / C17: never another key's value
            match r {
                Ok(Load::Entry { key: k, value: _, populated: _ }) => key.eqv(&k),
                Ok(Load::Piece { piece, populated: _ }) => key.eqv(&piece.key_),
                _ => true,
            }, // @label disk_tier_answers_only_with_an_equivalent_key
            // lookup order: a piece still in the write queue answers without touching the disk index
            final(self).inner.engine.loads@.len() <= old(self).inner.engine.loads@.len() + 1,
            final(self).inner.engine.loads@.len() == old(self).inner.engine.loads@.len() + 1 ==> final(self).inner.engine.loads@.last() == old(self).inner.hasher.spec_hash(key), // @label disk_lookup_uses_the_keys_hash
            final(self).inner.engine.enqueued@ == old(self).inner.engine.enqueued@ && final(self).inner.engine.deleted@ == old(self).inner.engine.deleted@, // @label load_writes_nothing
//@end
}

// =====================================================================================================
// BlockEngine::load, after the device read: parse header, verify checksum + decode, map errors (C03)
// =====================================================================================================
//@item foyer-storage/src/compress.rs :: enum Compression rules=derive-structural
//@item foyer-storage/src/engine/block/serde.rs :: struct EntryHeader rules=derive-clone-copy
pub struct BufT { pub bytes: Vec<u8> }
impl BufT {
    pub fn len(&self) -> (r: usize) ensures r == self.bytes@.len() { self.bytes.len() }
    pub fn is_empty(&self) -> (r: bool) ensures r == (self.bytes@.len() == 0) { self.bytes.len() == 0 }
}
pub assume_specification<T>[ bool::then_some::<T> ](b: bool, t: T) -> (r: Option<T>)
    ensures r == (if b { Some(t) } else { None::<T> });
/// `&buf[..n]` / `&buf[n..]`
#[verifier::external_body]
pub fn verif_head<'a>(b: &'a BufT, n: usize) -> (r: &'a [u8]) requires n <= b.bytes@.len(), ensures r@ == b.bytes@.subrange(0, n as int) { unimplemented!() }
#[verifier::external_body]
pub fn verif_tail<'a>(b: &'a BufT, n: usize) -> (r: &'a [u8]) requires n <= b.bytes@.len(), ensures r@ == b.bytes@.subrange(n as int, b.bytes@.len() as int) { unimplemented!() }
/// result of parsing 36 header bytes (contract of the real function: Kani unit codec, entry_header_read_total)
pub uninterp spec fn spec_read_header(b: Seq<u8>) -> Result<EntryHeader>;
/// result of checksum verification + decoding (contract of the real function: unit serde)
pub uninterp spec fn spec_deserialize(b: Seq<u8>, key_len: usize, value_len: usize, c: Compression, checksum: Option<u64>) -> Result<(KeyT, ValueT)>;
impl EntryHeader {
//@fn foyer-storage/src/engine/block/serde.rs :: impl~^impl EntryHeader$/fn serialized_len ret=r
//@spec
        ensures r == 36, // @label header_is_36_bytes
//@end
    #[verifier::external_body]
    pub fn read(buf: &[u8]) -> (r: Result<EntryHeader>) ensures r == spec_read_header(buf@) { unimplemented!() }
}
pub struct EntryDeserializer { }
impl EntryDeserializer {
    #[verifier::external_body]
    pub fn deserialize(buf: &[u8], key_len: usize, value_len: usize, compression: Compression, checksum: Option<u64>) -> (r: Result<(KeyT, ValueT)>)
        ensures r == spec_deserialize(buf@, key_len, value_len, compression, checksum) { unimplemented!() }
}
pub struct HistT { pub h: u8 }
impl HistT { #[verifier::external_body] pub fn record(&self, v: u64) { } }
pub struct LoadMetricsT { pub storage_entry_deserialize_duration: HistT }
pub struct BlockStatsT { pub probation: FlagT }
pub struct BlockT { pub stats: BlockStatsT }
impl BlockT { pub fn statistics(&self) -> (r: &BlockStatsT) ensures *r == self.stats { &self.stats } }

pub open spec fn corrupt_kind_header(k: ErrorKind) -> bool { k == ErrorKind::Parse || k == ErrorKind::MagicMismatch || k == ErrorKind::ChecksumMismatch || k == ErrorKind::OutOfRange }
pub open spec fn corrupt_kind_entry(k: ErrorKind) -> bool { k == ErrorKind::MagicMismatch || k == ErrorKind::ChecksumMismatch || k == ErrorKind::OutOfRange }

//@region foyer-storage/src/engine/block/engine.rs :: impl~^impl<K, V, P> BlockEngine<K, V, P> where/fn load name=engine_load_decode start=/let header = / stmts=99 rules=drop-tracing,drop-metrics,assert-eq sub=@&buf\[\.\.EntryHeader::serialized_len\(\)\]@verif_head(&buf, EntryHeader::serialized_len())@ sub=@&buf\[EntryHeader::serialized_len\(\)\.\.\]@verif_tail(&buf, EntryHeader::serialized_len())@ sub=@EntryDeserializer::deserialize::<K, V>\(@EntryDeserializer::deserialize(@
//@head
fn engine_load_decode(buf: BufT, hash: u64, indexer: &mut IndexerT, block: &BlockT, metrics: &LoadMetricsT) -> (r: Result<Load>)
    requires buf.bytes@.len() >= 36, // the read buffer is align_up(PAGE, addr.len) >= one page
    ensures
        // a value is returned only after the header parsed and the checksum over the recorded range matched
        r matches Ok(Load::Entry { key, value, populated }) ==> {
            let h = spec_read_header(buf.bytes@.subrange(0, 36));
            &&& h is Ok
            &&& spec_deserialize(buf.bytes@.subrange(36, buf.bytes@.len() as int), h->Ok_0.key_len as usize, h->Ok_0.value_len as usize, h->Ok_0.compression, Some(h->Ok_0.checksum)) == Ok::<(KeyT, ValueT), Error>((key, value))
            &&& populated.age == (if block.stats.probation.v { Age::Old } else { Age::Young })
            &&& final(indexer).removed@ == old(indexer).removed@
        }, // @label value_returned_only_after_header_and_checksum_verified
        !(r matches Ok(Load::Entry { .. })) ==> (r matches Ok(Load::Miss)) || r is Err, // @label otherwise_miss_or_error
        // garbage on disk => miss, and the index entry is dropped
        ({
            let h = spec_read_header(buf.bytes@.subrange(0, 36));
            (h is Err && corrupt_kind_header(h->Err_0.k)) ==> (r matches Ok(Load::Miss)) && final(indexer).removed@ == old(indexer).removed@.push(hash)
        }), // @label unparsable_header_is_a_miss_and_index_entry_is_dropped
        ({
            let h = spec_read_header(buf.bytes@.subrange(0, 36));
            (h is Err && !corrupt_kind_header(h->Err_0.k)) ==> r is Err && final(indexer).removed@ == old(indexer).removed@
        }), // @label other_header_errors_propagate
        ({
            let h = spec_read_header(buf.bytes@.subrange(0, 36));
            h is Ok ==> {
                let d = spec_deserialize(buf.bytes@.subrange(36, buf.bytes@.len() as int), h->Ok_0.key_len as usize, h->Ok_0.value_len as usize, h->Ok_0.compression, Some(h->Ok_0.checksum));
                &&& (d is Err && corrupt_kind_entry(d->Err_0.k) ==> (r matches Ok(Load::Miss)) && final(indexer).removed@ == old(indexer).removed@.push(hash))
                &&& (d is Err && !corrupt_kind_entry(d->Err_0.k) ==> r is Err && final(indexer).removed@ == old(indexer).removed@)
                &&& (d is Ok ==> r matches Ok(Load::Entry { .. }))
            }
        }), // @label checksum_or_range_failure_is_a_miss_and_index_entry_is_dropped
//@end

// ---- BlockEngine::close: stop accepting work FIRST, then wait for flushers and reclaimers (C15)
pub struct CloseInnerT { pub active: FlagT }
pub struct CloseThisT { pub inner: CloseInnerT, pub waited_while_active: Ghost<bool>, pub waits: Ghost<nat> }
impl CloseThisT {
    /// `this.wait()`: waits for flushers and reclaimers; records whether new work could still arrive meanwhile
    #[verifier::external_body]
    pub fn wait(&mut self)
        ensures final(self).inner == old(self).inner, final(self).waits@ == old(self).waits@ + 1,
            final(self).waited_while_active@ == (old(self).waited_while_active@ || old(self).inner.active.v),
    { }
}
//@region foyer-storage/src/engine/block/engine.rs :: impl~^impl<K, V, P> BlockEngine<K, V, P> where/fn close name=engine_close start=/async move \{/ body=1 rules=de-async
//@head
fn engine_close(this: &mut CloseThisT) -> (r: Result<()>)
    requires !old(this).waited_while_active@,
    ensures
        !final(this).inner.active.v, // @label engine_inactive_after_close
        final(this).waits@ == old(this).waits@ + 1, // @label close_waits_for_flushers_and_reclaimers
        !final(this).waited_while_active@, // @label new_work_is_refused_before_waiting
        r is Ok,
//@end


// ---- BlockStatistics::reset (C12): a block that was reclaimed and is reused starts like a fresh one -- in particular it is
// no longer "marked for imminent reclaim", so entries loaded from it come back young and are not rewritten by their next
// eviction (the mark is what BlockEngine::load turns into Age::Old)
pub struct AtomUsizeT { pub v: usize }
impl AtomUsizeT { pub fn store(&mut self, v: usize, o: Ordering) ensures final(self).v == v { self.v = v; } }
pub struct AtomBoolT { pub v: bool }
impl AtomBoolT { pub fn store(&mut self, v: bool, o: Ordering) ensures final(self).v == v { self.v = v; } }
pub struct BlockStatisticsT { pub invalid: AtomUsizeT, pub access: AtomUsizeT, pub probation: AtomBoolT }
impl BlockStatisticsT {
//@region foyer-storage/src/engine/block/manager.rs :: impl~^impl BlockStatistics/fn reset name=block_stats_reset whole=1
//@head
    fn block_stats_reset(&mut self)
        ensures
            !final(self).probation.v, // @label a_reclaimed_block_is_no_longer_marked_for_imminent_reclaim
            final(self).invalid.v == 0 && final(self).access.v == 0, // @label a_reclaimed_block_starts_with_fresh_statistics
//@end
}

} // verus!

// UNIT indexer — disk index version order (C01, C07 addresses, C09 guarded removal)
use vstd::prelude::*;
use std::collections::{HashMap, hash_map::Entry};
verus! {

//@item foyer-storage/src/engine/block/serde.rs :: type Sequence
//@item foyer-storage/src/engine/block/manager.rs :: type BlockId

//@item foyer-storage/src/engine/block/indexer.rs :: enum Index
//@item foyer-storage/src/engine/block/indexer.rs :: struct EntryAddress
//@item foyer-storage/src/engine/block/indexer.rs :: type IndexerShard

// prelude: the real struct holds `Arc<Vec<RwLock<IndexerShard>>>`; the lock wrappers are not extracted
// (listed as unverified: shard selection and locking), only the per-shard map logic is.
pub struct Indexer { pub nshards: usize }

pub open spec fn seq_of(i: Index) -> Sequence {
    match i { Index::Address(a) => a.sequence, Index::Tombstone(s) => s }
}
pub open spec fn addr_of(i: Index) -> Option<EntryAddress> {
    match i { Index::Address(a) => Some(a), Index::Tombstone(_) => None }
}

impl Index {
//@fn foyer-storage/src/engine/block/indexer.rs :: impl~^impl Index$/fn sequence ret=r
//@spec
        ensures r == seq_of(*self), // @label returns_sequence
//@end
}

impl Indexer {
//@fn foyer-storage/src/engine/block/indexer.rs :: impl~^impl Indexer$/fn extract_address ret=r
//@spec
        ensures r == addr_of(index), // @label returns_address_only
//@end

//@fn foyer-storage/src/engine/block/indexer.rs :: impl~^impl Indexer$/fn insert_inner ret=r
//@spec
        ensures
            final(shard)@.dom() == old(shard)@.dom().insert(hash), // @label domain_gains_only_hash
            forall|h: u64| h != hash && old(shard)@.contains_key(h) ==> final(shard)@[h] == old(shard)@[h], // @label frame_other_hashes
            !old(shard)@.contains_key(hash) ==> final(shard)@[hash] == index && r.is_none(), // @label vacant_stores_new
            old(shard)@.contains_key(hash) && seq_of(index) >= seq_of(old(shard)@[hash])
                ==> final(shard)@[hash] == index && r == addr_of(old(shard)@[hash]), // @label newer_or_equal_replaces_returns_old
            old(shard)@.contains_key(hash) && seq_of(index) < seq_of(old(shard)@[hash])
                ==> final(shard)@[hash] == old(shard)@[hash] && r == addr_of(index), // @label older_is_dropped_returns_new
//@end
}

} // verus!

// UNIT indexer — disk index version order (C01, C07 addresses, C09 guarded removal)
use vstd::prelude::*;
use std::collections::{HashMap, hash_map::Entry};
verus! {

//@item foyer-storage/src/engine/block/serde.rs :: type Sequence
//@item foyer-storage/src/engine/block/manager.rs :: type BlockId

//@item foyer-storage/src/engine/block/indexer.rs :: enum Index rules=derive-clone-copy
//@item foyer-storage/src/engine/block/indexer.rs :: struct EntryAddress rules=derive-clone-copy
//@item foyer-storage/src/engine/block/indexer.rs :: type IndexerShard
//@item foyer-storage/src/engine/block/indexer.rs :: struct HashedEntryAddress rules=derive-clone-copy

// prelude: the real struct holds `Arc<Vec<RwLock<IndexerShard>>>`; the lock wrappers are not extracted
// (listed as unverified: shard selection and locking), only the per-shard map logic is.
pub struct Indexer { pub nshards: usize }

pub open spec fn seq_of(i: Index) -> Sequence {
    match i { Index::Address(a) => a.sequence, Index::Tombstone(s) => s }
}
pub open spec fn addr_of(i: Index) -> Option<EntryAddress> {
    match i { Index::Address(a) => Some(a), Index::Tombstone(_) => None }
}

impl Index {
//@fn foyer-storage/src/engine/block/indexer.rs :: impl~^impl Index$/fn sequence ret=r
//@spec
        ensures r == seq_of(*self), // @label returns_sequence
//@end
}

impl Indexer {
//@fn foyer-storage/src/engine/block/indexer.rs :: impl~^impl Indexer$/fn extract_address ret=r
//@spec
        ensures r == addr_of(index), // @label returns_address_only
//@end

//@fn foyer-storage/src/engine/block/indexer.rs :: impl~^impl Indexer$/fn insert_inner ret=r
//@spec
        ensures
            final(shard)@.dom() == old(shard)@.dom().insert(hash), // @label domain_gains_only_hash
            forall|h: u64| h != hash && old(shard)@.contains_key(h) ==> final(shard)@[h] == old(shard)@[h], // @label frame_other_hashes
            !old(shard)@.contains_key(hash) ==> final(shard)@[hash] == index && r.is_none(), // @label vacant_stores_new
            old(shard)@.contains_key(hash) && seq_of(index) >= seq_of(old(shard)@[hash])
                ==> final(shard)@[hash] == index && r == addr_of(old(shard)@[hash]), // @label newer_or_equal_replaces_returns_old
            old(shard)@.contains_key(hash) && seq_of(index) < seq_of(old(shard)@[hash])
                ==> final(shard)@[hash] == old(shard)@[hash] && r == addr_of(index), // @label older_is_dropped_returns_new
//@end

// ---- Indexer::get: the lookup under the read lock (lock acquisition replaced by the map it guards)
//@region foyer-storage/src/engine/block/indexer.rs :: impl~^impl Indexer$/fn get name=get_lookup start=/match self\.shards\[shard\]\.read\(\)\.get/ end=/match self\.shards\[shard\]\.read\(\)\.get/ sub=@self\.shards\[shard\]\.read\(\)@shard_map@
//@head
    fn get_lookup(&self, shard_map: &IndexerShard, hash: u64) -> (r: Option<EntryAddress>)
        ensures
            shard_map@.contains_key(hash) ==> r == addr_of(shard_map@[hash]), // @label hit_returns_indexed_address_tombstone_is_miss
            !shard_map@.contains_key(hash) ==> r.is_none(), // @label absent_is_miss
//@end

// ---- Indexer::remove: unconditional removal of an address, tombstones stay
//@region foyer-storage/src/engine/block/indexer.rs :: impl~^impl Indexer$/fn remove name=remove_entry start=/match self\.shards\[shard\]\.write\(\)\.entry/ end=/match self\.shards\[shard\]\.write\(\)\.entry/ sub=@self\.shards\[shard\]\.write\(\)@shard_map@
//@head
    fn remove_entry(&self, shard_map: &mut IndexerShard, hash: u64) -> (r: Option<EntryAddress>)
        ensures
            forall|h: u64| h != hash ==> (old(shard_map)@.contains_key(h) <==> final(shard_map)@.contains_key(h)), // @label frame_domain
            forall|h: u64| h != hash && old(shard_map)@.contains_key(h) ==> final(shard_map)@[h] == old(shard_map)@[h], // @label frame_values
            old(shard_map)@.contains_key(hash) && addr_of(old(shard_map)@[hash]).is_some()
                ==> !final(shard_map)@.contains_key(hash) && r == addr_of(old(shard_map)@[hash]), // @label address_removed_and_returned
            old(shard_map)@.contains_key(hash) && addr_of(old(shard_map)@[hash]).is_none()
                ==> final(shard_map)@ == old(shard_map)@ && r.is_none(), // @label tombstone_kept
            !old(shard_map)@.contains_key(hash) ==> final(shard_map)@ == old(shard_map)@ && r.is_none(), // @label absent_noop
//@end

// ---- Indexer::remove_batch: the reclaimer's sequence-guarded removal (one (hash, sequence) pair)
//@region foyer-storage/src/engine/block/indexer.rs :: impl~^impl Indexer$/fn remove_batch name=remove_guarded start=/match shard\.entry\(/ stmts=1 rules=let-chain
//@head
    fn remove_guarded(&self, shard: &mut IndexerShard, hash: u64, sequence: Sequence, olds: &mut Vec<EntryAddress>)
        ensures
            forall|h: u64| h != hash ==> (old(shard)@.contains_key(h) <==> final(shard)@.contains_key(h)), // @label frame_domain
            forall|h: u64| h != hash && old(shard)@.contains_key(h) ==> final(shard)@[h] == old(shard)@[h], // @label frame_values
            old(shard)@.contains_key(hash) && sequence >= seq_of(old(shard)@[hash]) ==> !final(shard)@.contains_key(hash), // @label not_newer_entry_removed
            old(shard)@.contains_key(hash) && sequence < seq_of(old(shard)@[hash]) ==> final(shard)@ == old(shard)@, // @label newer_entry_survives_reclaim
            !old(shard)@.contains_key(hash) ==> final(shard)@ == old(shard)@, // @label absent_noop
            old(shard)@.contains_key(hash) && sequence >= seq_of(old(shard)@[hash]) && addr_of(old(shard)@[hash]).is_some()
                ==> final(olds)@ == old(olds)@.push(addr_of(old(shard)@[hash]).unwrap()), // @label removed_address_reported
            !(old(shard)@.contains_key(hash) && sequence >= seq_of(old(shard)@[hash]) && addr_of(old(shard)@[hash]).is_some())
                ==> final(olds)@ == old(olds)@, // @label nothing_else_reported
//@end

// ---- Indexer::insert_tombstone: delete = insert of a tombstone through the same guard
//@region foyer-storage/src/engine/block/indexer.rs :: impl~^impl Indexer$/fn insert_tombstone name=insert_tombstone_inner start=/self\.insert_inner\(/ stmts=99 sub=@&mut shard,@shard,@
//@head
    fn insert_tombstone_inner(&self, shard: &mut IndexerShard, hash: u64, sequence: Sequence) -> (r: Option<EntryAddress>)
        ensures
            final(shard)@.contains_key(hash), // @label key_has_entry
            !old(shard)@.contains_key(hash) || sequence >= seq_of(old(shard)@[hash])
                ==> final(shard)@[hash] == Index::Tombstone(sequence), // @label tombstone_shadows_older_address
            forall|h: u64| h != hash && old(shard)@.contains_key(h) ==> final(shard)@.contains_key(h) && final(shard)@[h] == old(shard)@[h], // @label frame
//@end

// ---- Indexer::insert_batch: one address of a flushed batch
//@region foyer-storage/src/engine/block/indexer.rs :: impl~^impl Indexer$/fn insert_batch name=insert_batch_one start=/if let Some\(old\) = self\.insert_inner/ stmts=1 sub=@&mut shard,@shard,@
//@head
    fn insert_batch_one(&self, shard: &mut IndexerShard, haddr: HashedEntryAddress, olds: &mut Vec<HashedEntryAddress>)
        ensures
            final(shard)@.contains_key(haddr.hash), // @label key_has_entry
            !old(shard)@.contains_key(haddr.hash) || haddr.address.sequence >= seq_of(old(shard)@[haddr.hash])
                ==> final(shard)@[haddr.hash] == Index::Address(haddr.address), // @label newer_address_indexed
            old(shard)@.contains_key(haddr.hash) && haddr.address.sequence < seq_of(old(shard)@[haddr.hash])
                ==> final(shard)@[haddr.hash] == old(shard)@[haddr.hash]
                    && final(olds)@ == old(olds)@.push(HashedEntryAddress { hash: haddr.hash, address: haddr.address }), // @label stale_write_not_indexed_and_reported_as_garbage
            forall|h: u64| h != haddr.hash && old(shard)@.contains_key(h) ==> final(shard)@.contains_key(h) && final(shard)@[h] == old(shard)@[h], // @label frame
//@end
}

// ---- corollary: per hash the indexed sequence never decreases under insert / delete / guarded removal
pub open spec fn mono(a: Map<u64, Index>, b: Map<u64, Index>, hash: u64) -> bool {
    a.contains_key(hash) && b.contains_key(hash) ==> seq_of(b[hash]) >= seq_of(a[hash])
}

fn corollary_insert_never_lowers_sequence(ix: &Indexer, shard: &mut IndexerShard, hash: u64, index: Index, probe: u64)
    ensures mono(old(shard)@, final(shard)@, probe), // @label indexed_sequence_monotone
{
    let _ = ix.insert_inner(shard, hash, index);
}

} // verus!

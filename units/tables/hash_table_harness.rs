    // Memory index (HashTableIndexer) on the REAL code over the Vec-backed hashbrown stand-in: probes compare full keys.
    // Two records, symbolic hash and keys => bounded in table size (2 entries).
    use crate::{cache::CacheProperties, eviction::fifo::Fifo, record::Data};
    type VE = Fifo<u8, u8, CacheProperties>;
    fn vrec(k: u8, v: u8, hash: u64) -> Arc<Record<VE>> {
        Arc::new(Record::new(Data::<VE> { key: k, value: v, properties: CacheProperties::default(), hash, weight: 1 }))
    }

    #[kani::proof]
    #[kani::unwind(4)]
    fn colliding_keys_are_two_index_entries() {
        let hash: u64 = kani::any();
        let k1: u8 = kani::any();
        let k2: u8 = kani::any();
        kani::assume(k1 != k2);
        let mut ix = HashTableIndexer::<VE>::default();
        let r1 = vrec(k1, 1, hash);
        let r2 = vrec(k2, 2, hash);
        let o1 = ix.insert(r1.clone());
        assert!(o1.is_none(), "[first_insert_has_no_predecessor]");
        let o2 = ix.insert(r2.clone());
        assert!(o2.is_none(), "[colliding_key_is_a_new_entry_not_a_replacement]");
        {
            let g1 = ix.get(hash, &k1);
            assert!(g1.is_some() && Arc::ptr_eq(g1.unwrap(), &r1), "[lookup_returns_the_record_of_that_key]");
            let g2 = ix.get(hash, &k2);
            assert!(g2.is_some() && Arc::ptr_eq(g2.unwrap(), &r2), "[lookup_returns_the_record_of_that_key]");
        }
        // replacing k1 returns k1's old record and leaves k2 alone
        let r1b = vrec(k1, 3, hash);
        let old = ix.insert(r1b.clone());
        assert!(old.is_some() && Arc::ptr_eq(old.as_ref().unwrap(), &r1), "[insert_replaces_only_the_same_key]");
        // removing k2 takes k2's record only
        let rm = ix.remove(hash, &k2);
        assert!(rm.is_some() && Arc::ptr_eq(rm.as_ref().unwrap(), &r2), "[remove_takes_only_that_key]");
        {
            let g1 = ix.get(hash, &k1);
            assert!(g1.is_some() && Arc::ptr_eq(g1.unwrap(), &r1b), "[other_key_survives_remove]");
            assert!(ix.get(hash, &k2).is_none(), "[removed_key_is_gone]");
        }
        std::mem::forget((ix, r1, r2, r1b, o1, o2, old, rm));
    }

    #[kani::proof]
    #[kani::unwind(4)]
    fn canary_tables_reach_assertions() {
        let mut ix = HashTableIndexer::<VE>::default();
        let r1 = vrec(1, 1, 7);
        let o = ix.insert(r1.clone());
        assert!(o.is_some(), "[canary]");
        std::mem::forget((ix, r1, o));
    }

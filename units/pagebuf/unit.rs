// UNIT pagebuf — the page buffer of the tombstone log (C10): append writes a tombstone into the buffered page and flushes
// the WHOLE page back, so the buffer must hold the device's content of the page it claims to buffer. After `open(.., page)`
// and after every successful `load(page)` the buffer holds what the device holds at that page (read through the io engine,
// located by `locate`), and `flush` writes the buffer to the page it was loaded for. The io engine / device is a stand-in:
// a ghost map from (partition, offset) to page content.
#![allow(unused_imports, unused_variables, dead_code, unused_mut)]
use vstd::prelude::*;
verus! {

global size_of usize == 8;

//@item foyer-storage/src/io/mod.rs :: const PAGE

pub struct Error { pub e: u8 }
pub type Result<T> = core::result::Result<T, Error>;
/// an io buffer; `new` gives UNINITIALISED memory (arbitrary content)
pub struct IoSliceMut { pub data: Ghost<Seq<u8>> }
impl IoSliceMut {
    #[verifier::external_body] pub fn new(len: usize) -> (r: IoSliceMut) ensures r.data@.len() == len { unimplemented!() }
    /// `<[u8]>::fill` through DerefMut
    #[verifier::external_body] pub fn fill(&mut self, v: u8) ensures final(self).data@.len() == old(self).data@.len(), forall|i: int| 0 <= i < final(self).data@.len() ==> final(self).data@[i] == v { unimplemented!() }
    #[verifier::external_body] pub fn len(&self) -> (r: usize) ensures r == self.data@.len() { unimplemented!() }
}
pub struct PartitionT { pub id: Ghost<int> }
/// device behind the io engine: what each (partition, offset) page holds
pub struct IoEngineT { pub dev: Ghost<Map<(int, int), Seq<u8>>> }
impl IoEngineT {
    /// IoEngine::read: on success the buffer holds the device content at that place; the device is not changed
    #[verifier::external_body]
    pub fn read(&self, buf: IoSliceMut, partition: &PartitionT, offset: u64) -> (r: (IoSliceMut, Result<()>))
        ensures r.1 is Ok ==> r.0.data@ == self.dev@[(partition.id@, offset as int)],
    { unimplemented!() }
    /// IoEngine::write: on success the device holds the buffer's content at that place, other places are untouched; the
    /// buffer comes back unchanged
    #[verifier::external_body]
    pub fn write(&mut self, buf: IoSliceMut, partition: &PartitionT, offset: u64) -> (r: (IoSliceMut, Result<()>))
        ensures r.0.data@ == buf.data@,
            r.1 is Ok ==> final(self).dev@ == old(self).dev@.insert((partition.id@, offset as int), buf.data@),
            r.1 is Err ==> forall|k: (int, int)| k != (partition.id@, offset as int) ==> final(self).dev@[k] == old(self).dev@[k],
    { unimplemented!() }
}

pub struct PageBuffer {
    pub buffer: Option<IoSliceMut>,
    pub io_engine: IoEngineT,
    pub partitions: Vec<PartitionT>,
    pub page: u32,
}
/// PageBuffer::locate: which partition and byte offset hold log page `page` (a loop with a value `break`: outside Verus)
pub uninterp spec fn spec_locate(partitions: Seq<PartitionT>, page: u32) -> (int, u64);
impl PageBuffer {
    #[verifier::external_body]
    fn locate(&self, page: u32) -> (r: (usize, u64))
        ensures r.0 < self.partitions@.len(), (r.0 as int, r.1) == spec_locate(self.partitions@, page),
    { unimplemented!() }
    /// the device's content of log page `page`
    pub open spec fn on_device(&self, page: u32) -> Seq<u8> {
        let l = spec_locate(self.partitions@, page);
        self.io_engine.dev@[(self.partitions@[l.0].id@, l.1 as int)]
    }
    pub open spec fn same_device(&self, o: &PageBuffer) -> bool { self.io_engine.dev@ == o.io_engine.dev@ && self.partitions@ == o.partitions@ }

//@fn foyer-storage/src/engine/block/tombstone.rs :: impl~^impl PageBuffer/fn update ret=r rules=de-async sub=@Box::new\(buf\)@buf@ sub=@self\.partitions\[partition\]\.as_ref\(\)@&self.partitions[partition]@ sub=@let buf = \*buf\.try_into_io_slice_mut\(\)\.unwrap\(\);@@
//@spec
        requires old(self).buffer is Some,
        ensures
            final(self).buffer is Some, final(self).page == old(self).page, final(self).same_device(old(self)),
            r is Ok ==> final(self).buffer.unwrap().data@ == old(self).on_device(old(self).page), // @label update_reads_the_device_content_of_the_buffered_page
//@end
//@fn foyer-storage/src/engine/block/tombstone.rs :: impl~^impl PageBuffer/fn load ret=r rules=de-async,drop-tracing
//@spec
        requires old(self).buffer is Some,
        ensures
            final(self).buffer is Some, final(self).same_device(old(self)),
            final(self).page == page, // @label load_switches_the_buffer_to_the_requested_page
            r is Ok ==> final(self).buffer.unwrap().data@ == old(self).on_device(page), // @label after_a_load_the_buffer_holds_what_the_device_holds_at_that_page
//@end
//@fn foyer-storage/src/engine/block/tombstone.rs :: impl~^impl PageBuffer/fn flush ret=r rules=de-async,drop-tracing sub=@Box::new\(buf\)@buf@ sub=@self\.partitions\[partition\]\.as_ref\(\)@&self.partitions[partition]@ sub=@let buf = \*buf\.try_into_io_slice_mut\(\)\.unwrap\(\);@@
//@spec
        requires old(self).buffer is Some,
        ensures
            final(self).buffer is Some, final(self).page == old(self).page, final(self).partitions@ == old(self).partitions@,
            final(self).buffer.unwrap().data@ == old(self).buffer.unwrap().data@, // @label flush_leaves_the_buffer_as_it_is
            r is Ok ==> final(self).on_device(old(self).page) == old(self).buffer.unwrap().data@, // @label flush_writes_the_buffer_to_the_page_it_buffers
//@end
}

//@region foyer-storage/src/engine/block/tombstone.rs :: impl~^impl PageBuffer/fn open name=pagebuf_open whole=1 rules=de-async sub=@Self \{@PageBuffer {@
//@head
fn pagebuf_open(io_engine: IoEngineT, partitions: Vec<PartitionT>, page: u32) -> (r: Result<PageBuffer>)
    ensures
        r matches Ok(t) ==> t.buffer is Some && t.page == page // @label the_log_opens_on_the_requested_page
            && t.io_engine.dev@ == io_engine.dev@ && t.partitions@ == partitions@
            && t.buffer.unwrap().data@ == t.on_device(page), // @label after_open_the_buffer_holds_what_the_device_holds_at_that_page
//@end

} // verus!

    // ---- the page-aligned length of an entry, as the scanner (BlobEntryIndex::aligned) and the splitter
    // (BufferEntryInfo::aligned) compute it: the smallest multiple of the page size that is not below the serialized
    // length -- exactly `len` when `len` is already a multiple. Loop-free, full domain => complete.
    #[kani::proof]
    fn blob_entry_index_aligned_is_the_page_multiple_not_below_len() {
        let idx = BlobEntryIndex { hash: kani::any(), sequence: kani::any(), offset: kani::any(), len: kani::any() };
        let a = idx.aligned();
        let len = idx.len as usize;
        assert!(a % PAGE == 0, "[aligned_length_is_a_multiple_of_the_page_size]");
        assert!(a >= len && a - len < PAGE, "[aligned_length_is_the_smallest_page_multiple_not_below_the_length]");
    }

    #[kani::proof]
    fn buffer_entry_info_aligned_is_the_page_multiple_not_below_len() {
        let len: usize = kani::any();
        kani::assume(len <= usize::MAX - PAGE);
        let info = BufferEntryInfo { hash: kani::any(), sequence: kani::any(), offset: kani::any(), len };
        let a = info.aligned();
        assert!(a % PAGE == 0, "[aligned_length_is_a_multiple_of_the_page_size]");
        assert!(a >= len && a - len < PAGE, "[aligned_length_is_the_smallest_page_multiple_not_below_the_length]");
    }

    #[kani::proof]
    fn canary_aligned_reaches_assertions() {
        let idx = BlobEntryIndex { hash: 0, sequence: 0, offset: 0, len: kani::any() };
        assert!(idx.aligned() == 0, "[canary]");
    }

// UNIT tomb — tombstone log addressing (C10): slot <-> address map, tail recovery, per-page scan, append
#![allow(unused_imports, unused_variables, dead_code, unused_mut)]
use vstd::prelude::*;
use vstd::std_specs::iter::IteratorSpec;
verus! {

global size_of usize == 8;

//@item foyer-storage/src/io/mod.rs :: const PAGE
//@item foyer-storage/src/engine/block/tombstone.rs :: struct Tombstone rules=derive-clone-copy

pub struct TombstoneLog { pub pages: usize }

/// big-endian u64 of 8 bytes (what `Buf::get_u64` reads); byte-level contract of `Tombstone::read/write` is
/// discharged on the real code by Kani (unit codec: tombstone_read_total / tombstone_roundtrip)
pub uninterp spec fn be_u64(b: Seq<u8>) -> u64;

impl Tombstone {
//@item foyer-storage/src/engine/block/tombstone.rs :: impl~^impl Tombstone$/const SERIALIZED_LEN sub=@size_of::<u64>\(\) \+ size_of::<u64>\(\)@8 + 8@ sub=@^const@pub const@
    #[verifier::external_body]
    pub fn read(buf: &[u8]) -> (r: Tombstone)
        requires buf@.len() >= 16,
        ensures r.hash == be_u64(buf@.subrange(0, 8)), r.sequence == be_u64(buf@.subrange(8, 16)),
    { unimplemented!() }
}

/// one device page as returned by the io engine
pub struct PageBuf { pub bytes: Vec<u8> }
pub open spec fn chunk_spec(b: Seq<u8>, i: int, n: int) -> Seq<u8> { b.subrange(i * n, i * n + n) }
#[verifier::external_body]
pub fn verif_chunk_count(x: &PageBuf, n: usize) -> (r: usize)
    requires n > 0,
    ensures r == (x.bytes@.len() as int) / (n as int),
{ x.bytes.len() / n }
#[verifier::external_body]
pub fn verif_chunk<'a>(x: &'a PageBuf, i: usize, n: usize) -> (r: &'a [u8])
    requires n > 0, i < (x.bytes@.len() as int) / (n as int),
    ensures r@ == chunk_spec(x.bytes@, i as int, n as int), r@.len() == n,
{ &x.bytes[i * n..i * n + n] }

pub open spec fn seq_at(page: Seq<u8>, i: int) -> u64 { be_u64(chunk_spec(page, i, 16).subrange(8, 16)) }

/// index of the first slot holding the largest sequence among slots 0..=i (running strict maximum from 0),
/// -1 while every slot so far is empty (sequence 0)
pub open spec fn newest_slot(page: Seq<u8>, i: int) -> int
    decreases i + 1
{
    if i < 0 { -1 } else {
        let p = newest_slot(page, i - 1);
        let best: u64 = if p < 0 { 0 } else { seq_at(page, p) };
        if seq_at(page, i) > best { i } else { p }
    }
}

impl TombstoneLog {
//@item foyer-storage/src/engine/block/tombstone.rs :: impl~^impl TombstoneLog$/const SLOTS_PER_PAGE

//@fn foyer-storage/src/engine/block/tombstone.rs :: impl~^impl TombstoneLog$/fn calculate_slot_addr ret=r
//@spec
        requires pages > 0, pages <= u32::MAX, // @label requires_nonempty_log
        ensures
            r.0 as int == (slot as int / 256) % (pages as int), // @label page_is_slot_page_modulo_log_pages
            r.1 as int == (slot as int % 256) * 16, // @label offset_is_slot_in_page_times_16
            (r.0 as int) < pages, // @label page_inside_log
            r.1 + 16 <= PAGE, // @label slot_inside_page
//@end

//@fn foyer-storage/src/engine/block/tombstone.rs :: impl~^impl TombstoneLog$/fn slot_addr ret=r
//@spec
        requires self.pages > 0, self.pages <= u32::MAX,
        ensures
            r.0 as int == (slot as int / 256) % (self.pages as int), // @label uses_the_logs_page_count
            r.1 as int == (slot as int % 256) * 16,
//@end
}

/// no two slots of one window of `pages * 256` consecutive slots share an address: a live tombstone is never
/// overwritten before the log wraps
pub proof fn lemma_slot_addr_injective(pages: int, s1: int, s2: int)
    requires pages > 0, 0 <= s1 < s2 < s1 + pages * 256,
    ensures !((s1 / 256) % pages == (s2 / 256) % pages && s1 % 256 == s2 % 256), // @label distinct_slots_in_a_window_have_distinct_addresses
{
    if (s1 / 256) % pages == (s2 / 256) % pages && s1 % 256 == s2 % 256 {
        let a = s1 / 256; let b = s2 / 256; let r = s1 % 256;
        assert(s1 == a * 256 + r && s2 == b * 256 + r);
        assert(b > a);
        assert(b - a < pages) by (nonlinear_arith) requires s2 - s1 < pages * 256, s2 - s1 == (b - a) * 256;
        // a % pages == b % pages with 0 < b - a < pages is impossible
        vstd::arithmetic::div_mod::lemma_fundamental_div_mod(a, pages);
        vstd::arithmetic::div_mod::lemma_fundamental_div_mod(b, pages);
        let qa = a / pages; let qb = b / pages; let m = a % pages;
        assert(b - a == pages * (qb - qa)) by (nonlinear_arith) requires a == pages * qa + m, b == pages * qb + m;
        assert(qb - qa >= 1) by (nonlinear_arith) requires b - a == pages * (qb - qa), b - a > 0, pages > 0;
        assert(pages * (qb - qa) >= pages) by (nonlinear_arith) requires qb - qa >= 1, pages > 0;
        assert(false);
    }
}

// ---- TombstoneLog::open: which recovered tombstone the tail follows: the one with the HIGHEST SEQUENCE (0 when none)
/// `None`, typed as an element reference of `v` (start value of the loop that rule iter-reduce writes)
pub fn verif_no_element<T>(v: &Vec<T>) -> (r: Option<&T>) ensures r is None { None }
pub open spec fn newest(rec: Seq<(Tombstone, usize)>, i: int) -> bool {
    0 <= i < rec.len() && forall|j: int| 0 <= j < rec.len() ==> (#[trigger] rec[j]).0.sequence <= rec[i].0.sequence
}
//@region foyer-storage/src/engine/block/tombstone.rs :: impl~^impl TombstoneLog$/fn open name=open_latest_offset start=/let latest_tombstone_offset = / stmts=1 rules=drop-tracing,iter-reduce,option-map
//@head
fn open_latest_offset(recovered: &Vec<(Tombstone, usize)>) -> (r: usize)
    ensures
        recovered@.len() == 0 ==> r == 0, // @label empty_log_starts_at_the_beginning
        recovered@.len() > 0 ==> exists|i: int| 0 <= i < recovered@.len() && r == (#[trigger] recovered@[i]).1
            && forall|j: int| 0 <= j < recovered@.len() ==> (#[trigger] recovered@[j]).0.sequence <= recovered@[i].0.sequence, // @label tail_follows_the_tombstone_with_the_highest_sequence
//@loop 1 iter=it
            invariant
                it.snapshot@.remaining().len() == recovered@.len(),
                forall|i: int| 0 <= i < recovered@.len() ==> *(#[trigger] it.snapshot@.remaining()[i]) == recovered@[i],
                it.index@ == 0 ==> verif_best is None,
                it.index@ > 0 ==> verif_best is Some && exists|i: int| 0 <= i < it.index@ && *verif_best.unwrap() == recovered@[i]
                    && forall|j: int| 0 <= j < it.index@ ==> (#[trigger] recovered@[j]).0.sequence <= recovered@[i].0.sequence, // @label best_so_far_has_the_highest_sequence_seen
//@tail
    latest_tombstone_offset
//@end

// ---- TombstoneLog::open: tail slot from the global byte offset of the newest tombstone
//@region foyer-storage/src/engine/block/tombstone.rs :: impl~^impl TombstoneLog$/fn open name=open_tail_slot start=/let latest_tombstone_page = / stmts=2 sub=@Self::SLOTS_PER_PAGE@TombstoneLog::SLOTS_PER_PAGE@
//@head
fn open_tail_slot(latest_tombstone_offset: usize) -> (r: usize)
    ensures r == latest_tombstone_offset / 16, // @label newest_slot_is_global_offset_over_16
//@tail
    latest_tombstone_slot
//@end

//@region foyer-storage/src/engine/block/tombstone.rs :: impl~^impl TombstoneLog$/fn open name=open_next_slot start=/let slot = / stmts=1
//@head
fn open_next_slot(latest_tombstone_slot: usize) -> (r: usize)
    requires latest_tombstone_slot < usize::MAX,
    ensures r == latest_tombstone_slot + 1, // @label tail_is_slot_after_the_newest_tombstone
//@tail
    slot
//@end

// ---- TombstoneLog::open: scan of one page. Every non-empty slot is recovered once, in slot order, and each
// recovered element carries the GLOBAL byte offset (partition base + page offset + in-page offset) of the newest
// tombstone seen so far in the page -- so the element with the page's largest sequence carries its own global offset,
// which is what the tail computation above consumes.
pub open spec fn hash_at(page: Seq<u8>, i: int) -> u64 { be_u64(chunk_spec(page, i, 16).subrange(0, 8)) }
/// what scanning slots 0..n of a page located at global byte offset `bo` must append: (hash, sequence, address)
pub open spec fn scan_spec(page: Seq<u8>, bo: int, n: int) -> Seq<(u64, u64, int)>
    decreases n
{
    if n <= 0 { Seq::empty() } else {
        let p = scan_spec(page, bo, n - 1);
        if seq_at(page, n - 1) != 0 { p.push((hash_at(page, n - 1), seq_at(page, n - 1), bo + newest_slot(page, n - 1) * 16)) } else { p }
    }
}
pub open spec fn proj(r: Seq<(Tombstone, usize)>) -> Seq<(u64, u64, int)> {
    r.map_values(|x: (Tombstone, usize)| (x.0.hash, x.0.sequence, x.1 as int))
}
/// corollary used by the tail computation: the newest tombstone of a page is recovered with its own global offset
pub proof fn lemma_newest_slot_props(page: Seq<u8>, i: int)
    requires 0 <= i,
    ensures
        -1 <= newest_slot(page, i) <= i,
        newest_slot(page, i) >= 0 ==> seq_at(page, newest_slot(page, i)) != 0,
        forall|k: int| 0 <= k <= i ==> (#[trigger] seq_at(page, k)) <= (if newest_slot(page, i) < 0 { 0u64 } else { seq_at(page, newest_slot(page, i)) }), // @label newest_slot_holds_the_page_maximum
        newest_slot(page, i) >= 0 ==> newest_slot(page, newest_slot(page, i)) == newest_slot(page, i), // @label newest_tombstone_is_recovered_with_its_own_offset
    decreases i,
{
    if i > 0 { lemma_newest_slot_props(page, i - 1); }
    let p = newest_slot(page, i - 1);
    if i == 0 { assert(newest_slot(page, -1) == -1); }
    if newest_slot(page, i) == i {
        assert(newest_slot(page, i) == i);
    } else {
        assert(newest_slot(page, i) == p);
        if p >= 0 { assert(p <= i - 1); }
    }
}

//@region foyer-storage/src/engine/block/tombstone.rs :: impl~^impl TombstoneLog$/fn open name=open_scan_page start=/let mut seq = / stmts=3 rules=chunks-enumerate
//@head
fn open_scan_page(buffer: PageBuf, base: usize, offset: usize, recovered: &mut Vec<(Tombstone, usize)>)
    requires
        buffer.bytes@.len() == PAGE,
        base + offset + PAGE <= usize::MAX,
    ensures
        proj(final(recovered)@) == proj(old(recovered)@) + scan_spec(buffer.bytes@, base + offset, 256), // @label page_scan_recovers_every_tombstone_with_global_offset_of_newest
        final(recovered)@.subrange(0, old(recovered)@.len() as int) == old(recovered)@, // @label earlier_pages_untouched
//@loop 1
        invariant
            buffer.bytes@.len() == PAGE,
            base + offset + PAGE <= usize::MAX,
            verif_next <= 256,
            recovered@.len() >= old(recovered)@.len(),
            recovered@.subrange(0, old(recovered)@.len() as int) == old(recovered)@,
            seq == (if newest_slot(buffer.bytes@, verif_next - 1) < 0 { 0u64 } else { seq_at(buffer.bytes@, newest_slot(buffer.bytes@, verif_next - 1)) }),
            newest_slot(buffer.bytes@, verif_next - 1) >= 0 ==> addr == base + offset + newest_slot(buffer.bytes@, verif_next - 1) * 16,
            -1 <= newest_slot(buffer.bytes@, verif_next - 1) < verif_next,
            proj(recovered@) == proj(old(recovered)@) + scan_spec(buffer.bytes@, base + offset, verif_next as int),
        decreases 256 - verif_next,
//@after /let tombstone = Tombstone::read\(buf\);/
                    proof {
                        assert(tombstone.sequence == seq_at(buffer.bytes@, slot as int));
                        assert(tombstone.hash == hash_at(buffer.bytes@, slot as int));
                    }
                    let ghost r0 = recovered@;
//@after /recovered\.push\(\(tombstone, addr\)\);/
                    proof {
                        assert(recovered@ == r0.push((tombstone, addr)));
                        assert(proj(recovered@) =~= proj(r0).push((tombstone.hash, tombstone.sequence, addr as int)));
                        assert(recovered@.subrange(0, old(recovered)@.len() as int) =~= r0.subrange(0, old(recovered)@.len() as int));
                    }
//@end


// ---- TombstoneLog::append, one tombstone: written at slot_addr(tail), page flushed before another is loaded
#[derive(Debug)]
pub struct Error { pub e: u8 }
pub type Result<T> = core::result::Result<T, Error>;
pub uninterp spec fn enc_tombstone(t: Tombstone) -> Seq<u8>;
/// in-memory copy of one log page plus a ghost log of what was written back to the device
pub struct PageBufferT { pub page: u32, pub bytes: Ghost<Seq<u8>>, pub flushed: Ghost<Seq<(u32, Seq<u8>)>> }
impl PageBufferT {
    #[verifier::external_body]
    pub fn flush(&mut self) -> (r: Result<()>)
        ensures final(self).page == old(self).page, final(self).bytes@ == old(self).bytes@,
            r.is_ok() ==> final(self).flushed@ == old(self).flushed@.push((old(self).page, old(self).bytes@)),
    { unimplemented!() }
    #[verifier::external_body]
    pub fn load(&mut self, page: u32) -> (r: Result<()>)
        ensures final(self).page == page, final(self).flushed@ == old(self).flushed@, final(self).bytes@.len() == PAGE,
    { unimplemented!() }
}
/// stands for `tombstone.write(&mut inner.buffer.as_mut()[start..end])` (mutable sub-slice indexing is outside Verus;
/// byte-level contract of `Tombstone::write` is the Kani unit codec)
#[verifier::external_body]
pub fn verif_write_tombstone(tombstone: &Tombstone, buffer: &mut PageBufferT, start: usize, end: usize)
    requires start + 16 == end, end <= old(buffer).bytes@.len(), // @label tombstone_written_inside_the_page
    ensures
        final(buffer).page == old(buffer).page, final(buffer).flushed@ == old(buffer).flushed@,
        enc_tombstone(*tombstone).len() == 16, // Kani unit codec: tombstone_roundtrip.write_advances_exactly_16
        final(buffer).bytes@ == old(buffer).bytes@.subrange(0, start as int) + enc_tombstone(*tombstone) + old(buffer).bytes@.subrange(end as int, old(buffer).bytes@.len() as int),
{ unimplemented!() }
pub struct TombstoneLogInner { pub buffer: PageBufferT, pub slot: usize }

impl TombstoneLog {
//@region foyer-storage/src/engine/block/tombstone.rs :: impl~^impl TombstoneLog$/fn append name=append_one start=/for tombstone in tombstones \{/ body=1 rules=de-async sub=@tombstone\.write\(&mut inner\.buffer\.as_mut\(\)\[(.*?)\.\.(.*?)\]\)@verif_write_tombstone(tombstone, &mut inner.buffer, \1, \2)@
//@head
    fn append_one(&self, inner: &mut TombstoneLogInner, tombstone: &Tombstone) -> (r: Result<()>)
        requires
            self.pages > 0, self.pages <= u32::MAX,
            old(inner).slot < usize::MAX,
            old(inner).buffer.bytes@.len() == PAGE,
        ensures
            r.is_ok() ==> {
                let page = ((old(inner).slot as int / 256) % (self.pages as int)) as u32;
                let off = (old(inner).slot as int % 256) * 16;
                &&& final(inner).slot == old(inner).slot + 1
                &&& final(inner).buffer.page == page
                &&& final(inner).buffer.bytes@.len() == PAGE
                &&& final(inner).buffer.bytes@.subrange(off, off + 16) == enc_tombstone(*tombstone)
                &&& (page == old(inner).buffer.page ==> final(inner).buffer.flushed@ == old(inner).buffer.flushed@
                        && final(inner).buffer.bytes@.subrange(0, off) == old(inner).buffer.bytes@.subrange(0, off)
                        && final(inner).buffer.bytes@.subrange(off + 16, PAGE as int) == old(inner).buffer.bytes@.subrange(off + 16, PAGE as int))
                &&& (page != old(inner).buffer.page ==> final(inner).buffer.flushed@ == old(inner).buffer.flushed@.push((old(inner).buffer.page, old(inner).buffer.bytes@)))
            }, // @label append_writes_at_tail_slot_and_flushes_page_before_switching
//@tail
        Ok(())
//@end
}
// ---- PageBuffer::locate: log page number -> (partition, byte offset inside it); partitions are concatenated in order
pub struct PartitionT { pub sz: usize }
impl PartitionT { pub fn size(&self) -> (r: usize) ensures r == self.sz { self.sz } }
pub struct PageBufferLocT { pub partitions: Vec<PartitionT> }
/// pages of the partitions before partition i
pub open spec fn pages_before(parts: Seq<PartitionT>, i: int) -> int
    decreases i
{
    if i <= 0 { 0 } else { pages_before(parts, i - 1) + (parts[i - 1].sz as u32 / 4096u32) as int }
}
impl PageBufferLocT {
//@region foyer-storage/src/engine/block/tombstone.rs :: impl~^impl PageBuffer$/fn locate name=locate whole=1 sub=@break \((.*)\);@{ verif_ret = (\1); break; }@
//@head
    fn locate(&self, mut page: u32) -> (r: (usize, u64))
        requires
            // the page lies inside the log: page < total pages (established by calculate_slot_addr's `% pages`)
            page < pages_before(self.partitions@, self.partitions@.len() as int),
            self.partitions@.len() < usize::MAX,
        ensures
            r.0 < self.partitions@.len(), // @label partition_exists
            pages_before(self.partitions@, r.0 as int) <= page < pages_before(self.partitions@, r.0 + 1), // @label page_belongs_to_that_partition
            r.1 == 4096 * (page - pages_before(self.partitions@, r.0 as int)), // @label offset_is_page_offset_inside_the_partition
//@prologue
        let ghost old_page = page;
        let mut verif_ret = (0usize, 0u64); // `break (a, b)` desugared: Verus has no break-with-value
//@loop 1
            invariant_except_break
                partition < self.partitions@.len(), self.partitions@.len() < usize::MAX,
                page as int + pages_before(self.partitions@, partition as int) == old_page as int,
                old_page < pages_before(self.partitions@, self.partitions@.len() as int),
            ensures verif_ret.0 < self.partitions@.len(),
                pages_before(self.partitions@, verif_ret.0 as int) <= old_page < pages_before(self.partitions@, verif_ret.0 + 1),
                verif_ret.1 == 4096 * (old_page - pages_before(self.partitions@, verif_ret.0 as int)),
            decreases self.partitions@.len() - partition,
//@before /if page < partition_pages/
            proof { assert(PAGE == 4096); assert(PAGE as u64 * page as u64 == 4096 * (page as int)) by (nonlinear_arith) requires PAGE == 4096; }
//@tail
        verif_ret
//@end
}

} // verus!

    // Executable restatement of the TOMB contracts on the real TombstoneLog over a file device (replay only).
    use foyer_common::spawn::Spawner;
    use tempfile::tempdir;
    use crate::{
        IoEngineConfig, PsyncIoEngineConfig,
        io::{device::{DeviceBuilder, fs::FsDeviceBuilder}, engine::IoEngineBuildContext},
    };

    #[tokio::test]
    async fn verif_witness_tomb() {
        let seed: u64 = std::env::var("VERIF_SEED").ok().and_then(|s| s.parse().ok()).unwrap_or(0);
        let mut found: Vec<String> = vec![];
        // (number of tombstones logged before the restart, partitions)
        let cases: Vec<(u64, Vec<usize>)> = vec![
            (1, vec![16 * 1024]), (255, vec![16 * 1024]), (256, vec![16 * 1024]), (300 + seed % 7, vec![16 * 1024]),
            (600, vec![16 * 1024]), (300, vec![8 * 1024, 8 * 1024]), (700, vec![8 * 1024, 8 * 1024]),
        ];
        for (n, parts) in cases {
            let dir = tempdir().unwrap();
            let device = FsDeviceBuilder::new(dir.path()).with_capacity(4 * 1024 * 1024 + 16 * 1024).build().unwrap();
            let partitions: Vec<_> = parts.iter().map(|s| device.create_partition(*s).unwrap()).collect();
            let io_engine = PsyncIoEngineConfig::new().boxed().build(IoEngineBuildContext { spawner: Spawner::current() }).await.unwrap();
            let log = TombstoneLog::open(partitions.clone(), io_engine.clone(), &mut vec![]).await.unwrap();
            // hashes run AGAINST the sequences, so that 'newest' cannot be confused with 'largest hash'
            let ts: Vec<Tombstone> = (0..n).map(|i| Tombstone { hash: 1_000_000 - i, sequence: i + 1 }).collect();
            log.append(ts.iter()).await.unwrap();
            let tail_before = log.inner.lock().await.slot;
            drop(log);
            let mut rec = vec![];
            let log = TombstoneLog::open(partitions.clone(), io_engine.clone(), &mut rec).await.unwrap();
            let tail_after = log.inner.lock().await.slot;
            if tail_after != tail_before {
                found.push(format!("WITNESS tail_follows_the_tombstone_with_the_highest_sequence :: {n} appends (hash = 1000000 - i, sequence = i + 1) on partitions {parts:?}, reopen: tail slot {tail_after}, expected {tail_before}"));
            }
            if rec.len() as u64 != n {
                found.push(format!("WITNESS page_scan_recovers_every_tombstone_with_global_offset_of_newest :: {n} appends, reopen recovered {} tombstones", rec.len()));
            }
            // one more delete after the restart must not overwrite a live tombstone
            log.append([Tombstone { hash: 5, sequence: n + 1 }].iter()).await.unwrap();
            drop(log);
            let mut rec2 = vec![];
            let _ = TombstoneLog::open(partitions.clone(), io_engine.clone(), &mut rec2).await.unwrap();
            for i in 0..n {
                if !rec2.iter().any(|t| t.hash == 1_000_000 - i && t.sequence == i + 1) {
                    found.push(format!("WITNESS distinct_slots_in_a_window_have_distinct_addresses :: {n} appends on {parts:?}, reopen, 1 append, reopen: tombstone #{} lost", i + 1));
                    break;
                }
            }
            if !found.is_empty() { break; }
        }
        for f in found.iter().take(3) { println!("{f}"); }
        println!("WITNESS-SEARCH-DONE found={}", found.len());
    }

    // Executable restatement of the S3-FIFO contracts on the real S3Fifo (replay only): random sequences of push (weights
    // 1..4), acquire, remove and pop. After every operation: the two queue counters equal the summed weight of their queues,
    // every record carries the tag of the queue it is in, the ghost window's weight equals the sum of its entries and every
    // hash it reports is in the window; pop follows the documented rule -- the small queue is scanned first exactly when it
    // EXCEEDS its share: records accessed at least `threshold` times move to the main queue, the first colder one is the
    // victim; otherwise the main queue gives its first record whose frequency ran out.
    use crate::{eviction::test_utils::{Dump, OpExt, TestProperties}, record::Data};

    struct Lcg(u64);
    impl Lcg { fn next(&mut self, n: u64) -> u64 { self.0 = self.0.wrapping_mul(6364136223846793005).wrapping_add(1442695040888963407); (self.0 >> 33) % n } }

    type WS3 = S3Fifo<u64, u64, TestProperties>;

    fn check(q: &WS3) -> Option<(&'static str, String)> {
        let d = q.dump();
        let sw: usize = d[0].iter().map(|r| r.weight()).sum();
        let mw: usize = d[1].iter().map(|r| r.weight()).sum();
        if sw != q.small_weight || mw != q.main_weight {
            return Some(("queue_weights_stay_exact", format!("counters small/main = {}/{} but the queues weigh {}/{}", q.small_weight, q.main_weight, sw, mw)));
        }
        for (qi, rs) in d.iter().enumerate() {
            for r in rs.iter() {
                let st = unsafe { &*r.state().get() };
                let want = if qi == 0 { Queue::Small } else { Queue::Main };
                if st.queue != want { return Some(("queue_weights_stay_exact", format!("record {} is in queue {:?} but tagged {:?}", r.key(), want, st.queue))); }
            }
        }
        let gw: usize = q.ghost_queue.queue.iter().map(|(_, w)| *w).sum();
        if gw != q.ghost_queue.weight { return Some(("ghost_window_invariant_preserved", format!("ghost window counter {} but its entries weigh {}", q.ghost_queue.weight, gw))); }
        for h in q.ghost_queue.counts.iter() {
            if !q.ghost_queue.queue.iter().any(|(x, _)| x == h) { return Some(("ghost_window_invariant_preserved", format!("hash {h} is reported as a ghost hit but is not in the window"))); }
        }
        None
    }

    /// the documented victim of one pop, computed on a copy of the observable state
    fn model_pop(q: &WS3) -> Option<u64> {
        let d = q.dump();
        let freq = |r: &Arc<Record<WS3>>| unsafe { &*r.state().get() }.frequency();
        let mut small: Vec<(u64, u8)> = d[0].iter().map(|r| (*r.key(), freq(r))).collect();
        let mut main: Vec<(u64, u8)> = d[1].iter().map(|r| (*r.key(), freq(r))).collect();
        let thr = q.small_to_main_freq_threshold;
        let evict_small = |small: &mut Vec<(u64, u8)>, main: &mut Vec<(u64, u8)>| -> Option<u64> {
            while !small.is_empty() { let (k, f) = small.remove(0); if f >= thr { main.push((k, f)); } else { return Some(k); } }
            None
        };
        let evict_main = |main: &mut Vec<(u64, u8)>| -> Option<u64> {
            while !main.is_empty() { let (k, f) = main.remove(0); if f > 0 { main.push((k, f - 1)); } else { return Some(k); } }
            None
        };
        if q.small_weight > q.small_weight_capacity { if let Some(k) = evict_small(&mut small, &mut main) { return Some(k); } }
        if let Some(k) = evict_main(&mut main) { return Some(k); }
        // forced: the head of the small queue, whatever its frequency
        small.first().map(|(k, _)| *k)
    }

    #[test]
    fn verif_witness_s3fifo() {
        let mut found: Vec<String> = vec![];
        let seed = std::env::var("VERIF_SEED").ok().and_then(|s| s.parse::<u64>().ok()).unwrap_or(0);
        let mut rng = Lcg(0x9e3779b97f4a7c15 ^ seed);
        'rounds: for _round in 0..3000 {
            if found.len() >= 3 { break; }
            let config = S3FifoConfig { small_queue_capacity_ratio: 0.25, ghost_queue_capacity_ratio: 0.5, small_to_main_freq_threshold: 1 + rng.next(2) as u8 };
            let mut q = WS3::new(16, &config);
            let rs: Vec<Arc<Record<WS3>>> = (0..8u64).map(|i| Arc::new(Record::new(Data { key: i, value: i, properties: TestProperties::default(), hash: i, weight: 1 + rng.next(4) as usize }))).collect();
            let mut trace: Vec<String> = vec![format!("threshold {}", config.small_to_main_freq_threshold)];
            for _step in 0..24 {
                let i = rng.next(8) as usize;
                let r = &rs[i];
                let inside = r.is_in_eviction();
                let want = model_pop(&q);
                let mut popped: Option<Option<u64>> = None;
                let res = std::panic::catch_unwind(std::panic::AssertUnwindSafe(|| match rng.next(9) {
                    0..=3 if !inside => { trace.push(format!("push({i}, weight {})", r.weight())); q.push(r.clone()); }
                    4..=5 if inside => { trace.push(format!("acquire({i})")); q.acquire_immutable(r); }
                    6 if inside => { trace.push(format!("remove({i})")); q.remove(r); }
                    7..=8 => { let v = q.pop().map(|v| *v.key()); trace.push(format!("pop() -> {:?}", v)); popped = Some(v); }
                    _ => {}
                }));
                let bad = match res {
                    Err(_) => Some(("queue_weights_stay_exact", "panicked (counter underflow / broken queue)".to_string())),
                    Ok(()) => {
                        let mut b = check(&q);
                        if b.is_none() && let Some(v) = popped && v != want {
                            b = Some(("small_queue_over_its_share_is_evicted_first", format!("pop returned {:?}, the documented victim is {:?}", v, want)));
                        }
                        b
                    }
                };
                if let Some((label, what)) = bad {
                    found.push(format!("WITNESS {label} :: s3fifo capacity=16 small=0.25 ghost=0.5: {} => {}", trace.join("; "), what));
                    std::mem::forget(q);
                    continue 'rounds;
                }
            }
            while q.small_queue.pop_front().is_some() {}
            while q.main_queue.pop_front().is_some() {}
        }
        for f in found.iter().take(3) { println!("{f}"); }
        println!("WITNESS-SEARCH-DONE found={}", found.len());
    }

// UNIT ghost — S3-FIFO's ghost queue (C14): a bounded FIFO window of the hashes recently evicted from the small queue.
// The intrusive small/main queues of S3Fifo are outside Verus (unsafe pointers); this plain data structure is not.
#![allow(unused_imports, unused_variables, dead_code, unused_mut)]
use vstd::prelude::*;
use std::collections::{HashSet, VecDeque};
verus! {

global size_of usize == 8;

//@item foyer-memory/src/eviction/s3fifo.rs :: struct GhostQueue rules=pub-fields sub=@^struct GhostQueue@pub struct GhostQueue@

pub open spec fn wsum(q: Seq<(u64, usize)>) -> nat decreases q.len() {
    if q.len() == 0 { 0 } else { wsum(q.drop_last()) + q.last().1 as nat }
}
pub proof fn lemma_wsum_push(q: Seq<(u64, usize)>, x: (u64, usize))
    ensures wsum(q.push(x)) == wsum(q) + x.1 as nat,
{ assert(q.push(x).drop_last() =~= q); }
pub proof fn lemma_wsum_pop_front(q: Seq<(u64, usize)>)
    requires q.len() > 0,
    ensures wsum(q.subrange(1, q.len() as int)) + q[0].1 as nat == wsum(q),
    decreases q.len(),
{
    if q.len() == 1 {
        assert(q.subrange(1, 1) =~= Seq::empty());
        assert(q.drop_last() =~= Seq::empty());
    } else {
        let t = q.subrange(1, q.len() as int);
        lemma_wsum_pop_front(q.drop_last());
        assert(t.drop_last() =~= q.drop_last().subrange(1, q.len() - 1));
        assert(t.last() == q.last());
        assert(q.drop_last()[0] == q[0]);
    }
}
/// every hash the set reports is the hash of an entry still in the window (no ghost hit without a recent eviction)
pub open spec fn hits_are_in_window(counts: Set<u64>, q: Seq<(u64, usize)>) -> bool {
    forall|h: u64| counts.contains(h) ==> exists|i: int| 0 <= i < q.len() && (#[trigger] q[i]).0 == h
}

/// `cur` is what is left of `oldq` after dropping its k oldest entries, and dropping the k-th was necessary to make room
pub open spec fn dropped_oldest(oldq: Seq<(u64, usize)>, k: int, cur: Seq<(u64, usize)>, weight: usize, cap: usize) -> bool {
    0 <= k <= oldq.len() && cur == oldq.subrange(k, oldq.len() as int)
        && (k > 0 ==> wsum(oldq.subrange(k - 1, oldq.len() as int)) + weight > cap)
}

impl GhostQueue {
    pub open spec fn wf(&self) -> bool {
        &&& self.weight == wsum(self.queue@)
        &&& hits_are_in_window(self.counts@, self.queue@)
    }

//@fn foyer-memory/src/eviction/s3fifo.rs :: impl~^impl GhostQueue$/fn pop
//@spec
        requires old(self).wf(),
        ensures
            final(self).wf(), // @label ghost_window_invariant_preserved
            final(self).capacity == old(self).capacity,
            old(self).queue@.len() == 0 ==> final(self).queue@ == old(self).queue@ && final(self).weight == old(self).weight,
            old(self).queue@.len() > 0 ==> final(self).queue@ == old(self).queue@.subrange(1, old(self).queue@.len() as int), // @label the_oldest_ghost_entry_is_dropped_first
            final(self).weight <= old(self).weight,
            forall|h: u64| final(self).counts@.contains(h) ==> old(self).counts@.contains(h),
//@after /if let Some\(\(hash, weight\)\) = self\.queue\.pop_front\(\) \{/
            proof { lemma_wsum_pop_front(old(self).queue@); }
//@after /self\.counts\.remove\(&hash\);/
            proof {
                let oq = old(self).queue@;
                assert forall|h: u64| self.counts@.contains(h) implies exists|i: int| 0 <= i < self.queue@.len() && (#[trigger] self.queue@[i]).0 == h by {
                    assert(old(self).counts@.contains(h) && h != hash);
                    let i = choose|i: int| 0 <= i < oq.len() && (#[trigger] oq[i]).0 == h;
                    assert(i != 0);
                    assert(self.queue@[i - 1] == oq[i]);
                }
            }
//@end

//@fn foyer-memory/src/eviction/s3fifo.rs :: impl~^impl GhostQueue$/fn contains ret=r
//@spec
        ensures r == self.counts@.contains(hash), // @label ghost_hit_is_membership_in_the_window_set
//@end

//@fn foyer-memory/src/eviction/s3fifo.rs :: impl~^impl GhostQueue$/fn update
//@spec
        requires old(self).wf(),
        ensures
            final(self).wf(), // @label ghost_window_invariant_preserved
            final(self).capacity == capacity, // @label resize_sets_the_window_capacity
            capacity > 0 ==> final(self).weight <= capacity, // @label shrunk_window_is_within_its_new_capacity
            exists|k: int| 0 <= k <= old(self).queue@.len() && final(self).queue@ == #[trigger] old(self).queue@.subrange(k, old(self).queue@.len() as int), // @label resize_drops_oldest_entries_only
//@loop 1
            invariant
                self.wf(), self.capacity == capacity, capacity > 0,
                exists|k: int| 0 <= k <= old(self).queue@.len() && self.queue@ == #[trigger] old(self).queue@.subrange(k, old(self).queue@.len() as int),
            decreases self.queue@.len(),
//@before /while self\.weight > self\.capacity/
        proof { assert(self.queue@ =~= old(self).queue@.subrange(0, old(self).queue@.len() as int)); }
//@before /self\.pop\(\);/
            let ghost k0 = choose|k: int| 0 <= k <= old(self).queue@.len() && self.queue@ == #[trigger] old(self).queue@.subrange(k, old(self).queue@.len() as int);
            proof { if self.queue@.len() == 0 { assert(wsum(self.queue@) == 0); } }
//@after /self\.pop\(\);/
            proof { assert(self.queue@ =~= old(self).queue@.subrange(k0 + 1, old(self).queue@.len() as int)); }
//@tail
        proof { if capacity == 0 { assert(self.queue@ =~= old(self).queue@.subrange(0, old(self).queue@.len() as int)); } }
//@end

//@fn foyer-memory/src/eviction/s3fifo.rs :: impl~^impl GhostQueue$/fn push
//@spec
        requires old(self).wf(), old(self).weight + weight <= usize::MAX,
        ensures
            final(self).wf(), // @label ghost_window_invariant_preserved
            final(self).capacity == old(self).capacity,
            old(self).capacity == 0 ==> final(self).queue@ == old(self).queue@ && final(self).counts@ == old(self).counts@, // @label disabled_ghost_queue_records_nothing
            old(self).capacity > 0 ==> final(self).counts@.contains(hash) && final(self).queue@.len() > 0 && final(self).queue@.last() == (hash, weight), // @label evicted_hash_enters_the_window_as_the_newest
            // only the oldest entries are dropped, and only as many as needed to make room
            old(self).capacity > 0 ==> exists|k: int| #[trigger] dropped_oldest(old(self).queue@, k, final(self).queue@.drop_last(), weight, old(self).capacity), // @label window_drops_oldest_first_and_no_more_than_needed
            old(self).capacity > 0 ==> (final(self).weight <= old(self).capacity || final(self).weight == weight), // @label window_stays_within_capacity_unless_the_new_entry_alone_exceeds_it
//@loop 1
            invariant
                self.wf(), self.capacity == old(self).capacity, self.capacity > 0, self.weight + weight <= usize::MAX,
                exists|k: int| #[trigger] dropped_oldest(old(self).queue@, k, self.queue@, weight, old(self).capacity), // @label only_a_prefix_of_oldest_entries_has_been_dropped
                forall|h: u64| self.counts@.contains(h) ==> old(self).counts@.contains(h),
            decreases self.queue@.len(),
//@before /while self\.weight \+ weight > self\.capacity/
        proof { assert(dropped_oldest(old(self).queue@, 0, self.queue@, weight, old(self).capacity)) by { assert(old(self).queue@.subrange(0, old(self).queue@.len() as int) =~= old(self).queue@); } }
//@before /self\.pop\(\);/
            let ghost k0 = choose|k: int| dropped_oldest(old(self).queue@, k, self.queue@, weight, old(self).capacity);
            let ghost q0 = self.queue@;
            proof { if self.queue@.len() == 0 { assert(wsum(self.queue@) == 0); } }
//@after /self\.pop\(\);/
            proof {
                let oq = old(self).queue@;
                assert(self.queue@ =~= oq.subrange(k0 + 1, oq.len() as int));
                assert(dropped_oldest(oq, k0 + 1, self.queue@, weight, old(self).capacity));
                assert forall|h: u64| self.counts@.contains(h) implies old(self).counts@.contains(h) by { }
            }
//@before /self\.queue\.push_back\(/
        let ghost k1 = choose|k: int| dropped_oldest(old(self).queue@, k, self.queue@, weight, old(self).capacity);
        let ghost q1 = self.queue@;
        let ghost c1 = self.counts@;
//@after /self\.weight \+= weight;/
        proof {
            lemma_wsum_push(q1, (hash, weight));
            assert(self.queue@ =~= q1.push((hash, weight)));
            assert(self.queue@.drop_last() =~= q1);
            assert(dropped_oldest(old(self).queue@, k1, self.queue@.drop_last(), weight, old(self).capacity));
            assert forall|h: u64| self.counts@.contains(h) implies exists|i: int| 0 <= i < self.queue@.len() && (#[trigger] self.queue@[i]).0 == h by {
                if h == hash { assert(self.queue@[self.queue@.len() - 1].0 == h); }
                else { assert(c1.contains(h)); let i = choose|i: int| 0 <= i < q1.len() && (#[trigger] q1[i]).0 == h; assert(self.queue@[i] == q1[i]); }
            }
        }
//@end
}


// =====================================================================================================
// S3Fifo::evict (C14): which queue the victim is taken from. The three queue scans (intrusive lists, unsafe state) are
// stand-ins that log the call and return an arbitrary answer; the contract pins the documented rule: the small queue is
// scanned first exactly when it EXCEEDS its configured share, else the main queue; the small queue is forced last.
// =====================================================================================================
pub struct RecT { pub id: int }
#[derive(PartialEq, Eq, Structural, Clone, Copy)]
pub enum Scan { Small, Main, SmallForced }
pub struct S3T {
    pub small_weight: usize, pub small_weight_capacity: usize,
    pub scans: Ghost<Seq<Scan>>,
    pub small_answer: Ghost<Option<RecT>>, pub main_answer: Ghost<Option<RecT>>, pub forced_answer: Ghost<Option<RecT>>,
}
impl S3T {
    #[verifier::external_body]
    fn evict_small(&mut self) -> (r: Option<RecT>)
        ensures r == old(self).small_answer@, final(self).scans@ == old(self).scans@.push(Scan::Small),
            final(self).main_answer == old(self).main_answer, final(self).forced_answer == old(self).forced_answer,
    { unimplemented!() }
    #[verifier::external_body]
    fn evict_main(&mut self) -> (r: Option<RecT>)
        ensures r == old(self).main_answer@, final(self).scans@ == old(self).scans@.push(Scan::Main),
            final(self).small_answer == old(self).small_answer, final(self).forced_answer == old(self).forced_answer,
    { unimplemented!() }
    #[verifier::external_body]
    fn evict_small_force(&mut self) -> (r: Option<RecT>)
        ensures r == old(self).forced_answer@, final(self).scans@ == old(self).scans@.push(Scan::SmallForced),
    { unimplemented!() }
//@region foyer-memory/src/eviction/s3fifo.rs :: impl~^impl<K, V, P> S3Fifo<K, V, P>/fn evict name=s3fifo_evict whole=1 rules=let-chain
//@head
    fn s3fifo_evict(&mut self) -> (r: Option<RecT>)
        ensures
            // small queue over its share: it is scanned first, and its victim (if any) is the victim
            old(self).small_weight > old(self).small_weight_capacity ==> final(self).scans@.len() > old(self).scans@.len() && final(self).scans@[old(self).scans@.len() as int] == Scan::Small
                && (old(self).small_answer@ is Some ==> r == old(self).small_answer@ && final(self).scans@ == old(self).scans@.push(Scan::Small)), // @label small_queue_over_its_share_is_evicted_first
            // small queue within its share (also exactly full): the main queue is scanned first
            old(self).small_weight <= old(self).small_weight_capacity ==> final(self).scans@.len() > old(self).scans@.len() && final(self).scans@[old(self).scans@.len() as int] == Scan::Main
                && (old(self).main_answer@ is Some ==> r == old(self).main_answer@ && final(self).scans@ == old(self).scans@.push(Scan::Main)), // @label small_queue_within_its_share_leaves_the_victim_to_the_main_queue
            // the small queue is forced only after the main queue had nothing
            forall|i: int| old(self).scans@.len() <= i < final(self).scans@.len() && (#[trigger] final(self).scans@[i]) == Scan::SmallForced ==> i > 0 && final(self).scans@[i - 1] == Scan::Main && old(self).main_answer@ is None, // @label small_queue_is_forced_only_after_the_main_queue_was_empty
//@end
}

} // verus!

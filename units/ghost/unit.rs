// UNIT ghost — S3-FIFO's ghost queue (C14): a bounded FIFO window of the hashes recently evicted from the small queue.
// The intrusive small/main queues of S3Fifo are outside Verus (unsafe pointers); this plain data structure is not.
#![allow(unused_imports, unused_variables, dead_code, unused_mut)]
use vstd::prelude::*;
use std::collections::{HashSet, VecDeque};
verus! {

global size_of usize == 8;

//@item foyer-memory/src/eviction/s3fifo.rs :: struct GhostQueue rules=pub-fields sub=@^struct GhostQueue@pub struct GhostQueue@

pub open spec fn wsum(q: Seq<(u64, usize)>) -> nat decreases q.len() {
    if q.len() == 0 { 0 } else { wsum(q.drop_last()) + q.last().1 as nat }
}
pub proof fn lemma_wsum_push(q: Seq<(u64, usize)>, x: (u64, usize))
    ensures wsum(q.push(x)) == wsum(q) + x.1 as nat,
{ assert(q.push(x).drop_last() =~= q); }
pub proof fn lemma_wsum_pop_front(q: Seq<(u64, usize)>)
    requires q.len() > 0,
    ensures wsum(q.subrange(1, q.len() as int)) + q[0].1 as nat == wsum(q),
    decreases q.len(),
{
    if q.len() == 1 {
        assert(q.subrange(1, 1) =~= Seq::empty());
        assert(q.drop_last() =~= Seq::empty());
    } else {
        let t = q.subrange(1, q.len() as int);
        lemma_wsum_pop_front(q.drop_last());
        assert(t.drop_last() =~= q.drop_last().subrange(1, q.len() - 1));
        assert(t.last() == q.last());
        assert(q.drop_last()[0] == q[0]);
    }
}
/// every hash the set reports is the hash of an entry still in the window (no ghost hit without a recent eviction)
pub open spec fn hits_are_in_window(counts: Set<u64>, q: Seq<(u64, usize)>) -> bool {
    forall|h: u64| counts.contains(h) ==> exists|i: int| 0 <= i < q.len() && (#[trigger] q[i]).0 == h
}

/// `cur` is what is left of `oldq` after dropping its k oldest entries, and dropping the k-th was necessary to make room
pub open spec fn dropped_oldest(oldq: Seq<(u64, usize)>, k: int, cur: Seq<(u64, usize)>, weight: usize, cap: usize) -> bool {
    0 <= k <= oldq.len() && cur == oldq.subrange(k, oldq.len() as int)
        && (k > 0 ==> wsum(oldq.subrange(k - 1, oldq.len() as int)) + weight > cap)
}

impl GhostQueue {
    pub open spec fn wf(&self) -> bool {
        &&& self.weight == wsum(self.queue@)
        &&& hits_are_in_window(self.counts@, self.queue@)
    }

//@fn foyer-memory/src/eviction/s3fifo.rs :: impl~^impl GhostQueue$/fn pop
//@spec
        requires old(self).wf(),
        ensures
            final(self).wf(), // @label ghost_window_invariant_preserved
            final(self).capacity == old(self).capacity,
            old(self).queue@.len() == 0 ==> final(self).queue@ == old(self).queue@ && final(self).weight == old(self).weight,
            old(self).queue@.len() > 0 ==> final(self).queue@ == old(self).queue@.subrange(1, old(self).queue@.len() as int), // @label the_oldest_ghost_entry_is_dropped_first
            final(self).weight <= old(self).weight,
            forall|h: u64| final(self).counts@.contains(h) ==> old(self).counts@.contains(h),
//@after /if let Some\(\(hash, weight\)\) = self\.queue\.pop_front\(\) \{/
            proof { lemma_wsum_pop_front(old(self).queue@); }
//@after /self\.counts\.remove\(&hash\);/
            proof {
                let oq = old(self).queue@;
                assert forall|h: u64| self.counts@.contains(h) implies exists|i: int| 0 <= i < self.queue@.len() && (#[trigger] self.queue@[i]).0 == h by {
                    assert(old(self).counts@.contains(h) && h != hash);
                    let i = choose|i: int| 0 <= i < oq.len() && (#[trigger] oq[i]).0 == h;
                    assert(i != 0);
                    assert(self.queue@[i - 1] == oq[i]);
                }
            }
//@end

//@fn foyer-memory/src/eviction/s3fifo.rs :: impl~^impl GhostQueue$/fn contains ret=r
//@spec
        ensures r == self.counts@.contains(hash), // @label ghost_hit_is_membership_in_the_window_set
//@end

//@fn foyer-memory/src/eviction/s3fifo.rs :: impl~^impl GhostQueue$/fn update
//@spec
        requires old(self).wf(),
        ensures
            final(self).wf(), // @label ghost_window_invariant_preserved
            final(self).capacity == capacity, // @label resize_sets_the_window_capacity
            capacity > 0 ==> final(self).weight <= capacity, // @label shrunk_window_is_within_its_new_capacity
            exists|k: int| 0 <= k <= old(self).queue@.len() && final(self).queue@ == #[trigger] old(self).queue@.subrange(k, old(self).queue@.len() as int), // @label resize_drops_oldest_entries_only
//@loop 1
            invariant
                self.wf(), self.capacity == capacity, capacity > 0,
                exists|k: int| 0 <= k <= old(self).queue@.len() && self.queue@ == #[trigger] old(self).queue@.subrange(k, old(self).queue@.len() as int),
            decreases self.queue@.len(),
//@before /while self\.weight/
        proof { assert(self.queue@ =~= old(self).queue@.subrange(0, old(self).queue@.len() as int)); }
//@before /self\.pop\(\);/
            let ghost k0 = choose|k: int| 0 <= k <= old(self).queue@.len() && self.queue@ == #[trigger] old(self).queue@.subrange(k, old(self).queue@.len() as int);
            proof { if self.queue@.len() == 0 { assert(wsum(self.queue@) == 0); } }
//@after /self\.pop\(\);/
            proof { assert(self.queue@ =~= old(self).queue@.subrange(k0 + 1, old(self).queue@.len() as int)); }
//@tail
        proof { if capacity == 0 { assert(self.queue@ =~= old(self).queue@.subrange(0, old(self).queue@.len() as int)); } }
//@end

//@fn foyer-memory/src/eviction/s3fifo.rs :: impl~^impl GhostQueue$/fn push
//@spec
        requires old(self).wf(), old(self).weight + weight <= usize::MAX,
        ensures
            final(self).wf(), // @label ghost_window_invariant_preserved
            final(self).capacity == old(self).capacity,
            old(self).capacity == 0 ==> final(self).queue@ == old(self).queue@ && final(self).counts@ == old(self).counts@, // @label disabled_ghost_queue_records_nothing
            old(self).capacity > 0 ==> final(self).counts@.contains(hash) && final(self).queue@.len() > 0 && final(self).queue@.last() == (hash, weight), // @label evicted_hash_enters_the_window_as_the_newest
            // only the oldest entries are dropped, and only as many as needed to make room
            old(self).capacity > 0 ==> exists|k: int| #[trigger] dropped_oldest(old(self).queue@, k, final(self).queue@.drop_last(), weight, old(self).capacity), // @label window_drops_oldest_first_and_no_more_than_needed
            old(self).capacity > 0 ==> (final(self).weight <= old(self).capacity || final(self).weight == weight), // @label window_stays_within_capacity_unless_the_new_entry_alone_exceeds_it
            final(self).weight <= old(self).weight + weight,
//@loop 1
            invariant
                self.wf(), self.capacity == old(self).capacity, self.capacity > 0, self.weight + weight <= usize::MAX,
                exists|k: int| #[trigger] dropped_oldest(old(self).queue@, k, self.queue@, weight, old(self).capacity), // @label only_a_prefix_of_oldest_entries_has_been_dropped
                forall|h: u64| self.counts@.contains(h) ==> old(self).counts@.contains(h),
                self.weight <= old(self).weight,
            decreases self.queue@.len(),
//@before /while self\.weight/
        proof { assert(dropped_oldest(old(self).queue@, 0, self.queue@, weight, old(self).capacity)) by { assert(old(self).queue@.subrange(0, old(self).queue@.len() as int) =~= old(self).queue@); } }
//@before /self\.pop\(\);/
            let ghost k0 = choose|k: int| dropped_oldest(old(self).queue@, k, self.queue@, weight, old(self).capacity);
            let ghost q0 = self.queue@;
            proof { if self.queue@.len() == 0 { assert(wsum(self.queue@) == 0); } }
//@after /self\.pop\(\);/
            proof {
                let oq = old(self).queue@;
                assert(self.queue@ =~= oq.subrange(k0 + 1, oq.len() as int));
                assert(dropped_oldest(oq, k0 + 1, self.queue@, weight, old(self).capacity));
                assert forall|h: u64| self.counts@.contains(h) implies old(self).counts@.contains(h) by { }
            }
//@before /self\.queue\.push_back\(/
        let ghost k1 = choose|k: int| dropped_oldest(old(self).queue@, k, self.queue@, weight, old(self).capacity);
        let ghost q1 = self.queue@;
        let ghost c1 = self.counts@;
//@after /self\.weight \+= weight;/
        proof {
            lemma_wsum_push(q1, (hash, weight));
            assert(self.queue@ =~= q1.push((hash, weight)));
            assert(self.queue@.drop_last() =~= q1);
            assert(dropped_oldest(old(self).queue@, k1, self.queue@.drop_last(), weight, old(self).capacity));
            assert forall|h: u64| self.counts@.contains(h) implies exists|i: int| 0 <= i < self.queue@.len() && (#[trigger] self.queue@[i]).0 == h by {
                if h == hash { assert(self.queue@[self.queue@.len() - 1].0 == h); }
                else { assert(c1.contains(h)); let i = choose|i: int| 0 <= i < q1.len() && (#[trigger] q1[i]).0 == h; assert(self.queue@[i] == q1[i]); }
            }
        }
//@end
}


// =====================================================================================================
// S3Fifo::evict (C14): which queue the victim is taken from. The three queue scans (intrusive lists, unsafe state) are
// stand-ins that log the call and return an arbitrary answer; the contract pins the documented rule: the small queue is
// scanned first exactly when it EXCEEDS its configured share, else the main queue; the small queue is forced last.
// =====================================================================================================
pub struct RecT { pub id: int }
#[derive(PartialEq, Eq, Structural, Clone, Copy)]
pub enum Scan { Small, Main, SmallForced }
pub struct S3T {
    pub small_weight: usize, pub small_weight_capacity: usize,
    pub scans: Ghost<Seq<Scan>>,
    pub small_answer: Ghost<Option<RecT>>, pub main_answer: Ghost<Option<RecT>>, pub forced_answer: Ghost<Option<RecT>>,
}
impl S3T {
    #[verifier::external_body]
    fn evict_small(&mut self) -> (r: Option<RecT>)
        ensures r == old(self).small_answer@, final(self).scans@ == old(self).scans@.push(Scan::Small),
            final(self).main_answer == old(self).main_answer, final(self).forced_answer == old(self).forced_answer,
    { unimplemented!() }
    #[verifier::external_body]
    fn evict_main(&mut self) -> (r: Option<RecT>)
        ensures r == old(self).main_answer@, final(self).scans@ == old(self).scans@.push(Scan::Main),
            final(self).small_answer == old(self).small_answer, final(self).forced_answer == old(self).forced_answer,
    { unimplemented!() }
    #[verifier::external_body]
    fn evict_small_force(&mut self) -> (r: Option<RecT>)
        ensures r == old(self).forced_answer@, final(self).scans@ == old(self).scans@.push(Scan::SmallForced),
    { unimplemented!() }
//@region foyer-memory/src/eviction/s3fifo.rs :: impl~^impl<K, V, P> S3Fifo<K, V, P>/fn evict name=s3fifo_evict whole=1 rules=let-chain
//@head
    fn s3fifo_evict(&mut self) -> (r: Option<RecT>)
        ensures
            // small queue over its share: it is scanned first, and its victim (if any) is the victim
            old(self).small_weight > old(self).small_weight_capacity ==> final(self).scans@.len() > old(self).scans@.len() && final(self).scans@[old(self).scans@.len() as int] == Scan::Small
                && (old(self).small_answer@ is Some ==> r == old(self).small_answer@ && final(self).scans@ == old(self).scans@.push(Scan::Small)), // @label small_queue_over_its_share_is_evicted_first
            // small queue within its share (also exactly full): the main queue is scanned first
            old(self).small_weight <= old(self).small_weight_capacity ==> final(self).scans@.len() > old(self).scans@.len() && final(self).scans@[old(self).scans@.len() as int] == Scan::Main
                && (old(self).main_answer@ is Some ==> r == old(self).main_answer@ && final(self).scans@ == old(self).scans@.push(Scan::Main)), // @label small_queue_within_its_share_leaves_the_victim_to_the_main_queue
            // the small queue is forced only after the main queue had nothing
            forall|i: int| old(self).scans@.len() <= i < final(self).scans@.len() && (#[trigger] final(self).scans@[i]) == Scan::SmallForced ==> i > 0 && final(self).scans@[i - 1] == Scan::Main && old(self).main_answer@ is None, // @label small_queue_is_forced_only_after_the_main_queue_was_empty
//@end
}


// =====================================================================================================
// S3Fifo::evict_small / evict_main (C14): the two queue scans over stand-in queues (the real ones are intrusive lists;
// `&mut *record.state().get()` becomes a field borrow). Records are identified by a ghost id.
//   small: records accessed at least `threshold` times move to the main queue (in order), the first one that was not
//          is the victim: frequency reset, its hash enters the ghost queue.
//   main:  a record whose frequency was still positive gets another round (frequency - 1, to the back), the first one
//          with frequency 0 is the victim.
// =====================================================================================================
//@item foyer-memory/src/eviction/s3fifo.rs :: enum Queue rules=derive-structural sub=@enum Queue@pub enum Queue@
pub struct StT { pub freq: u8, pub queue: Queue }
impl StT {
    pub fn frequency(&self) -> (r: u8) ensures r == self.freq { self.freq }
    pub fn set_frequency(&mut self, val: u8) ensures final(self).freq == val, final(self).queue == old(self).queue { self.freq = val; }
    /// `fetch_update(.., |v| Some(v.saturating_sub(1))).unwrap()`: returns the PREVIOUS value
    pub fn dec_frequency(&mut self) -> (r: u8)
        ensures r == old(self).freq, final(self).freq == (if old(self).freq > 0 { (old(self).freq - 1) as u8 } else { 0u8 }), final(self).queue == old(self).queue,
    { let v = self.freq; if v > 0 { self.freq = v - 1; } v }
}
pub struct QRec { pub id: Ghost<int>, pub st: StT, pub w: usize, pub h: u64 }
impl QRec {
    pub fn weight(&self) -> (r: usize) ensures r == self.w { self.w }
    pub fn hash(&self) -> (r: u64) ensures r == self.h { self.h }
    #[verifier::external_body] pub fn set_in_eviction(&self, v: bool) { }
    #[verifier::external_body] pub fn is_in_eviction(&self) -> bool { unimplemented!() }
}
#[verifier::external_body]
pub struct ListT { _p: core::marker::PhantomData<QRec> }
impl ListT {
    pub uninterp spec fn view(&self) -> Seq<QRec>;
    #[verifier::external_body]
    pub fn pop_front(&mut self) -> (r: Option<QRec>)
        ensures old(self)@.len() == 0 ==> r is None && final(self)@ == old(self)@,
            old(self)@.len() > 0 ==> r == Some(old(self)@[0]) && final(self)@ == old(self)@.subrange(1, old(self)@.len() as int),
    { unimplemented!() }
    #[verifier::external_body]
    pub fn push_back(&mut self, r: QRec) ensures final(self)@ == old(self)@.push(r) { }
    /// intrusive unlink of the record the pointer names (unsafe fn: the caller guarantees it is linked in THIS list)
    #[verifier::external_body]
    pub fn remove_from_ptr(&mut self, p: PtrT) -> (r: QRec)
        requires exists|i: int| 0 <= i < old(self)@.len() && old(self)@[i] == p.rec@,
        ensures r == p.rec@, exists|i: int| 0 <= i < old(self)@.len() && old(self)@[i] == p.rec@ && final(self)@ == #[trigger] old(self)@.remove(i),
    { unimplemented!() }
}
/// `Arc::as_ptr(record)`: the pointer names the record
pub struct PtrT { pub rec: Ghost<QRec> }
pub fn verif_ptr(record: &QRec) -> (p: PtrT) ensures p.rec@ == *record { PtrT { rec: Ghost(*record) } }
pub proof fn lemma_qsum_remove(s: Seq<QRec>, i: int)
    requires 0 <= i < s.len(),
    ensures qsum(s.remove(i)) + s[i].w as nat == qsum(s),
    decreases s.len(),
{
    if i == s.len() - 1 { assert(s.remove(i) =~= s.drop_last()); }
    else {
        lemma_qsum_remove(s.drop_last(), i);
        assert(s.remove(i).drop_last() =~= s.drop_last().remove(i));
        assert(s.remove(i).last() == s.last());
        assert(s.drop_last()[i] == s[i]);
    }
}
pub open spec fn ids(s: Seq<QRec>) -> Seq<int> { s.map_values(|r: QRec| r.id@) }
pub open spec fn qsum(s: Seq<QRec>) -> nat decreases s.len() { if s.len() == 0 { 0 } else { qsum(s.drop_last()) + s.last().w as nat } }
pub proof fn lemma_qsum_pop_front(s: Seq<QRec>)
    requires s.len() > 0,
    ensures qsum(s.subrange(1, s.len() as int)) + s[0].w as nat == qsum(s),
    decreases s.len(),
{
    if s.len() == 1 { assert(s.subrange(1, 1) =~= Seq::empty()); assert(s.drop_last() =~= Seq::empty()); }
    else {
        let t = s.subrange(1, s.len() as int);
        lemma_qsum_pop_front(s.drop_last());
        assert(t.drop_last() =~= s.drop_last().subrange(1, s.len() - 1));
        assert(t.last() == s.last()); assert(s.drop_last()[0] == s[0]);
    }
}
pub open spec fn fsum(s: Seq<QRec>) -> nat decreases s.len() { if s.len() == 0 { 0 } else { fsum(s.drop_last()) + s.last().st.freq as nat } }
pub proof fn lemma_fsum_pop_front(s: Seq<QRec>)
    requires s.len() > 0,
    ensures fsum(s.subrange(1, s.len() as int)) + s[0].st.freq as nat == fsum(s),
    decreases s.len(),
{
    if s.len() == 1 { assert(s.subrange(1, 1) =~= Seq::empty()); assert(s.drop_last() =~= Seq::empty()); }
    else {
        let t = s.subrange(1, s.len() as int);
        lemma_fsum_pop_front(s.drop_last());
        assert(t.drop_last() =~= s.drop_last().subrange(1, s.len() - 1));
        assert(t.last() == s.last()); assert(s.drop_last()[0] == s[0]);
    }
}
pub proof fn lemma_fsum_push(s: Seq<QRec>, x: QRec) ensures fsum(s.push(x)) == fsum(s) + x.st.freq as nat { assert(s.push(x).drop_last() =~= s); }
pub proof fn lemma_qsum_push(s: Seq<QRec>, x: QRec) ensures qsum(s.push(x)) == qsum(s) + x.w as nat { assert(s.push(x).drop_last() =~= s); }
/// index of the first record in the small queue that was accessed fewer than `thr` times (len if none)
pub open spec fn first_cold(s: Seq<QRec>, thr: u8) -> int decreases s.len() {
    if s.len() == 0 { 0 } else if s[0].st.freq < thr { 0 } else { 1 + first_cold(s.subrange(1, s.len() as int), thr) }
}
pub struct QueuesT { pub ghost_queue: GhostQueue, pub small_queue: ListT, pub main_queue: ListT, pub small_weight: usize, pub main_weight: usize, pub small_to_main_freq_threshold: u8 }
impl QueuesT {
    pub open spec fn wfq(&self) -> bool {
        self.small_weight == qsum(self.small_queue@) && self.main_weight == qsum(self.main_queue@) && self.ghost_queue.wf()
            && qsum(self.small_queue@) + qsum(self.main_queue@) + self.ghost_queue.weight <= usize::MAX
    }
//@region foyer-memory/src/eviction/s3fifo.rs :: impl~^impl<K, V, P> S3Fifo<K, V, P>/fn evict_small name=s3fifo_evict_small whole=1 sub=@while let Some\(record\)@while let Some(mut record)@ sub=@unsafe \{ &mut \*record\.state\(\)\.get\(\) \}@&mut record.st@
//@head
    fn s3fifo_evict_small(&mut self) -> (r: Option<QRec>)
        requires old(self).wfq(),
        ensures
            final(self).wfq(), // @label queue_weights_stay_exact
            final(self).small_to_main_freq_threshold == old(self).small_to_main_freq_threshold,
            ({
                let s = old(self).small_queue@; let n = first_cold(s, old(self).small_to_main_freq_threshold);
                &&& 0 <= n <= s.len()
                &&& ids(final(self).main_queue@) == ids(old(self).main_queue@) + ids(s.subrange(0, n))
                &&& (n < s.len() ==> r is Some && r.unwrap().id@ == s[n].id@ && r.unwrap().st.freq == 0 && r.unwrap().st.queue == Queue::None
                        && ids(final(self).small_queue@) == ids(s.subrange(n + 1, s.len() as int))
                        && final(self).ghost_queue.contains_hash(s[n].h))
                &&& (n == s.len() ==> r is None && final(self).small_queue@.len() == 0)
            }), // @label accessed_records_move_to_main_in_order_and_the_first_cold_one_is_the_victim_and_enters_the_ghost_queue
//@prologue
        let ghost s0 = self.small_queue@;
        let ghost m0 = self.main_queue@;
        let ghost thr = self.small_to_main_freq_threshold;
        let ghost mut k: int = 0;
        proof { assert(s0.subrange(0, s0.len() as int) =~= s0); assert(ids(s0.subrange(0, 0)) =~= Seq::<int>::empty()); assert(ids(m0) + Seq::<int>::empty() =~= ids(m0)); }
//@loop 1
            invariant
                0 <= k <= s0.len(), self.small_queue@ == s0.subrange(k, s0.len() as int),
                ids(self.main_queue@) == ids(m0) + ids(s0.subrange(0, k)),
                first_cold(s0, thr) == k + first_cold(self.small_queue@, thr),
                self.small_to_main_freq_threshold == thr, self.wfq(),
                s0 == old(self).small_queue@, m0 == old(self).main_queue@, thr == old(self).small_to_main_freq_threshold,
            ensures self.small_queue@.len() == 0,
            decreases self.small_queue@.len(),
//@before /let state = &mut record\.st;/
            let ghost rec0 = record;
            let ghost main_before = self.main_queue@;
            let ghost before = s0.subrange(k, s0.len() as int);
            proof {
                assert(before.len() > 0);
                lemma_qsum_pop_front(before);
                assert(rec0 == s0[k]);
                assert(before.subrange(1, before.len() as int) =~= s0.subrange(k + 1, s0.len() as int));
            }
//@after /self\.main_queue\.push_back\(record\);/
                proof {
                    lemma_qsum_push(main_before, self.main_queue@.last());
                    assert(ids(s0.subrange(0, k + 1)) =~= ids(s0.subrange(0, k)).push(s0[k].id@));
                    assert(ids(self.main_queue@) =~= ids(main_before).push(rec0.id@));
                    assert(ids(self.main_queue@) =~= ids(m0) + ids(s0.subrange(0, k + 1)));
                    assert(first_cold(before, thr) == 1 + first_cold(before.subrange(1, before.len() as int), thr));
                    k = k + 1;
                }
//@before /return Some\(record\);/
                proof {
                    assert(first_cold(before, thr) == 0);
                    assert(ids(self.small_queue@) == ids(s0.subrange(k + 1, s0.len() as int)));
                }
//@before /^\s*None\s*$/
        proof { assert(first_cold(self.small_queue@, thr) == 0); }
//@end
//@region foyer-memory/src/eviction/s3fifo.rs :: impl~^impl<K, V, P> S3Fifo<K, V, P>/fn evict_main name=s3fifo_evict_main whole=1 sub=@while let Some\(record\)@while let Some(mut record)@ sub=@unsafe \{ &mut \*record\.state\(\)\.get\(\) \}@&mut record.st@
//@head
    fn s3fifo_evict_main(&mut self) -> (r: Option<QRec>)
        requires old(self).wfq(),
        ensures
            final(self).wfq(), // @label queue_weights_stay_exact
            final(self).small_queue@ == old(self).small_queue@ && final(self).ghost_queue == old(self).ghost_queue,
            (r is None) == (old(self).main_queue@.len() == 0), // @label a_non_empty_main_queue_always_yields_a_victim
            r matches Some(v) ==> v.st.freq == 0 && v.st.queue == Queue::None && ids(old(self).main_queue@).contains(v.id@)
                && final(self).main_queue@.len() == old(self).main_queue@.len() - 1, // @label victim_of_the_main_queue_has_used_up_its_second_chances
            // no second chance to give: plain FIFO
            old(self).main_queue@.len() > 0 && old(self).main_queue@[0].st.freq == 0 ==>
                r.unwrap().id@ == old(self).main_queue@[0].id@ && final(self).main_queue@ == old(self).main_queue@.subrange(1, old(self).main_queue@.len() as int), // @label head_without_second_chance_is_evicted_first
            // a head that was accessed since it entered is not the victim while another record is in the queue... it goes to the back with one chance less
            old(self).main_queue@.len() > 1 && old(self).main_queue@[0].st.freq > 0 && old(self).main_queue@[1].st.freq == 0 ==>
                r.unwrap().id@ == old(self).main_queue@[1].id@, // @label accessed_head_gets_a_second_chance
//@prologue
        let ghost m0 = self.main_queue@;
        let ghost mut rounds: int = 0;
        let ghost mut cur = self.main_queue@;
        proof { assert forall|i: int| 0 <= i < m0.len() implies ids(m0).contains((#[trigger] m0[i]).id@) by { assert(ids(m0)[i] == m0[i].id@); } }
//@loop 1
            invariant
                self.wfq(), self.small_queue@ == old(self).small_queue@, self.ghost_queue == old(self).ghost_queue, m0 == old(self).main_queue@,
                self.main_queue@.len() == m0.len(), cur == self.main_queue@,
                forall|i: int| 0 <= i < self.main_queue@.len() ==> ids(m0).contains((#[trigger] self.main_queue@[i]).id@),
                rounds >= 0,
                rounds == 0 ==> self.main_queue@ == m0,
                rounds == 1 && m0.len() > 1 ==> m0[0].st.freq > 0 && self.main_queue@[0] == m0[1],
                rounds > 0 ==> m0.len() > 0 && m0[0].st.freq > 0,
                rounds >= 2 && m0.len() > 1 ==> m0[1].st.freq > 0,
            ensures self.main_queue@.len() == 0 && m0.len() == 0,
            decreases fsum(self.main_queue@),
//@before /let state = &mut record\.st;/
            let ghost rec0 = record;
            let ghost before = cur;   // the queue as it was at the loop head
            let ghost rest = self.main_queue@;
            proof {
                assert(before.len() > 0 && before[0] == rec0);
                assert(before.subrange(1, before.len() as int) =~= rest);
                lemma_qsum_pop_front(before);
                lemma_fsum_pop_front(before);
                assert(ids(m0).contains(rec0.id@));
            }
//@after /self\.main_queue\.push_back\(record\);/
                proof {
                    lemma_qsum_push(rest, self.main_queue@.last());
                    lemma_fsum_push(rest, self.main_queue@.last());
                    assert(self.main_queue@.last().id@ == rec0.id@);
                    assert forall|i: int| 0 <= i < self.main_queue@.len() implies ids(m0).contains((#[trigger] self.main_queue@[i]).id@) by {
                        if i < rest.len() { assert(self.main_queue@[i] == rest[i]); }
                    }
                    if rounds == 0 && m0.len() > 1 { assert(self.main_queue@[0] == rest[0]); assert(rest[0] == m0[1]); }
                    rounds = rounds + 1;
                    cur = self.main_queue@;
                }
//@end
// ---- S3Fifo::push: a record whose hash is still in the ghost window (it was evicted from the small queue recently)
// enters the MAIN queue, any other record enters the small queue; weights stay exact
//@region foyer-memory/src/eviction/s3fifo.rs :: impl~^impl<K, V, P> Eviction for S3Fifo<K, V, P>/fn push name=s3fifo_push whole=1 rules=assert-eq sub=@let state = unsafe \{ &mut \*record\.state\(\)\.get\(\) \};@@ sub=@\bstate\.@record.st.@
//@head
    fn s3fifo_push(&mut self, mut record: QRec)
        requires old(self).wfq(), record.st.freq == 0, record.st.queue == Queue::None,
            qsum(old(self).small_queue@) + qsum(old(self).main_queue@) + old(self).ghost_queue.weight + record.w <= usize::MAX,
        ensures
            final(self).ghost_queue == old(self).ghost_queue,
            final(self).small_weight == qsum(final(self).small_queue@) && final(self).main_weight == qsum(final(self).main_queue@), // @label queue_weights_stay_exact
            old(self).ghost_queue.counts@.contains(record.h) ==> final(self).small_queue@ == old(self).small_queue@
                && final(self).main_queue@.len() == old(self).main_queue@.len() + 1 && final(self).main_queue@.last().id@ == record.id@ && final(self).main_queue@.last().st.queue == Queue::Main
                && final(self).main_queue@.drop_last() == old(self).main_queue@, // @label a_recently_evicted_key_re_enters_through_the_main_queue
            !old(self).ghost_queue.counts@.contains(record.h) ==> final(self).main_queue@ == old(self).main_queue@
                && final(self).small_queue@.len() == old(self).small_queue@.len() + 1 && final(self).small_queue@.last().id@ == record.id@ && final(self).small_queue@.last().st.queue == Queue::Small
                && final(self).small_queue@.drop_last() == old(self).small_queue@, // @label a_new_key_enters_through_the_small_queue
//@prologue
        let ghost s0 = self.small_queue@;
        let ghost m0 = self.main_queue@;
//@after /self\.main_queue\.push_back\(record\);/
            proof { lemma_qsum_push(m0, self.main_queue@.last()); assert(self.main_queue@.drop_last() =~= m0); }
//@after /self\.small_queue\.push_back\(record\);/
            proof { lemma_qsum_push(s0, self.small_queue@.last()); assert(self.small_queue@.drop_last() =~= s0); }
//@end
// ---- S3Fifo::remove: the record leaves the queue its tag names, that queue's weight follows, tag and frequency are reset
//@region foyer-memory/src/eviction/s3fifo.rs :: impl~^impl<K, V, P> Eviction for S3Fifo<K, V, P>/fn remove name=s3fifo_remove whole=1 sub=@let state = unsafe \{ &mut \*record\.state\(\)\.get\(\) \};@@ sub=@\bstate\.@record.st.@ sub=@unsafe \{ self\.(\w+)\.remove_from_ptr\(Arc::as_ptr\(record\)\) \};@self.\1.remove_from_ptr(verif_ptr(record));@
//@head
    fn s3fifo_remove(&mut self, record: &mut QRec)
        requires old(self).wfq(), old(record).st.queue != Queue::None,
            old(record).st.queue == Queue::Main ==> exists|i: int| 0 <= i < old(self).main_queue@.len() && old(self).main_queue@[i] == *old(record),
            old(record).st.queue == Queue::Small ==> exists|i: int| 0 <= i < old(self).small_queue@.len() && old(self).small_queue@[i] == *old(record),
        ensures
            final(self).wfq(), // @label queue_weights_stay_exact
            final(self).ghost_queue == old(self).ghost_queue, final(self).small_to_main_freq_threshold == old(self).small_to_main_freq_threshold,
            final(record).st.queue == Queue::None && final(record).st.freq == 0, // @label a_removed_record_forgets_its_queue_and_its_frequency
            final(record).id == old(record).id && final(record).w == old(record).w && final(record).h == old(record).h,
            old(record).st.queue == Queue::Main ==> final(self).small_queue@ == old(self).small_queue@
                && exists|i: int| 0 <= i < old(self).main_queue@.len() && old(self).main_queue@[i] == *old(record) && final(self).main_queue@ == #[trigger] old(self).main_queue@.remove(i), // @label the_record_leaves_the_queue_its_tag_names
            old(record).st.queue == Queue::Small ==> final(self).main_queue@ == old(self).main_queue@
                && exists|i: int| 0 <= i < old(self).small_queue@.len() && old(self).small_queue@[i] == *old(record) && final(self).small_queue@ == #[trigger] old(self).small_queue@.remove(i), // @label the_record_leaves_the_queue_its_tag_names
//@prologue
        let ghost s0 = self.small_queue@;
        let ghost m0 = self.main_queue@;
//@after /self\.main_queue\.remove_from_ptr\(verif_ptr\(record\)\);/
                proof { let i = choose|i: int| 0 <= i < m0.len() && m0[i] == *old(record) && self.main_queue@ == #[trigger] m0.remove(i); lemma_qsum_remove(m0, i); }
//@after /self\.small_queue\.remove_from_ptr\(verif_ptr\(record\)\);/
                proof { let i = choose|i: int| 0 <= i < s0.len() && s0[i] == *old(record) && self.small_queue@ == #[trigger] s0.remove(i); lemma_qsum_remove(s0, i); }
//@end
}
pub open spec fn old_main_of(m: Seq<QRec>) -> Seq<QRec> { m.drop_last() }
impl GhostQueue {
    pub open spec fn contains_hash(&self, h: u64) -> bool { self.capacity > 0 ==> self.counts@.contains(h) }
}


// =====================================================================================================
// Lfu::pop (w-TinyLFU, C14), the choice of the victim: the front of the window and the front of probation compete by
// their sketch estimates -- the LOWER estimate is evicted, a tie goes to probation; with one of the two queues empty the
// other one's front is the victim; the protected queue is touched only when both are empty. The intrusive queues and
// their cursors are stand-ins (a cursor reports / removes the front it was created on); the count-min sketch is an
// uninterpreted function of the hash.
// =====================================================================================================
pub struct LRec { pub id: Ghost<int>, pub h: u64, pub w: usize }
impl LRec { pub fn hash(&self) -> (r: u64) ensures r == self.h { self.h } pub fn weight(&self) -> (r: usize) ensures r == self.w { self.w } }
pub struct SketchT { }
pub uninterp spec fn spec_estimate(h: u64) -> u16;
pub struct CursorT { pub front: Option<LRec> }
impl CursorT {
    pub fn get(&self) -> (r: Option<&LRec>) ensures r.is_some() == self.front.is_some(), r.is_some() ==> *r.unwrap() == self.front.unwrap() { self.front.as_ref() }
    #[verifier::external_body]
    pub fn remove(&mut self) -> (r: Option<LRec>) ensures r == old(self).front { unimplemented!() }
}
pub struct LQueueT { pub front: Option<LRec> }
impl LQueueT {
    #[verifier::external_body]
    pub fn front_mut(&mut self) -> (r: CursorT) ensures r.front == old(self).front, final(self).front == old(self).front { unimplemented!() }
    #[verifier::external_body]
    pub fn pop_front(&mut self) -> (r: Option<LRec>) ensures r == old(self).front { unimplemented!() }
}
pub struct LfuT { pub window: LQueueT, pub probation: LQueueT, pub protected: LQueueT, pub frequencies: SketchT }
impl LfuT {
    #[verifier::external_body]
    fn estimate_frequency(frequencies: &SketchT, hash: u64) -> (r: u16) ensures r == spec_estimate(hash) { unimplemented!() }
//@region foyer-memory/src/eviction/lfu.rs :: impl~^impl<K, V, P> Eviction for Lfu<K, V, P>/fn pop name=lfu_pop_choice start=/let mut cw = / stmts=3 rules=option-or-else sub=@Self::estimate_frequency@LfuT::estimate_frequency@
//@head
    fn lfu_pop_choice(&mut self) -> (r: Option<LRec>)
        ensures
            ({
                let w = old(self).window.front; let p = old(self).probation.front; let q = old(self).protected.front;
                &&& (w is None && p is None ==> r == q) // @label protected_queue_is_touched_only_when_window_and_probation_are_empty
                &&& (w is None && p is Some ==> r == p)
                &&& (w is Some && p is None ==> r == w)
                &&& (w is Some && p is Some ==> r == (if spec_estimate(w.unwrap().h) < spec_estimate(p.unwrap().h) { w } else { p }))
            }), // @label the_front_with_the_lower_sketch_estimate_is_evicted_ties_go_to_probation
//@tail
        Some(record)
//@end
}

} // verus!

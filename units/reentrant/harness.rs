    // C16 (bounded): on the REAL RawCache (single shard, FIFO) over the sequential lock stand-in, the event listener,
    // the weighter and the filter are never invoked while the shard lock or the in-flight table lock is held.
    use std::sync::OnceLock;
    use foyer_common::hasher::ModHasher;
    use crate::{cache::CacheProperties, eviction::fifo::{Fifo, FifoConfig}, indexer::hash_table::HashTableIndexer};
    type VE = Fifo<u8, u8, CacheProperties>;
    type VInner = RawCacheInner<VE, ModHasher, HashTableIndexer<VE>>;
    type VC = RawCache<VE, ModHasher, HashTableIndexer<VE>>;

    struct Probe { inner: OnceLock<Arc<VInner>> }
    impl Probe {
        fn no_lock_held(&self) -> bool {
            match self.inner.get() {
                None => true,
                Some(inner) => !inner.shards[0].is_locked(),
            }
        }
    }
    struct VL { probe: Arc<Probe> }
    impl EventListener for VL {
        type Key = u8;
        type Value = u8;
        fn on_leave(&self, _reason: Event, _key: &u8, _value: &u8) {
            assert!(self.probe.no_lock_held(), "[listener_called_outside_the_shard_lock]");
        }
    }
    pub fn vk_buckets_stub(_a: f64, _b: f64, _n: usize) -> Vec<f64> { Vec::new() }

    #[kani::proof]
    #[kani::unwind(5)]
    #[kani::stub(mixtrics::metrics::Buckets::exponential, vk_buckets_stub)]
    #[kani::stub(mixtrics::metrics::Buckets::linear, vk_buckets_stub)]
    fn callbacks_run_outside_the_shard_lock() {
        let probe = Arc::new(Probe { inner: OnceLock::new() });
        let pw = probe.clone();
        let pf = probe.clone();
        let cache: VC = RawCache::new(RawCacheConfig {
            capacity: 1,
            shards: 1,
            eviction_config: FifoConfig {},
            hash_builder: ModHasher::default(),
            weighter: Arc::new(move |_, _| { assert!(pw.no_lock_held(), "[weighter_called_outside_the_shard_lock]"); 1 }),
            filter: Arc::new(move |_, _| { assert!(pf.no_lock_held(), "[filter_called_outside_the_shard_lock]"); true }),
            event_listener: Some(Arc::new(VL { probe: probe.clone() })),
            metrics: Arc::new(Metrics::noop()),
        });
        let _ = probe.inner.set(cache.inner.clone());
        let same: bool = kani::any();
        let e1 = cache.insert(1, 1);
        let e2 = cache.insert(if same { 1 } else { 2 }, 2); // replaces or evicts the first entry: listener runs
        std::mem::forget((e1, e2, cache, probe));
    }

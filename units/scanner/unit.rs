// UNIT scanner — BlockScanner::next after the blob index page was read and parsed: the entries reported are the index
// entries at blob offset + in-blob offset, and the scanner advances to the end of the last entry (C07, C04 stop rule)
#![allow(unused_imports, unused_variables, dead_code, unused_mut)]
use vstd::prelude::*;
use vstd::std_specs::iter::IteratorSpec;
verus! {

global size_of usize == 8;

//@item foyer-storage/src/io/mod.rs :: const PAGE
//@item foyer-storage/src/engine/block/serde.rs :: type Sequence
//@item foyer-storage/src/engine/block/manager.rs :: type BlockId
//@item foyer-storage/src/engine/block/indexer.rs :: struct EntryAddress rules=derive-clone-copy
//@item foyer-storage/src/engine/block/scanner.rs :: struct EntryInfo rules=derive-clone-copy
//@item foyer-storage/src/engine/block/buffer.rs :: struct BlobEntryIndex rules=derive-clone-copy

pub open spec fn align_up_spec(v: int) -> int { ((v + 4095) / 4096) * 4096 }
pub mod bits {
    use vstd::prelude::*;
    use super::*;
    #[verifier::external_body]
    pub fn align_up(align: usize, v: usize) -> (r: usize)
        requires align == 4096, v + 4095 <= usize::MAX,
        ensures r == align_up_spec(v as int),
    { unimplemented!() }
}
impl BlobEntryIndex {
//@fn foyer-storage/src/engine/block/buffer.rs :: impl~^impl BlobEntryIndex$/fn aligned ret=r sub=@self\.len as _@self.len as usize@
//@spec
        ensures r == align_up_spec(self.len as int),
//@end
}
pub struct BlockT { pub id_: BlockId, pub sz: usize }
impl BlockT {
    pub fn id(&self) -> (r: BlockId) ensures r == self.id_ { self.id_ }
    pub fn size(&self) -> (r: usize) ensures r == self.sz { self.sz }
}
pub struct BlockScanner { pub block: BlockT, pub offset: u64, pub blob_index_size: usize }

impl BlockScanner {
//@region foyer-storage/src/engine/block/scanner.rs :: impl~^impl BlockScanner$/fn next name=scan_blob start=/let step = / stmts=4 rules=drop-tracing,option-map-unwrap-or,iter-map-collect sub=@let mut infos = Vec::new\(\);@let mut infos: Vec<EntryInfo> = Vec::new();@
//@head
    fn scan_blob(&mut self, indices: Vec<BlobEntryIndex>) -> (r: Vec<EntryInfo>)
        requires
            // what the writer guarantees for a blob inside a block (Splitter: part_ok / chain), block_size <= u32::MAX
            old(self).offset + old(self).block.sz <= u32::MAX,
            forall|i: int| 0 <= i < indices@.len() ==> old(self).offset + (#[trigger] indices@[i]).offset + align_up_spec(indices@[i].len as int) <= u32::MAX,
        ensures
            final(self).block == old(self).block, final(self).blob_index_size == old(self).blob_index_size,
            // the scanner steps to the aligned end of the LAST index entry (= where the writer put the next blob)
            indices@.len() > 0 ==> final(self).offset == old(self).offset + indices@.last().offset + align_up_spec(indices@.last().len as int), // @label scanner_advances_to_the_aligned_end_of_the_last_entry
            // an empty blob index ends the scan of this block
            indices@.len() == 0 ==> final(self).offset == old(self).offset + old(self).block.sz, // @label empty_index_skips_the_rest_of_the_block
            // entries are reported at blob offset + in-blob offset with the indexed hash / length / sequence, in order
            r@.len() == indices@.len(), // @label one_entry_per_index_entry
            forall|i: int| 0 <= i < indices@.len() ==> (#[trigger] r@[i]).hash == indices@[i].hash && r@[i].addr.block == old(self).block.id_
                && r@[i].addr.offset == old(self).offset + indices@[i].offset && r@[i].addr.len == indices@[i].len && r@[i].addr.sequence == indices@[i].sequence, // @label scanned_address_is_blob_offset_plus_in_blob_offset
//@loop 1 iter=it optional
            invariant
                self.offset == old(self).offset, self.block == old(self).block, self.blob_index_size == old(self).blob_index_size,
                old(self).offset + old(self).block.sz <= u32::MAX,
                forall|i: int| 0 <= i < indices@.len() ==> old(self).offset + (#[trigger] indices@[i]).offset + align_up_spec(indices@[i].len as int) <= u32::MAX,
                it.snapshot@.remaining() == indices@,
                step == (if indices@.len() > 0 { indices@.last().offset + align_up_spec(indices@.last().len as int) } else { old(self).block.sz as int }),
                infos@.len() == it.index@,
                forall|i: int| 0 <= i < it.index@ ==> (#[trigger] infos@[i]).hash == indices@[i].hash && infos@[i].addr.block == old(self).block.id_
                    && infos@[i].addr.offset == old(self).offset + indices@[i].offset && infos@[i].addr.len == indices@[i].len && infos@[i].addr.sequence == indices@[i].sequence,
//@before /let mut infos: Vec<EntryInfo> = Vec::new\(\);/
        proof { if indices@.len() > 0 { assert(indices@.last() == indices@[indices@.len() - 1]); } }
//@tail
        infos
//@end
}

} // verus!

    // Executable restatement of the SPLIT contracts on the real Splitter (replay only): random sequences of batches
    // through one SplitCtx; every entry region and index page is collected and checked for alignment, bounds, overlap
    // and blob chaining, the flat order of index entries against the input.
    struct Lcg(u64);
    impl Lcg { fn next(&mut self, n: u64) -> u64 { self.0 = self.0.wrapping_mul(6364136223846793005).wrapping_add(1442695040888963407); (self.0 >> 33) % n } }

    fn run_case(block_size: usize, index_size: usize, batches: &[Vec<usize>], found: &mut Vec<String>) {
        let mut ctx = SplitCtx::new(block_size, index_size);
        // regions: (global block ordinal, start, end, is_index_page, blob id)
        let mut regions: Vec<(usize, usize, usize, bool)> = vec![];
        let mut block_ord = 0usize;
        let mut hash = 0u64;
        let desc = format!("block_size={block_size} index_size={index_size} batches(lens)={batches:?}");
        let mut last_blob: Option<(usize, usize, usize)> = None; // (block, blob offset, end of data)
        for lens in batches {
            let total: usize = lens.iter().map(|l| bits::align_up(PAGE, *l)).sum();
            let slice = IoSliceMut::new(total.max(PAGE)).into_io_slice();
            let mut off = 0;
            let infos: Vec<BufferEntryInfo> = lens.iter().map(|l| { hash += 1; let i = BufferEntryInfo { hash, sequence: hash, offset: off, len: *l }; off += bits::align_up(PAGE, *l); i }).collect();
            let first_hash = infos.first().map(|i| i.hash).unwrap_or(0);
            let n = infos.len();
            let batch = Splitter::split(&mut ctx, slice.slice(0..total), infos);
            let mut flat = vec![];
            for (bi, block) in batch.blocks.iter().enumerate() {
                if bi > 0 { block_ord += 1; }
                for part in block.blob_parts.iter() {
                    if part.blob_block_offset % PAGE != 0 || part.part_blob_offset % PAGE != 0 || part.part_blob_offset < index_size {
                        found.push(format!("WITNESS every_entry_page_aligned_inside_one_block_disjoint_from_neighbours_and_index_page :: {desc}: part at blob {} + {}", part.blob_block_offset, part.part_blob_offset));
                    }
                    // blob chaining: a new blob in the same block starts where the previous blob's data ended
                    if let Some((b, bo, end)) = last_blob {
                        if b == block_ord && part.blob_block_offset != bo && part.blob_block_offset != end {
                            found.push(format!("WITNESS full_index_closes_the_blob :: {desc}: blob at {} does not start at the end {} of the previous blob (offset {})", part.blob_block_offset, end, bo));
                        }
                    }
                    if !regions.iter().any(|r| r.0 == block_ord && r.1 == part.blob_block_offset && r.3) {
                        regions.push((block_ord, part.blob_block_offset, part.blob_block_offset + index_size, true));
                    }
                    let data_len: usize = part.indices.iter().map(|ix| bits::align_up(PAGE, ix.len as usize)).sum();
                    if part.data.len() != data_len {
                        found.push(format!("WITNESS every_entry_page_aligned_inside_one_block_disjoint_from_neighbours_and_index_page :: {desc}: part data slice is {} bytes but its entries cover {} bytes", part.data.len(), data_len));
                    }
                    let mut end = part.blob_block_offset + part.part_blob_offset;
                    for ix in part.indices.iter() {
                        let s = part.blob_block_offset + ix.offset as usize;
                        let e = s + bits::align_up(PAGE, ix.len as usize);
                        if s % PAGE != 0 || e > block_size {
                            found.push(format!("WITNESS every_entry_page_aligned_inside_one_block_disjoint_from_neighbours_and_index_page :: {desc}: entry {} at {s}..{e} not aligned / outside block", ix.hash));
                        }
                        for r in regions.iter() {
                            if r.0 == block_ord && s < r.2 && r.1 < e {
                                found.push(format!("WITNESS every_entry_page_aligned_inside_one_block_disjoint_from_neighbours_and_index_page :: {desc}: entry {} at block {block_ord} {s}..{e} overlaps {}..{} (index page: {})", ix.hash, r.1, r.2, r.3));
                            }
                        }
                        regions.push((block_ord, s, e, false));
                        end = e;
                        flat.push(ix.hash);
                    }
                    last_blob = Some((block_ord, part.blob_block_offset, end));
                }
            }
            let want: Vec<u64> = (0..n as u64).map(|i| first_hash + i).collect();
            if flat != want { found.push(format!("WITNESS index_entries_carry_hash_sequence_length_in_order :: {desc}: got {flat:?}")); }
            if !found.is_empty() { return; }
        }
    }

    #[test]
    fn verif_witness_split() {
        let seed: u64 = std::env::var("VERIF_SEED").ok().and_then(|s| s.parse().ok()).unwrap_or(0);
        let mut found = vec![];
        let kb = 1024usize;
        // index capacity for a 4 KiB index page is 170 entries
        let cap = (4 * kb - 12) / 24;
        // hand-picked boundary cases: index full exactly at a batch end of a continued blob; block filled exactly; multi-block batch
        let fixed: Vec<(usize, usize, Vec<Vec<usize>>)> = vec![
            (1024 * kb, 4 * kb, vec![vec![100; 56], vec![100; cap - 56], vec![100; 5]]),
            (64 * kb, 4 * kb, vec![vec![4096; 15], vec![4096; 3]]),
            (64 * kb, 4 * kb, vec![vec![5000; 40]]),
            (64 * kb, 8 * kb, vec![vec![1; 7], vec![56 * kb], vec![1, 1]]),
        ];
        // entries whose length is an exact multiple of the page size, followed by others (alignment arithmetic)
        let fixed2: Vec<(usize, usize, Vec<Vec<usize>>)> = vec![(64 * kb, 4 * kb, vec![vec![100, 4096, 100, 8192, 100]])];
        for (b, i, batches) in fixed.into_iter().chain(fixed2.into_iter()) {
            let r = std::panic::catch_unwind(|| { let mut f = vec![]; run_case(b, i, &batches, &mut f); f });
            match r {
                Ok(f) => found.extend(f),
                Err(e) => {
                    let msg = e.downcast_ref::<String>().cloned().or_else(|| e.downcast_ref::<&str>().map(|s| s.to_string())).unwrap_or_default();
                    found.push(format!("WITNESS every_entry_page_aligned_inside_one_block_disjoint_from_neighbours_and_index_page :: block_size={b} index_size={i} batches(lens)={batches:?}: the real splitter panics: {msg}"));
                }
            }
            if !found.is_empty() { break; }
        }
        // Buffer::push with the real serializer: value sizes around a page boundary (the 36-byte header and the 16 bytes
        // of key + length prefix push the entry into the next page), each followed by a small entry; then the entries
        // are decoded from the recorded positions
        if found.is_empty() {
            use crate::serde::EntryDeserializer;
            const MAX_ENTRY: usize = 16 * 1024;
            'sizes: for total in [PAGE - 1, PAGE, PAGE + 1, PAGE + 8, PAGE + 36, 2 * PAGE, 2 * PAGE + 20, MAX_ENTRY, MAX_ENTRY + 1] {
                let vlen = total - EntryHeader::serialized_len() - 16;
                let v1: Vec<u8> = (0..vlen).map(|i| i as u8).collect();
                let v2 = vec![2u8; 1000];
                let mut buffer = Buffer::new(IoSliceMut::new(64 * 1024), MAX_ENTRY, Arc::new(Metrics::noop()));
                let ok1 = buffer.push(&1u64, &v1, 1, Compression::None, 1);
                if ok1 != (total <= MAX_ENTRY) {
                    found.push(format!("WITNESS oversize_entry_is_refused_whole :: Buffer(max_entry_size={MAX_ENTRY}).push of an entry of {total} bytes (header+key+value) returned {ok1}"));
                    break 'sizes;
                }
                let _ = buffer.push(&2u64, &v2, 2, Compression::None, 2);
                let (buf, infos) = buffer.finish();
                let mut end = 0usize;
                for (info, (k, v)) in infos.iter().zip([(1u64, &v1), (2u64, &v2)].into_iter().skip(if ok1 { 0 } else { 1 })) {
                    if info.offset < end {
                        found.push(format!("WITNESS recorded_length_is_header_plus_key_plus_value_and_the_buffer_advances_by_its_aligned_length :: push(entry of {total} bytes); push(1 KB entry): the second entry is recorded at offset {} but the first one needs {} bytes", info.offset, end));
                        break 'sizes;
                    }
                    end = info.offset + bits::align_up(PAGE, info.len);
                    let slice = &buf[info.offset..info.offset + info.len];
                    let decoded = EntryHeader::read(&slice[..EntryHeader::serialized_len()]).and_then(|h| {
                        EntryDeserializer::deserialize::<u64, Vec<u8>>(&slice[EntryHeader::serialized_len()..], h.key_len as _, h.value_len as _, h.compression, Some(h.checksum))
                    });
                    match decoded {
                        Ok((key, value)) if key == k && &value == v => {}
                        other => {
                            found.push(format!("WITNESS header_records_lengths_checksum_over_exactly_value_and_key_bytes_hash_sequence_compression :: push(entry of {total} bytes); push(1 KB entry): entry of key {k} does not decode from its recorded position: {:?}", other.map(|(k, v)| (k, v.len())).map_err(|e| e.to_string())));
                            break 'sizes;
                        }
                    }
                }
            }
        }
        let mut rng = Lcg(seed.wrapping_add(7));
        let mut round = 0;
        while found.is_empty() && round < 300 {
            round += 1;
            let index_size = PAGE * (1 + rng.next(2) as usize);
            let block_size = index_size + PAGE * (1 + rng.next(24) as usize);
            let max_entry = block_size - index_size;
            let nb = 1 + rng.next(5) as usize;
            let batches: Vec<Vec<usize>> = (0..nb).map(|_| (0..rng.next(200) as usize).map(|_| 1 + rng.next(max_entry.min(3 * PAGE) as u64) as usize).collect()).collect();
            run_case(block_size, index_size, &batches, &mut found);
        }
        for f in found.iter().take(3) { println!("{f}"); }
        println!("WITNESS-SEARCH-DONE found={}", found.len());
    }

// UNIT split — flush-buffer layout: Buffer bookkeeping, blob index, Splitter (C07, parts of C08)
#![allow(unused_imports, unused_variables, dead_code, unused_mut)]
use vstd::prelude::*;
use std::ops::{RangeTo, RangeFrom};
use std::sync::Arc;
use vstd::std_specs::iter::IteratorSpec;
verus! {

global size_of usize == 8;

//@item foyer-storage/src/io/mod.rs :: const PAGE
//@item foyer-storage/src/engine/block/serde.rs :: type Sequence

// =====================================================================================================
// PRELUDE
// =====================================================================================================
pub open spec fn align_up_spec(v: int) -> int { ((v + 4095) / 4096) * 4096 }
pub mod bits {
    use super::*;
    /// contract of foyer_common::bits::align_up at usize with align = PAGE (bit-level proof: Kani unit bits)
    #[verifier::external_body]
    pub fn align_up(align: usize, v: usize) -> (r: usize)
        requires align == 4096, v + 4095 <= usize::MAX,
        ensures r == align_up_spec(v as int),
    { unimplemented!() }
}
pub proof fn lemma_align_up(v: int)
    requires v >= 0,
    ensures align_up_spec(v) >= v, align_up_spec(v) - v < 4096, align_up_spec(v) % 4096 == 0, v > 0 ==> align_up_spec(v) >= 4096,
        v % 4096 == 0 ==> align_up_spec(v) == v,
{
    let q = (v + 4095) / 4096;
    assert(q * 4096 <= v + 4095 < q * 4096 + 4096) by (nonlinear_arith) requires q == (v + 4095) / 4096, v >= 0;
    assert((q * 4096) % 4096 == 0) by (nonlinear_arith);
    if v % 4096 == 0 {
        assert(q * 4096 == v) by (nonlinear_arith) requires q == (v + 4095) / 4096, v % 4096 == 0, v >= 0;
    }
}

/// 4K-aligned owned buffer: only its length matters here
pub struct IoSliceMut { pub n: usize }
impl IoSliceMut {
    #[verifier::external_body] pub fn new(capacity: usize) -> (r: IoSliceMut) ensures r.n == align_up_spec(capacity as int) { unimplemented!() }
    pub fn len(&self) -> (r: usize) ensures r == self.n { self.n }
}
impl Clone for IoSliceMut { fn clone(&self) -> (r: Self) ensures r == *self { IoSliceMut { n: self.n } } }
/// shared read-only window [start, end) into the flush buffer
pub struct IoSlice { pub start: usize, pub end: usize }
pub trait SliceRange { spec fn lo(&self, len: int) -> int; spec fn hi(&self, len: int) -> int; }
impl SliceRange for RangeTo<usize> { open spec fn lo(&self, len: int) -> int { 0 } open spec fn hi(&self, len: int) -> int { self.end as int } }
impl SliceRange for RangeFrom<usize> { open spec fn lo(&self, len: int) -> int { self.start as int } open spec fn hi(&self, len: int) -> int { len } }
impl IoSlice {
    pub open spec fn wf(&self) -> bool { self.start <= self.end && self.start % 4096 == 0 && self.end % 4096 == 0 }
    pub open spec fn spec_len(&self) -> int { self.end - self.start }
    /// IoSlice::slice panics unless start <= end and both are page aligned
    #[verifier::external_body]
    pub fn slice<R: SliceRange>(&self, r: R) -> (o: IoSlice)
        requires
            self.wf(),
            0 <= r.lo(self.spec_len()) <= r.hi(self.spec_len()) <= self.spec_len(), // @label slice_inside_the_buffer
            r.lo(self.spec_len()) % 4096 == 0 && r.hi(self.spec_len()) % 4096 == 0, // @label slice_bounds_page_aligned
        ensures o.start == self.start + r.lo(self.spec_len()), o.end == self.start + r.hi(self.spec_len()), o.wf(),
    { unimplemented!() }
}
impl Clone for IoSlice { fn clone(&self) -> (r: Self) ensures r == *self { IoSlice { start: self.start, end: self.end } } }

/// std::mem::take on a Vec: returns the old contents, leaves an empty Vec
#[verifier::external_body]
pub fn verif_take<T>(v: &mut Vec<T>) -> (r: Vec<T>) ensures r@ == old(v)@, final(v)@.len() == 0 { unimplemented!() }

// =====================================================================================================
// blob index
// =====================================================================================================
//@item foyer-storage/src/engine/block/buffer.rs :: struct BlobEntryIndex rules=derive-clone-copy
//@item foyer-storage/src/engine/block/buffer.rs :: struct BlobIndex rules=strip-attrs,pub-fields
//@item foyer-storage/src/engine/block/buffer.rs :: struct BufferEntryInfo rules=derive-clone-copy

/// stands for `index.write(&mut self.bytes[start..end])` (byte contract: Kani unit codec, blob_entry_index_roundtrip)
#[verifier::external_body]
pub fn verif_write_index(index: &BlobEntryIndex, bytes: &mut IoSliceMut, start: usize, end: usize)
    requires end == start + 24, end <= old(bytes).n, // @label index_entry_written_inside_the_index_page
    ensures final(bytes).n == old(bytes).n,
{ }

impl BlobEntryIndex {
//@fn foyer-storage/src/engine/block/buffer.rs :: impl~^impl BlobEntryIndex$/fn serialized_len ret=r
//@spec
        ensures r == 24, // @label index_entry_is_24_bytes
//@end
//@fn foyer-storage/src/engine/block/buffer.rs :: impl~^impl BlobEntryIndex$/fn aligned ret=r sub=@self\.len as _@self.len as usize@
//@spec
        ensures r == align_up_spec(self.len as int), // @label aligned_is_len_rounded_up_to_pages
//@end
}
impl BufferEntryInfo {
//@fn foyer-storage/src/engine/block/buffer.rs :: impl~^impl BufferEntryInfo$/fn aligned ret=r
//@spec
        requires self.len + 4095 <= usize::MAX,
        ensures r == align_up_spec(self.len as int), // @label aligned_is_len_rounded_up_to_pages
//@end
}

impl BlobIndex {
//@item foyer-storage/src/engine/block/buffer.rs :: impl~^impl BlobIndex$/const INDEX_OFFSET
    pub open spec fn cap(&self) -> int { (self.bytes.n - 12) / 24 }
    pub open spec fn wf(&self) -> bool { self.bytes.n >= 12 + 24 && self.count <= self.cap() }

//@fn foyer-storage/src/engine/block/buffer.rs :: impl~^impl BlobIndex$/fn new ret=r
//@spec
        ensures r.bytes == bytes, r.count == 0, // @label new_index_is_empty
//@end
//@fn foyer-storage/src/engine/block/buffer.rs :: impl~^impl BlobIndex$/fn capacity ret=r
//@spec
        requires self.bytes.n >= 12,
        ensures r == self.cap(), // @label capacity_is_payload_over_entry_size
//@end
//@fn foyer-storage/src/engine/block/buffer.rs :: impl~^impl BlobIndex$/fn is_full ret=r
//@spec
        requires self.bytes.n >= 12,
        ensures r == (self.count >= self.cap()), // @label full_iff_count_reaches_capacity
//@end
//@fn foyer-storage/src/engine/block/buffer.rs :: impl~^impl BlobIndex$/fn write sub=@index\.write\(&mut self\.bytes\[([^\]]*?)\.\.([^\]]*?)\]\)@verif_write_index(index, &mut self.bytes, \1, \2)@
//@spec
        requires old(self).wf(), old(self).count < old(self).cap(), // @label never_written_when_full
        ensures final(self).count == old(self).count + 1, final(self).bytes == old(self).bytes, final(self).wf(), // @label one_more_entry_recorded
//@end
//@fn foyer-storage/src/engine/block/buffer.rs :: impl~^impl BlobIndex$/fn reset
//@spec
        ensures final(self).count == 0, final(self).bytes == old(self).bytes, // @label reset_empties_the_index
//@end
    /// seal(): writes count + checksum into the page and returns a copy (slice / checksum code: not extracted)
    #[verifier::external_body]
    pub fn seal(&mut self) -> (r: IoSliceMut)
        ensures final(self).count == old(self).count, final(self).bytes == old(self).bytes, r == old(self).bytes,
    { unimplemented!() }
}

// =====================================================================================================
// Splitter
// =====================================================================================================
//@item foyer-storage/src/engine/block/buffer.rs :: struct SplitCtx rules=strip-attrs,pub-fields
//@item foyer-storage/src/engine/block/buffer.rs :: struct BlobPart rules=strip-attrs
//@item foyer-storage/src/engine/block/buffer.rs :: struct Block rules=strip-attrs
//@item foyer-storage/src/engine/block/buffer.rs :: struct Batch rules=strip-attrs

/// in-blob layout of a run of index entries starting at in-blob offset `at`: consecutive, page aligned
pub open spec fn chain(ix: Seq<BlobEntryIndex>, at: int) -> bool
    decreases ix.len()
{
    if ix.len() == 0 { true } else {
        &&& ix[0].offset as int == at
        &&& ix[0].len > 0
        &&& chain(ix.subrange(1, ix.len() as int), at + align_up_spec(ix[0].len as int))
    }
}
/// bytes covered by a run of entries
pub open spec fn total(ix: Seq<BlobEntryIndex>) -> int
    decreases ix.len()
{
    if ix.len() == 0 { 0 } else { align_up_spec(ix[0].len as int) + total(ix.subrange(1, ix.len() as int)) }
}
pub proof fn lemma_chain_push(ix: Seq<BlobEntryIndex>, at: int, x: BlobEntryIndex)
    requires chain(ix, at), x.offset as int == at + total(ix), x.len > 0,
    ensures chain(ix.push(x), at), total(ix.push(x)) == total(ix) + align_up_spec(x.len as int),
    decreases ix.len(),
{
    let px = ix.push(x);
    if ix.len() == 0 {
        assert(total(ix) == 0);
        assert(px.len() == 1 && px[0] == x);
        assert(px.subrange(1, px.len() as int) =~= Seq::<BlobEntryIndex>::empty());
        assert(chain(px.subrange(1, px.len() as int), at + align_up_spec(x.len as int)));
        assert(total(px.subrange(1, px.len() as int)) == 0);
        assert(chain(px, at));
        assert(total(px) == align_up_spec(px[0].len as int) + total(px.subrange(1, px.len() as int)));
    } else {
        let tail = ix.subrange(1, ix.len() as int);
        let a0 = align_up_spec(ix[0].len as int);
        assert(chain(tail, at + a0));
        assert(total(ix) == a0 + total(tail));
        lemma_chain_push(tail, at + a0, x);
        assert(px.subrange(1, px.len() as int) =~= tail.push(x));
        assert(px[0] == ix[0]);
        assert(chain(px, at));
        assert(total(px) == align_up_spec(px[0].len as int) + total(px.subrange(1, px.len() as int)));
    }
}
/// what BlockScanner::next steps by (offset + aligned length of the LAST index entry of a blob) is exactly where the
/// writer starts the next blob (blob offset + data start + bytes placed)
pub proof fn lemma_chain_last(ix: Seq<BlobEntryIndex>, at: int)
    requires chain(ix, at), ix.len() > 0,
    ensures ix.last().offset as int + align_up_spec(ix.last().len as int) == at + total(ix), // @label scanner_step_equals_writers_end_of_blob
    decreases ix.len(),
{
    if ix.len() == 1 {
        assert(ix.subrange(1, 1) =~= Seq::<BlobEntryIndex>::empty());
        assert(total(ix.subrange(1, ix.len() as int)) == 0);
    } else {
        let tail = ix.subrange(1, ix.len() as int);
        lemma_chain_last(tail, at + align_up_spec(ix[0].len as int));
        assert(tail.last() == ix.last());
    }
}
pub proof fn lemma_total_aligned(ix: Seq<BlobEntryIndex>)
    ensures total(ix) % 4096 == 0, total(ix) >= 0, ix.len() > 0 && ix[0].len > 0 ==> total(ix) >= 4096,
    decreases ix.len(),
{
    if ix.len() > 0 {
        lemma_total_aligned(ix.subrange(1, ix.len() as int));
        lemma_align_up(ix[0].len as int);
    }
}

impl SplitCtx {
    /// geometry fixed at construction (engine: block_size = align_up(PAGE, ..) <= u32::MAX, blob_index_size = align_up(PAGE, ..))
    pub open spec fn geometry(&self) -> bool {
        &&& self.block_size % 4096 == 0 && self.blob_index_size % 4096 == 0
        &&& self.blob_index_size >= 4096 && self.blob_index_size + 4096 <= self.block_size
        &&& self.block_size <= u32::MAX
        &&& self.current_blob_index.bytes.n == self.blob_index_size
    }
    /// invariant between calls of Splitter::split
    pub open spec fn wf(&self) -> bool {
        &&& self.geometry()
        &&& self.current_blob_index.wf()
        &&& self.current_blob_index.count < self.current_blob_index.cap()
        &&& self.current_part_blob_offset % 4096 == 0 && self.current_part_blob_offset >= self.blob_index_size
        &&& self.current_blob_block_offset % 4096 == 0
        &&& self.current_blob_block_offset <= self.block_size
        &&& (self.current_blob_index.count > 0 ==> self.current_blob_block_offset + self.current_part_blob_offset <= self.block_size)
        &&& (self.current_blob_index.count == 0 <==> self.current_part_blob_offset == self.blob_index_size)
    }
//@fn foyer-storage/src/engine/block/buffer.rs :: impl~^impl SplitCtx$/fn new ret=r
//@spec
        requires block_size % 4096 == 0, blob_index_size % 4096 == 0, blob_index_size >= 4096, blob_index_size + 4096 <= block_size, block_size <= u32::MAX,
        ensures r.wf(), r.block_size == block_size, r.blob_index_size == blob_index_size, r.current_blob_block_offset == 0, // @label fresh_context_starts_at_block_offset_zero_after_the_index_page
//@before /Self \{/
        proof { lemma_align_up(blob_index_size as int); }
//@end
}

pub struct Splitter { }
impl Splitter {
//@fn foyer-storage/src/engine/block/buffer.rs :: impl~^impl Splitter$/fn split_blob rules=drop-tracing,assert-eq,mem-take ret=r
//@spec
        requires
            old(ctx).geometry(), old(ctx).current_blob_index.wf(),
            old(bytes).wf(),
            old(indices)@.len() == 0 ==> *old(part_size) == 0,
            *old(part_size) % 4096 == 0, *old(part_size) <= old(bytes).spec_len(),
            old(ctx).current_blob_block_offset + old(ctx).current_part_blob_offset + *old(part_size) <= usize::MAX,
        ensures
            final(ctx).block_size == old(ctx).block_size, final(ctx).blob_index_size == old(ctx).blob_index_size, final(ctx).geometry(),
            final(ctx).current_blob_index.count == 0, // @label next_blob_starts_with_an_empty_index
            final(ctx).current_part_blob_offset == old(ctx).blob_index_size, // @label next_blob_data_starts_after_its_index_page
            // the next blob starts right after everything placed in the current one (what the scanner steps by)
            final(ctx).current_blob_block_offset == old(ctx).current_blob_block_offset + old(ctx).current_part_blob_offset + *old(part_size), // @label next_blob_offset_is_end_of_current_blob
            *final(part_size) == 0, final(indices)@.len() == 0,
            final(bytes).start == old(bytes).start + *old(part_size), final(bytes).end == old(bytes).end, final(bytes).wf(), // @label consumed_bytes_are_cut_off_the_front
            old(indices)@.len() == 0 ==> r is None, // @label no_empty_part_is_emitted
            old(indices)@.len() > 0 ==> (r matches Some(part) && part.blob_block_offset == old(ctx).current_blob_block_offset
                && part.part_blob_offset == old(ctx).current_part_blob_offset && part.indices@ == old(indices)@
                && part.data.start == old(bytes).start && part.data.end == old(bytes).start + *old(part_size)), // @label part_records_where_its_entries_were_placed
//@end

//@fn foyer-storage/src/engine/block/buffer.rs :: impl~^impl Splitter$/fn split_block rules=drop-tracing
//@spec
        ensures
            final(ctx).current_blob_block_offset == 0, // @label new_block_starts_at_offset_zero
            final(ctx).current_part_blob_offset == old(ctx).current_part_blob_offset, final(ctx).current_blob_index == old(ctx).current_blob_index,
            final(ctx).block_size == old(ctx).block_size, final(ctx).blob_index_size == old(ctx).blob_index_size,
            final(batch).blocks@.len() == old(batch).blocks@.len() + 1, // @label one_more_block
            final(batch).blocks@.subrange(0, old(batch).blocks@.len() as int) == old(batch).blocks@,
            final(batch).blocks@.last().blob_parts@.len() == 0,
            final(batch).bytes == old(batch).bytes,
//@end

//@fn foyer-storage/src/engine/block/buffer.rs :: impl~^impl Splitter$/fn seal_blob rules=drop-tracing,mem-take ret=r
//@spec
        requires
            old(ctx).geometry(), old(ctx).current_blob_index.wf(),
            old(shared_io_slice).wf(),
            *old(part_size) % 4096 == 0, *old(part_size) <= old(shared_io_slice).spec_len(),
            old(ctx).current_blob_block_offset + old(ctx).current_part_blob_offset + *old(part_size) <= usize::MAX,
        ensures
            final(ctx).block_size == old(ctx).block_size, final(ctx).blob_index_size == old(ctx).blob_index_size, final(ctx).geometry(),
            old(indices)@.len() == 0 ==> r is None && *final(ctx) == *old(ctx), // @label nothing_to_seal_changes_nothing
            old(indices)@.len() > 0 ==> (r matches Some(part) && part.blob_block_offset == old(ctx).current_blob_block_offset
                && part.part_blob_offset == old(ctx).current_part_blob_offset && part.indices@ == old(indices)@
                && part.data.start == old(shared_io_slice).start && part.data.end == old(shared_io_slice).start + *old(part_size)), // @label part_records_where_its_entries_were_placed
            // a full index closes the blob; otherwise the blob stays open and the next batch continues behind this part
            old(indices)@.len() > 0 && old(ctx).current_blob_index.count >= old(ctx).current_blob_index.cap() ==>
                final(ctx).current_blob_index.count == 0 && final(ctx).current_part_blob_offset == old(ctx).blob_index_size
                && final(ctx).current_blob_block_offset == old(ctx).current_blob_block_offset + old(ctx).current_part_blob_offset + *old(part_size), // @label full_index_closes_the_blob
            old(indices)@.len() > 0 && old(ctx).current_blob_index.count < old(ctx).current_blob_index.cap() ==>
                final(ctx).current_blob_index.count == old(ctx).current_blob_index.count
                && final(ctx).current_part_blob_offset == old(ctx).current_part_blob_offset + *old(part_size)
                && final(ctx).current_blob_block_offset == old(ctx).current_blob_block_offset, // @label open_blob_continues_behind_this_part
//@end
}

// ---- layout of a finished part / batch
pub open spec fn part_ok(p: BlobPart, block_size: int, index_size: int) -> bool {
    &&& p.blob_block_offset % 4096 == 0 && p.part_blob_offset % 4096 == 0
    &&& p.part_blob_offset >= index_size                                   // entries never overlap the blob's index page
    &&& p.indices@.len() > 0
    &&& chain(p.indices@, p.part_blob_offset as int)                        // consecutive, page aligned, pairwise disjoint
    &&& p.blob_block_offset + p.part_blob_offset + total(p.indices@) <= block_size  // inside one block
    &&& p.data.wf() && p.data.spec_len() == total(p.indices@)              // data slice is exactly the entries' byte range
}
pub open spec fn batch_ok(b: Batch, block_size: int, index_size: int) -> bool {
    forall|i: int, j: int| 0 <= i < b.blocks@.len() && 0 <= j < b.blocks@[i].blob_parts@.len() ==> part_ok(#[trigger] b.blocks@[i].blob_parts@[j], block_size, index_size)
}
pub open spec fn infos_ok(infos: Seq<BufferEntryInfo>, max_entry: int) -> bool {
    forall|i: int| 0 <= i < infos.len() ==> (#[trigger] infos[i]).len > 0 && infos[i].len <= u32::MAX && align_up_spec(infos[i].len as int) <= max_entry
}
pub open spec fn rest_total(infos: Seq<BufferEntryInfo>, k: int) -> int
    decreases infos.len() - k
{
    if k >= infos.len() || k < 0 { 0 } else { align_up_spec(infos[k].len as int) + rest_total(infos, k + 1) }
}
/// all index entries of a batch in write order
pub open spec fn flat_parts(parts: Seq<BlobPart>) -> Seq<BlobEntryIndex>
    decreases parts.len()
{
    if parts.len() == 0 { Seq::empty() } else { flat_parts(parts.drop_last()) + parts.last().indices@ }
}
pub open spec fn flat_blocks(blocks: Seq<Block>) -> Seq<BlobEntryIndex>
    decreases blocks.len()
{
    if blocks.len() == 0 { Seq::empty() } else { flat_blocks(blocks.drop_last()) + flat_parts(blocks.last().blob_parts@) }
}
pub proof fn lemma_flat_push_part(blocks0: Seq<Block>, blocks1: Seq<Block>, part: BlobPart)
    requires
        blocks0.len() > 0, blocks1.len() == blocks0.len(),
        forall|i: int| 0 <= i < blocks0.len() - 1 ==> blocks1[i] == blocks0[i],
        blocks1.last().blob_parts@ == blocks0.last().blob_parts@.push(part),
    ensures flat_blocks(blocks1) == flat_blocks(blocks0) + part.indices@,
{
    assert(blocks1.drop_last() =~= blocks0.drop_last());
    assert(blocks0.last().blob_parts@.push(part).drop_last() =~= blocks0.last().blob_parts@);
    assert(flat_parts(blocks1.last().blob_parts@) == flat_parts(blocks0.last().blob_parts@) + part.indices@);
    assert(flat_blocks(blocks1) =~= flat_blocks(blocks0) + part.indices@);
}
pub proof fn lemma_flat_push_block(blocks0: Seq<Block>, blocks1: Seq<Block>)
    requires blocks1.len() == blocks0.len() + 1, blocks1.subrange(0, blocks0.len() as int) == blocks0, blocks1.last().blob_parts@.len() == 0,
    ensures flat_blocks(blocks1) == flat_blocks(blocks0),
{
    assert(blocks1.drop_last() =~= blocks0);
    assert(flat_parts(blocks1.last().blob_parts@) =~= Seq::<BlobEntryIndex>::empty());
    assert(flat_blocks(blocks1) =~= flat_blocks(blocks0));
}

pub proof fn lemma_rest_total(infos: Seq<BufferEntryInfo>, k: int)
    requires 0 <= k <= infos.len(),
    ensures rest_total(infos, k) >= 0, k < infos.len() ==> rest_total(infos, k) == align_up_spec(infos[k].len as int) + rest_total(infos, k + 1),
    decreases infos.len() - k,
{
    if k < infos.len() { lemma_rest_total(infos, k + 1); lemma_align_up(infos[k].len as int); }
}
/// sealing the open part into the last block keeps the batch well laid out and the flat order
pub proof fn lemma_push_part_ok(batch0: Batch, batch1: Batch, part: BlobPart, block_size: int, index_size: int)
    requires
        batch_ok(batch0, block_size, index_size), part_ok(part, block_size, index_size),
        batch0.blocks@.len() > 0, batch1.blocks@.len() == batch0.blocks@.len(),
        forall|i: int| 0 <= i < batch0.blocks@.len() - 1 ==> batch1.blocks@[i] == batch0.blocks@[i],
        batch1.blocks@.last().blob_parts@ == batch0.blocks@.last().blob_parts@.push(part),
    ensures
        batch_ok(batch1, block_size, index_size),
        flat_blocks(batch1.blocks@) == flat_blocks(batch0.blocks@) + part.indices@,
{
    lemma_flat_push_part(batch0.blocks@, batch1.blocks@, part);
    assert forall|i: int, j: int| 0 <= i < batch1.blocks@.len() && 0 <= j < batch1.blocks@[i].blob_parts@.len()
        implies part_ok(#[trigger] batch1.blocks@[i].blob_parts@[j], block_size, index_size) by {
        if i < batch0.blocks@.len() - 1 {
            assert(batch1.blocks@[i] == batch0.blocks@[i]);
            assert(part_ok(batch0.blocks@[i].blob_parts@[j], block_size, index_size));
        } else {
            let n = batch0.blocks@.last().blob_parts@.len();
            if j < n { assert(batch1.blocks@[i].blob_parts@[j] == batch0.blocks@[i].blob_parts@[j]); assert(part_ok(batch0.blocks@[i].blob_parts@[j], block_size, index_size)); }
            else { assert(batch1.blocks@[i].blob_parts@[j] == part); }
        }
    }
}
pub proof fn lemma_push_block_ok(batch0: Batch, batch1: Batch, block_size: int, index_size: int)
    requires
        batch_ok(batch0, block_size, index_size),
        batch1.blocks@.len() == batch0.blocks@.len() + 1, batch1.blocks@.subrange(0, batch0.blocks@.len() as int) == batch0.blocks@,
        batch1.blocks@.last().blob_parts@.len() == 0,
    ensures batch_ok(batch1, block_size, index_size), flat_blocks(batch1.blocks@) == flat_blocks(batch0.blocks@),
{
    lemma_flat_push_block(batch0.blocks@, batch1.blocks@);
    assert forall|i: int, j: int| 0 <= i < batch1.blocks@.len() && 0 <= j < batch1.blocks@[i].blob_parts@.len()
        implies part_ok(#[trigger] batch1.blocks@[i].blob_parts@[j], block_size, index_size) by {
        if i < batch0.blocks@.len() {
            assert(batch1.blocks@[i] == batch1.blocks@.subrange(0, batch0.blocks@.len() as int)[i]);
            assert(part_ok(batch0.blocks@[i].blob_parts@[j], block_size, index_size));
        }
    }
}
/// the index entry created for a buffer entry carries its hash, sequence and length
pub open spec fn index_of(i: BlobEntryIndex, info: BufferEntryInfo) -> bool {
    i.hash == info.hash && i.sequence == info.sequence && i.len as int == info.len as int
}


/// loop invariant of Splitter::split: `k` buffer entries have been placed; `indices` / `part_size` describe the open part
pub open spec fn split_inv(ctx: SplitCtx, ctx0: SplitCtx, batch: Batch, indices: Seq<BlobEntryIndex>, part_size: int, bytes: IoSlice,
                           infos: Seq<BufferEntryInfo>, k: int) -> bool {
    &&& ctx.geometry() && ctx.block_size == ctx0.block_size && ctx.blob_index_size == ctx0.blob_index_size
    &&& ctx.current_blob_index.wf()
    &&& ctx.current_part_blob_offset % 4096 == 0 && ctx.current_part_blob_offset >= ctx.blob_index_size
    &&& ctx.current_blob_block_offset % 4096 == 0 && ctx.current_blob_block_offset <= ctx.block_size
    &&& chain(indices, ctx.current_part_blob_offset as int) && part_size == total(indices)
    &&& indices.len() <= ctx.current_blob_index.count
    &&& (ctx.current_blob_index.count > 0 ==> ctx.current_blob_block_offset + ctx.current_part_blob_offset + part_size <= ctx.block_size)
    &&& (ctx.current_blob_index.count == 0 ==> ctx.current_part_blob_offset == ctx.blob_index_size)
    &&& (ctx.current_blob_index.count > 0 && indices.len() == 0 ==> ctx.current_part_blob_offset > ctx.blob_index_size)
    &&& bytes.wf() && part_size + rest_total(infos, k) <= bytes.spec_len()
    &&& batch.blocks@.len() >= 1 && batch_ok(batch, ctx0.block_size as int, ctx0.blob_index_size as int)
    &&& 0 <= k <= infos.len()
    &&& flat_blocks(batch.blocks@).len() + indices.len() == k
    &&& forall|j: int| 0 <= j < k ==> index_of(#[trigger] (flat_blocks(batch.blocks@) + indices)[j], infos[j])
}

impl Splitter {
//@fn foyer-storage/src/engine/block/buffer.rs :: impl~^impl Splitter$/fn split rules=drop-tracing,assert-eq ret=r
//@spec
        requires
            old(ctx).wf(), // @label requires_ctx_wf
            bytes.wf(),
            infos_ok(entry_infos@, old(ctx).block_size - old(ctx).blob_index_size),   // Buffer: aligned(len) <= max_entry_size = block_size - blob_index_size
            rest_total(entry_infos@, 0) <= bytes.spec_len(),                           // Buffer: the entries lie back to back in the flush buffer
        ensures
            final(ctx).wf(), // @label ctx_invariant_holds_for_the_next_batch
            final(ctx).block_size == old(ctx).block_size && final(ctx).blob_index_size == old(ctx).blob_index_size,
            r.blocks@.len() >= 1,
            batch_ok(r, old(ctx).block_size as int, old(ctx).blob_index_size as int), // @label every_entry_page_aligned_inside_one_block_disjoint_from_neighbours_and_index_page
            // scanning reconstructs exactly the entries written: same number, same order, same hash / sequence / length
            flat_blocks(r.blocks@).len() == entry_infos@.len(), // @label one_index_entry_per_buffer_entry
            forall|k: int| 0 <= k < entry_infos@.len() ==> index_of(#[trigger] flat_blocks(r.blocks@)[k], entry_infos@[k]), // @label index_entries_carry_hash_sequence_length_in_order
//@loop 1 iter=it
            invariant
                it.snapshot@.remaining() == entry_infos@,
                infos_ok(entry_infos@, old(ctx).block_size - old(ctx).blob_index_size),
                split_inv(*ctx, *old(ctx), batch, indices@, part_size as int, bytes, entry_infos@, it.index@ as int),
                indices@.len() == 0 ==> ctx.current_blob_index.count < ctx.current_blob_index.cap(),
//@loop 2
                invariant_except_break
                    split_inv(*ctx, *old(ctx), batch, indices@, part_size as int, bytes, entry_infos@, it.index@ as int),
                    indices@.len() == 0 ==> ctx.current_blob_index.count < ctx.current_blob_index.cap(),
                invariant
                    it.snapshot@.remaining() == entry_infos@,
                    0 <= it.index@ < entry_infos@.len(),
                    info == entry_infos@[it.index@ as int],
                    infos_ok(entry_infos@, old(ctx).block_size - old(ctx).blob_index_size),
                ensures
                    split_inv(*ctx, *old(ctx), batch, indices@, part_size as int, bytes, entry_infos@, it.index@ + 1),
                    indices@.len() > 0,
                decreases
                    (if ctx.current_blob_index.count >= ctx.current_blob_index.cap() { 1int } else { 0int }),
                    (if ctx.current_blob_block_offset + ctx.current_part_blob_offset + part_size + align_up_spec(info.len as int) > ctx.block_size { 1int } else { 0int }),
//@after /let mut indices = vec!\[\];/
        proof {
            assert(batch.blocks@.len() == 1);
            assert(batch.blocks@.drop_last() =~= Seq::<Block>::empty());
            assert(batch.blocks@.last().blob_parts@.len() == 0);
            assert(flat_parts(batch.blocks@.last().blob_parts@) =~= Seq::<BlobEntryIndex>::empty());
            assert(flat_blocks(Seq::<Block>::empty()) =~= Seq::<BlobEntryIndex>::empty());
            assert(flat_blocks(batch.blocks@.drop_last()) =~= Seq::<BlobEntryIndex>::empty());
            assert(flat_blocks(batch.blocks@) =~= flat_blocks(batch.blocks@.drop_last()) + flat_parts(batch.blocks@.last().blob_parts@));
            assert(flat_blocks(batch.blocks@) =~= Seq::<BlobEntryIndex>::empty());
            lemma_rest_total(entry_infos@, 0);
        }
//@before /\/\/ Split blob if blob index is full\./
                proof {
                    lemma_align_up(info.len as int);
                    lemma_total_aligned(indices@);
                    lemma_rest_total(entry_infos@, it.index@ as int);
                    lemma_rest_total(entry_infos@, it.index@ + 1);
                }
                let ghost batch0 = batch;
                let ghost ind0 = indices@;
                let ghost ctx_a = *ctx;
                let ghost flat0 = flat_blocks(batch.blocks@) + indices@;
//@before 1:/batch\.blocks\.last_mut\(\)\.unwrap\(\)\.blob_parts\.push\(part\);/
                        let ghost gp = part;
                        proof { assert(part_ok(gp, old(ctx).block_size as int, old(ctx).blob_index_size as int)); }
//@after 1:/batch\.blocks\.last_mut\(\)\.unwrap\(\)\.blob_parts\.push\(part\);/
                        proof { lemma_push_part_ok(batch0, batch, gp, old(ctx).block_size as int, old(ctx).blob_index_size as int); }
//@before 1:/continue 'handle;/
                    proof {
                        assert(flat_blocks(batch.blocks@) + indices@ =~= flat0);
                    }
//@before 2:/batch\.blocks\.last_mut\(\)\.unwrap\(\)\.blob_parts\.push\(part\);/
                        let ghost gp = part;
                        proof { assert(part_ok(gp, old(ctx).block_size as int, old(ctx).blob_index_size as int)); }
//@after 2:/batch\.blocks\.last_mut\(\)\.unwrap\(\)\.blob_parts\.push\(part\);/
                        proof { lemma_push_part_ok(batch0, batch, gp, old(ctx).block_size as int, old(ctx).blob_index_size as int); }
//@before /Self::split_block\(ctx, &mut batch\);/
                    let ghost batch1 = batch;
//@after /Self::split_block\(ctx, &mut batch\);/
                    proof { lemma_push_block_ok(batch1, batch, old(ctx).block_size as int, old(ctx).blob_index_size as int); }
//@before 2:/continue 'handle;/
                    proof {
                        assert(flat_blocks(batch.blocks@) + indices@ =~= flat0);
                    }
//@before /ctx\.current_blob_index\.write\(&index\);/
                let ghost gi = index;
//@before /break 'handle;/
                proof {
                    lemma_chain_push(ind0, ctx.current_part_blob_offset as int, gi);
                    assert(flat_blocks(batch.blocks@) + indices@ =~= flat0.push(gi));
                    assert(index_of(gi, info));
                }
//@before /if let Some\(part\) = Self::seal_blob/
        proof { lemma_total_aligned(indices@); lemma_rest_total(entry_infos@, entry_infos@.len() as int); }
        let ghost batch0 = batch;
        let ghost ind0 = indices@;
        let ghost flat0 = flat_blocks(batch.blocks@) + indices@;
//@before 3:/batch\.blocks\.last_mut\(\)\.unwrap\(\)\.blob_parts\.push\(part\);/
            let ghost gp = part;
            proof { assert(part_ok(gp, old(ctx).block_size as int, old(ctx).blob_index_size as int)); }
//@after 3:/batch\.blocks\.last_mut\(\)\.unwrap\(\)\.blob_parts\.push\(part\);/
            proof { lemma_push_part_ok(batch0, batch, gp, old(ctx).block_size as int, old(ctx).blob_index_size as int); }
//@before /^        batch\s*$/
        proof {
            assert(flat_blocks(batch.blocks@) =~= flat0);
        }
//@end
}

// =====================================================================================================
// Buffer: the flush buffer hands the splitter page-aligned, back-to-back entries no larger than max_entry_size
// =====================================================================================================
pub struct Metrics { pub m: u8 }
//@item foyer-storage/src/engine/block/buffer.rs :: struct Buffer rules=strip-attrs,pub-fields
//@item foyer-storage/src/serde.rs :: struct KvInfo rules=strip-attrs
//@item foyer-storage/src/compress.rs :: enum Compression rules=derive-structural
//@item foyer-storage/src/engine/block/serde.rs :: struct EntryHeader rules=derive-clone-copy

pub open spec fn buf_total(infos: Seq<BufferEntryInfo>) -> int
    decreases infos.len()
{
    if infos.len() == 0 { 0 } else { buf_total(infos.drop_last()) + align_up_spec(infos.last().len as int) }
}
pub open spec fn buf_chain(infos: Seq<BufferEntryInfo>) -> bool {
    forall|i: int| 0 <= i < infos.len() ==> (#[trigger] infos[i]).offset as int == buf_total(infos.subrange(0, i))
}
pub proof fn lemma_align_fits(len: int, m: int)
    requires 0 <= len <= m, m % 4096 == 0,
    ensures align_up_spec(len) <= m,
{
    let q = (len + 4095) / 4096; let k = m / 4096;
    assert(m == k * 4096) by (nonlinear_arith) requires k == m / 4096, m % 4096 == 0;
    assert(q <= k) by (nonlinear_arith) requires q == (len + 4095) / 4096, len <= k * 4096, len >= 0;
    assert(q * 4096 <= k * 4096) by (nonlinear_arith) requires q <= k;
}
pub proof fn lemma_buf_push(infos: Seq<BufferEntryInfo>, x: BufferEntryInfo)
    requires buf_chain(infos), x.offset as int == buf_total(infos),
    ensures buf_chain(infos.push(x)), buf_total(infos.push(x)) == buf_total(infos) + align_up_spec(x.len as int),
{
    let p = infos.push(x);
    assert(p.drop_last() =~= infos);
    assert forall|i: int| 0 <= i < p.len() implies (#[trigger] p[i]).offset as int == buf_total(p.subrange(0, i)) by {
        if i < infos.len() { assert(p.subrange(0, i) =~= infos.subrange(0, i)); } else { assert(p.subrange(0, i) =~= infos); }
    }
}
/// writable tail of the flush buffer (`&mut self.bytes[offset..]`): only its length matters here
pub struct TailT { pub n: usize, pub answer: Ghost<core::result::Result<KvInfo, Error>>, pub header: Ghost<Option<EntryHeader>> }
impl TailT { pub fn len(&self) -> (r: usize) ensures r == self.n { self.n } }
#[derive(Clone, Copy, PartialEq, Eq, Structural)]
pub enum ErrorKind { BufferSizeLimit, Io, Other }
#[derive(Debug)]
pub struct Error { pub k: u8 }
impl Error { #[verifier::external_body] pub fn kind(&self) -> ErrorKind { unimplemented!() } }
/// `EntrySerializer::serialize(key, value, compression, &mut buf[from..])`: value then key written behind the header
/// slot, lengths reported; Err (nothing usable written) when they do not fit (contract of the real function: unit serde)
#[verifier::external_body]
pub fn verif_serialize(buf: &mut TailT, from: usize) -> (r: core::result::Result<KvInfo, Error>)
    requires from <= old(buf).n,
    ensures r == old(buf).answer@, final(buf).n == old(buf).n, final(buf).answer == old(buf).answer, final(buf).header == old(buf).header,
        r matches Ok(i) ==> from + i.key_len + i.value_len <= old(buf).n && i.key_len <= u32::MAX && i.value_len <= u32::MAX,
{ unimplemented!() }
#[verifier::external_body]
pub fn verif_tail_mut(bytes: &mut IoSliceMut, offset: usize) -> (r: TailT)
    requires offset <= old(bytes).n, // @label tail_starts_inside_the_buffer
    ensures r.n == old(bytes).n - offset, final(bytes).n == old(bytes).n,
{ unimplemented!() }
/// `buf[..slice.len()].copy_from_slice(slice)`
#[verifier::external_body]
pub fn verif_copy(buf: &mut TailT, slice: &[u8], n: usize)
    requires n == slice@.len(), n <= old(buf).n, // @label raw_entry_copied_inside_the_buffer
    ensures final(buf).n == old(buf).n, final(buf).answer == old(buf).answer, final(buf).header == old(buf).header,
{ }
pub uninterp spec fn checksum_of_range(a: int, b: int) -> u64;
/// `Checksummer::checksum64(&buf[a..b])`
#[verifier::external_body]
pub fn verif_checksum(buf: &TailT, a: usize, b: usize) -> (r: u64)
    requires a <= b <= buf.n, // @label checksum_range_inside_the_buffer
    ensures r == checksum_of_range(a as int, b as int),
{ unimplemented!() }
/// `header.write(&mut buf[..n])` (byte layout: Kani unit codec)
#[verifier::external_body]
pub fn verif_header_write(h: &EntryHeader, buf: &mut TailT, n: usize)
    requires n == 36, n <= old(buf).n, // @label header_written_at_the_start_of_the_entry
    ensures final(buf).n == old(buf).n, final(buf).answer == old(buf).answer, final(buf).header@ == Some(*h),
{ }

impl EntryHeader {
//@fn foyer-storage/src/engine/block/serde.rs :: impl~^impl EntryHeader$/fn serialized_len ret=r
//@spec
        ensures r == 36, // @label header_is_36_bytes
//@end
}

impl Buffer {
    pub open spec fn wf(&self) -> bool {
        &&& self.bytes.n % 4096 == 0 && self.written % 4096 == 0 && self.written <= self.bytes.n
        &&& self.max_entry_size <= u32::MAX
        &&& buf_chain(self.entry_infos@) && buf_total(self.entry_infos@) == self.written
        &&& infos_ok(self.entry_infos@, self.max_entry_size as int)
    }

//@fn foyer-storage/src/engine/block/buffer.rs :: impl~^impl Buffer$/fn push_slice rules=drop-tracing ret=r sub=@let buf = &mut self\.bytes\[([^\]]*)\.\.\];@let mut buf = verif_tail_mut(&mut self.bytes, \1);@ sub=@buf\[\.\.([^\]]*)\]\.copy_from_slice\(slice\);@verif_copy(&mut buf, slice, \1);@
//@spec
        requires old(self).wf(), slice@.len() > 0, slice@.len() + 4095 <= usize::MAX,
        ensures
            final(self).wf(), // @label buffer_invariant_preserved
            final(self).bytes == old(self).bytes && final(self).max_entry_size == old(self).max_entry_size,
            r == (align_up_spec(slice@.len() as int) <= old(self).max_entry_size && align_up_spec(slice@.len() as int) <= old(self).bytes.n - old(self).written), // @label accepted_iff_it_fits_whole
            !r ==> final(self).written == old(self).written && final(self).entry_infos@ == old(self).entry_infos@, // @label refused_entry_leaves_no_trace
            r ==> final(self).written == old(self).written + align_up_spec(slice@.len() as int)
                && final(self).entry_infos@ == old(self).entry_infos@.push(BufferEntryInfo { hash: hash, sequence: sequence, offset: old(self).written, len: slice@.len() as usize }), // @label accepted_entry_recorded_at_the_old_write_position
//@before /let info = BufferEntryInfo \{/
        proof { lemma_align_up(slice@.len() as int); lemma_buf_push(self.entry_infos@, BufferEntryInfo { hash: hash, sequence: sequence, offset: offset, len: len }); }
//@end

// ---- Buffer::push from the serializer call to the end: header (lengths, checksum over exactly the value+key bytes,
// compression tag) and commit (refuse the entry as a whole if it exceeds the per-entry limit, else record it at the old
// write position and advance the write position by the SAME aligned length the splitter will compute from `len`)
//@region foyer-storage/src/engine/block/buffer.rs :: impl~^impl Buffer$/fn push name=push_body start=/let info = / stmts=99 rules=drop-tracing,drop-metrics sub=@EntrySerializer::serialize\(key, value, compression, &mut buf\[([^\]]*)\.\.\]\)@verif_serialize(buf, \1)@ sub=@(?s)Checksummer::checksum64\(\s*&buf\[([^\]]*?)\s*\.\.([^\]]*?)\],?\s*\)@verif_checksum(&buf, \1, \2)@ sub=@header\.write\(&mut buf\[\.\.([^\]]*)\]\);@verif_header_write(&header, buf, \1);@ sub=@info\.key_len as _@info.key_len as u32@ sub=@info\.value_len as _@info.value_len as u32@
//@head
    fn push_body(&mut self, buf: &mut TailT, offset: usize, hash: u64, sequence: Sequence, compression: Compression) -> (r: bool)
        requires
            old(self).wf(), offset == old(self).written, old(buf).n == old(self).bytes.n - old(self).written, old(buf).n >= 36,
        ensures
            final(self).wf(), // @label buffer_invariant_preserved
            final(self).bytes == old(self).bytes && final(self).max_entry_size == old(self).max_entry_size,
            old(buf).answer@ is Err ==> !r, // @label entry_the_serializer_refused_is_refused
            old(buf).answer@ matches Ok(i) ==> r == (align_up_spec(36 + i.key_len + i.value_len) <= old(self).max_entry_size), // @label oversize_entry_is_refused_whole
            !r ==> final(self).written == old(self).written && final(self).entry_infos@ == old(self).entry_infos@, // @label refused_entry_leaves_no_trace
            r ==> (old(buf).answer@ matches Ok(i) && final(self).written == old(self).written + align_up_spec(36 + i.key_len + i.value_len)
                && final(self).entry_infos@ == old(self).entry_infos@.push(BufferEntryInfo { hash: hash, sequence: sequence, offset: old(self).written, len: (36 + i.key_len + i.value_len) as usize })), // @label recorded_length_is_header_plus_key_plus_value_and_the_buffer_advances_by_its_aligned_length
            r ==> (old(buf).answer@ matches Ok(i) && (final(buf).header@ matches Some(h) && h.key_len == i.key_len && h.value_len == i.value_len
                && h.checksum == checksum_of_range(36, 36 + i.key_len + i.value_len)
                && h.hash == hash && h.sequence == sequence && h.compression == compression)), // @label header_records_lengths_checksum_over_exactly_value_and_key_bytes_hash_sequence_compression
//@before /let info = BufferEntryInfo \{/
        proof {
            lemma_align_up(len as int);
            lemma_align_fits(len as int, self.bytes.n - self.written);
            lemma_buf_push(self.entry_infos@, BufferEntryInfo { hash: hash, sequence: sequence, offset: offset, len: len });
        }
//@end

//@fn foyer-storage/src/engine/block/buffer.rs :: impl~^impl Buffer$/fn finish rules=drop-tracing ret=r
//@spec
        requires self.wf(),
        ensures
            r.0 == self.bytes && r.1@ == self.entry_infos@,
            // what Splitter::split requires of a batch
            infos_ok(r.1@, self.max_entry_size as int) && buf_chain(r.1@) && buf_total(r.1@) <= r.0.n, // @label finished_buffer_meets_the_splitters_precondition
//@end
}

} // verus!

// UNIT flusher — where a blob part is written and which addresses go into the disk index (C07, write order of C04)
#![allow(unused_imports, unused_variables, dead_code, unused_mut)]
use vstd::prelude::*;
use vstd::std_specs::iter::IteratorSpec;
verus! {

global size_of usize == 8;

//@item foyer-storage/src/io/mod.rs :: const PAGE
//@item foyer-storage/src/engine/block/serde.rs :: type Sequence
//@item foyer-storage/src/engine/block/manager.rs :: type BlockId
//@item foyer-storage/src/engine/block/buffer.rs :: struct BlobEntryIndex rules=derive-clone-copy
//@item foyer-storage/src/engine/block/indexer.rs :: struct EntryAddress rules=derive-clone-copy
//@item foyer-storage/src/engine/block/indexer.rs :: struct HashedEntryAddress rules=derive-clone-copy

#[derive(Debug)]
pub struct Error { pub e: u8 }
pub struct IoSlice { pub n: usize }
impl IoSlice { pub fn len(&self) -> (r: usize) ensures r == self.n { self.n } }
pub struct IoSliceMut { pub n: usize }
pub enum Payload { Data(IoSlice), Index(IoSliceMut) }
/// device block as a log of (offset, what) writes, in issue order
pub struct BlockT { pub id_: BlockId, pub writes: Ghost<Seq<(int, Payload)>> }
impl BlockT {
    pub fn id(&self) -> (r: BlockId) ensures r == self.id_ { self.id_ }
    #[verifier::external_body]
    pub fn write_data(&mut self, d: IoSlice, offset: u64) -> (r: ((), core::result::Result<(), Error>))
        ensures final(self).writes@ == old(self).writes@.push((offset as int, Payload::Data(d))), final(self).id_ == old(self).id_ { unimplemented!() }
    #[verifier::external_body]
    pub fn write_index(&mut self, d: IoSliceMut, offset: u64) -> (r: ((), core::result::Result<(), Error>))
        ensures final(self).writes@ == old(self).writes@.push((offset as int, Payload::Index(d))), final(self).id_ == old(self).id_ { unimplemented!() }
}
pub mod bits {
    use vstd::prelude::*;
    /// bits::assert_aligned panics unless v is a multiple of align
    #[verifier::external_body]
    pub fn assert_aligned(align: usize, v: usize) requires align == 4096, v % 4096 == 0, // @label write_offsets_and_lengths_page_aligned
    { }
}

// ---- one blob part: entry data first, then the blob index page that makes it visible; nothing when the part is empty
//@region foyer-storage/src/engine/block/flusher.rs :: impl~^impl<K, V, P> Runner<K, V, P>/fn submit_io_task name=write_blob_part start=/let offset = / stmts=99 rules=drop-tracing,de-async sub=@let block = block\.clone\(\);@@ sub=@block\.write\(Box::new\(data\), (.*?) as _\)@block.write_data(data, \1 as u64)@ sub=@block\.write\(Box::new\(index\), (.*?) as _\)@block.write_index(index, \1 as u64)@ sub=@if let Err\(e\) = res\.as_ref\(\) \{\s*\}@@
//@head
fn write_blob_part(block: &mut BlockT, blob_block_offset: usize, index: IoSliceMut, part_blob_offset: usize, data: IoSlice, indices: Vec<BlobEntryIndex>) -> (r: core::result::Result<(BlockId, usize, Vec<BlobEntryIndex>), Error>)
    requires
        // Splitter: part_ok
        blob_block_offset % 4096 == 0, part_blob_offset % 4096 == 0, data.n % 4096 == 0, blob_block_offset + part_blob_offset <= u32::MAX,
    ensures
        data.n == 0 ==> final(block).writes@ == old(block).writes@, // @label empty_part_writes_nothing
        data.n > 0 && r is Ok ==> final(block).writes@ == old(block).writes@
            .push((blob_block_offset + part_blob_offset, Payload::Data(data)))
            .push((blob_block_offset as int, Payload::Index(index))), // @label entry_data_written_at_blob_offset_plus_part_offset_then_index_page_at_blob_offset
        // whatever fails, the index page is never written before the data it describes
        data.n > 0 ==> final(block).writes@.len() >= old(block).writes@.len() + 1
            && final(block).writes@[old(block).writes@.len() as int] == (blob_block_offset + part_blob_offset, Payload::Data(data)), // @label data_write_is_issued_first
        r matches Ok(t) ==> t.0 == old(block).id_ && t.1 == blob_block_offset && t.2@ == indices@, // @label reports_blob_offset_with_its_indices
//@end

// ---- addresses inserted into the disk index: block, blob offset + in-blob offset, length, sequence
//@region foyer-storage/src/engine/block/flusher.rs :: impl~^impl<K, V, P> Runner<K, V, P>/fn submit_io_task name=append_addresses start=/for index in indices \{/ stmts=1 rules=drop-tracing
//@head
fn append_addresses(block: BlockId, blob_offset: usize, indices: Vec<BlobEntryIndex>, addrs: &mut Vec<HashedEntryAddress>)
    requires
        // Splitter: blob_block_offset + offset + aligned(len) <= block_size <= u32::MAX
        blob_offset <= u32::MAX, forall|i: int| 0 <= i < indices@.len() ==> blob_offset + (#[trigger] indices@[i]).offset <= u32::MAX,
    ensures
        final(addrs)@ == old(addrs)@ + indices@.map_values(|x: BlobEntryIndex| HashedEntryAddress { hash: x.hash,
            address: EntryAddress { block: block, offset: (blob_offset + x.offset) as u32, len: x.len, sequence: x.sequence } }), // @label indexed_address_is_blob_offset_plus_in_blob_offset
//@loop 1 iter=it
                        invariant
                            blob_offset <= u32::MAX, forall|i: int| 0 <= i < indices@.len() ==> blob_offset + (#[trigger] indices@[i]).offset <= u32::MAX,
                            addrs@ == old(addrs)@ + indices@.subrange(0, it.index@ as int).map_values(|x: BlobEntryIndex| HashedEntryAddress { hash: x.hash,
                                address: EntryAddress { block: block, offset: (blob_offset + x.offset) as u32, len: x.len, sequence: x.sequence } }),
//@before /let addr = HashedEntryAddress \{/
                            let ghost a0 = addrs@;
//@after /addrs\.push\(addr\);/
                            proof {
                                assert(indices@.subrange(0, it.index@ + 1) =~= indices@.subrange(0, it.index@ as int).push(index));
                                assert(addrs@ =~= old(addrs)@ + indices@.subrange(0, it.index@ + 1).map_values(|x: BlobEntryIndex| HashedEntryAddress { hash: x.hash,
                                    address: EntryAddress { block: block, offset: (blob_offset + x.offset) as u32, len: x.len, sequence: x.sequence } }));
                            }
//@tail
    proof { assert(indices@.subrange(0, indices@.len() as int) == indices@); }
//@end


// ---- Runner::handle_io_complete: what happens once the io task of a batch (block writes + index insert_batch +
// tombstone log append) has finished, and only then (C01: the write-queue references are released after the disk index
// was updated; the index placeholders of the batch's flushed tombstones are removed here, under their own sequence,
// i.e. not while writes of the same batch may still be inserted into the index; then the waiters are answered)
pub struct TombT { pub hash: u64, pub sequence: Sequence }
#[derive(Clone, Copy)] pub struct InvalidStats { pub block: BlockId, pub size: usize }
pub struct TombstoneInfo { pub tombstone: TombT, pub stats: Option<InvalidStats> }
pub enum Done { ReleasedWriteQueueRefs(nat), RemovedTombstones(Seq<(u64, Sequence)>) }
pub struct IndexerT { pub log: Ghost<Seq<Done>> }
pub open spec fn keys_of(t: Seq<TombstoneInfo>) -> Seq<(u64, Sequence)> { t.map_values(|i: TombstoneInfo| (i.tombstone.hash, i.tombstone.sequence)) }
/// stands for `tombstone_infos.iter().map(|info| (info.tombstone.hash, info.tombstone.sequence))` (iterator + closure)
#[verifier::external_body]
pub fn verif_tombstone_keys(t: &Vec<TombstoneInfo>) -> (r: Vec<(u64, Sequence)>) ensures r@ == keys_of(t@) { unimplemented!() }
pub struct PieceRefT { }
pub struct SenderT { }
impl SenderT { #[verifier::external_body] pub fn send(self, v: ()) -> core::result::Result<(), ()> { unimplemented!() } }
pub struct Instant { }
pub struct RunnerT { pub indexer: IndexerT }
impl IndexerT {
    #[verifier::external_body]
    pub fn remove_batch(&mut self, keys: Vec<(u64, Sequence)>) ensures final(self).log@ == old(self).log@.push(Done::RemovedTombstones(keys@)) { }
}
pub fn verif_ignore(keys: Vec<(u64, Sequence)>) { }
impl RunnerT {
    /// `drop(piece_refs)`: the write-queue (keeper) references of the batch are released
    #[verifier::external_body]
    pub fn verif_release_refs(&mut self, piece_refs: Vec<PieceRefT>) ensures final(self).indexer.log@ == old(self).indexer.log@.push(Done::ReleasedWriteQueueRefs(piece_refs@.len())) { }
//@region foyer-storage/src/engine/block/flusher.rs :: impl~^impl<K, V, P> Runner<K, V, P>/fn handle_io_complete name=handle_io_complete whole=1 rules=drop-metrics subopt=@drop\(piece_refs\);@self.verif_release_refs(piece_refs);@ subopt=@(?s)tombstone_infos\s*\.iter\(\)\s*\.map\(\|info\| \(info\.tombstone\.hash, info\.tombstone\.sequence\)\),?@verif_tombstone_keys(&tombstone_infos)@
//@head
    fn handle_io_complete(&mut self, piece_refs: Vec<PieceRefT>, waiters: Vec<SenderT>, tombstone_infos: Vec<TombstoneInfo>, init: Instant)
        ensures
            final(self).indexer.log@ == old(self).indexer.log@
                .push(Done::ReleasedWriteQueueRefs(piece_refs@.len()))
                .push(Done::RemovedTombstones(keys_of(tombstone_infos@))), // @label after_the_io_task_refs_are_released_and_the_batch_tombstone_placeholders_removed_under_their_sequence
//@loop 1 iter=it
            invariant self.indexer.log@ == old(self).indexer.log@.push(Done::ReleasedWriteQueueRefs(piece_refs@.len())).push(Done::RemovedTombstones(keys_of(tombstone_infos@))), // @label refs_released_and_tombstone_placeholders_removed_before_the_waiters_are_answered
//@end
}


// ---- the tombstone future of Runner::submit_io_task (C10): EVERY tombstone of the batch is handed to the tombstone log
// (a delete whose key had no indexed address yet -- its write is still queued -- included), in batch order, before the
// invalid-bytes statistics are updated; an append error ends the future with that error
pub open spec fn toms_of(t: Seq<TombstoneInfo>) -> Seq<TombT> { t.map_values(|i: TombstoneInfo| i.tombstone) }
pub struct LogT { pub must: Ghost<Seq<TombT>> }
impl LogT {
    #[verifier::external_body]
    pub fn append(&self, v: Vec<&TombT>) -> (r: core::result::Result<(), Error>)
        requires v@.len() == self.must@.len(), forall|i: int| 0 <= i < v@.len() ==> *(#[trigger] v@[i]) == self.must@[i], // @label every_tombstone_of_the_batch_is_handed_to_the_log_in_order
    { unimplemented!() }
}
/// empty Vec of the element type the rewritten iterator chain produces (rule iter-arg)
pub fn verif_new_vec<'a>() -> (r: Vec<&'a TombT>) ensures r@.len() == 0 { Vec::new() }
pub struct AtomicT { }
impl AtomicT { #[verifier::external_body] pub fn fetch_add(&self, v: usize, o: Ordering) -> usize { unimplemented!() } }
#[derive(Clone, Copy)] pub enum Ordering { Relaxed, Acquire, Release, SeqCst }
pub struct StatsT { pub invalid: AtomicT }
pub struct BlockHandleT { pub st: StatsT }
impl BlockHandleT { pub fn statistics(&self) -> &StatsT { &self.st } }
pub struct BlockManagerT { }
impl BlockManagerT { #[verifier::external_body] pub fn block(&self, id: BlockId) -> BlockHandleT { unimplemented!() } }
//@region foyer-storage/src/engine/block/flusher.rs :: impl~^impl<K, V, P> Runner<K, V, P>/fn submit_io_task name=tombstone_future start=/let tombstone_log = / body=1 rules=drop-tracing,de-async,iter-arg presubopt=@(?s)tombstone_infos\s*\.iter\(\)\s*\.map\(\|info\| \(info\.tombstone\.hash, info\.tombstone\.sequence\)\),?@verif_tombstone_keys(&tombstone_infos)@ sub=@for TombstoneInfo \{ tombstone: _, stats \} in tombstone_infos \{@for verif_ti in tombstone_infos { let stats = verif_ti.stats;@
//@head
fn tombstone_future(tombstone_log: Option<LogT>, tombstone_infos: Vec<TombstoneInfo>, block_manager: &BlockManagerT, indexer: &mut IndexerT) -> (r: core::result::Result<(), Error>)
    requires tombstone_log matches Some(l) ==> l.must@ == toms_of(tombstone_infos@),
    ensures final(indexer).log@ == old(indexer).log@, // @label the_tombstone_future_leaves_the_index_alone_placeholders_go_only_after_the_whole_io_task
//@loop 1 iter=it
            invariant
                it.snapshot@.remaining().len() == tombstone_infos@.len(),
                forall|i: int| 0 <= i < tombstone_infos@.len() ==> *(#[trigger] it.snapshot@.remaining()[i]) == tombstone_infos@[i],
                verif_v@.len() == it.index@, // @label no_tombstone_of_the_batch_is_left_out
                forall|i: int| 0 <= i < it.index@ ==> *(#[trigger] verif_v@[i]) == tombstone_infos@[i].tombstone,
//@end

} // verus!

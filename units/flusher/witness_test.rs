    /// Executable restatement of the FLUSHER contracts on the real block engine (replay only): a block that holds more
    /// entries than one blob index can describe gets several blobs; every entry, whichever blob it landed in, must be
    /// loadable from the address the flusher put into the index. Prints `WITNESS <label> :: <input>`.
    #[tokio::test]
    async fn verif_witness_flusher() {
        const MB: usize = 1024 * 1024;
        let mut found: Vec<String> = vec![];
        for (entries, size) in [(200u64, KB), (400u64, KB), (60u64, 7 * KB)] {
            let dir = tempfile::tempdir().unwrap();
            let memory = cache_for_test();
            let spawner = Spawner::current();
            let io_engine = io_engine_for_test(spawner.clone()).await;
            let device = FsDeviceBuilder::new(dir.path()).with_capacity(4 * MB).build().unwrap();
            let store = BlockEngineConfig::<u64, Vec<u8>, TestProperties>::new(device)
                .with_block_size(MB)
                .with_blob_index_size(4 * KB)
                .with_indexer_shards(4)
                .boxed()
                .build(EngineBuildContext { io_engine, metrics: Arc::new(Metrics::noop()), spawner, recover_mode: RecoverMode::Strict })
                .await
                .unwrap();
            store.hold_flush();
            let es = (0..entries).map(|i| memory.insert(i, vec![i as u8; size])).collect_vec();
            for e in es.iter() { enqueue(&store, e.clone()); }
            store.unhold_flush();
            store.wait().await;
            for i in 0..entries {
                let addr = store.inner.indexer.get(memory.hash(&i));
                let ok = match store.load(memory.hash(&i)).await { Ok(l) => matches!(l.kv(), Some((k, v)) if k == i && v == vec![i as u8; size]), Err(_) => false };
                if !ok {
                    found.push(format!("WITNESS indexed_address_is_blob_offset_plus_in_blob_offset :: block size 1 MiB, blob index 4 KiB, one batch of {entries} entries of {size} bytes: entry {i} indexed at {:?} does not load its own key and value from there", addr));
                    break;
                }
            }
        }
        for f in found.iter().take(3) { println!("{f}"); }
        println!("WITNESS-SEARCH-DONE found={}", found.len());
    }


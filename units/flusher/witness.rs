    // the harness itself (verif_witness_flusher) is inserted into this file's `tests` module (it uses that module's private
    // helpers); see units/flusher/witness_test.rs

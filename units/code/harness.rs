    // Code impls of the fixed-width built-in types: loop-free, full-domain => complete proofs.
    use crate::error::ErrorKind;
    pub fn vk_with_context_stub(this: Error, _key: &'static str, _value: impl ToString) -> Error { this }
    pub fn vk_with_source_stub(this: Error, _source: impl Into<anyhow::Error>) -> Error { this }
    pub fn vk_bt_stub() -> std::backtrace::Backtrace { std::backtrace::Backtrace::disabled() }

    macro_rules! vk_numeric {
        ($name:ident, $t:ty, $n:expr, $eq:expr) => {
            #[kani::proof]
            #[kani::unwind(3)]
            #[kani::stub(crate::error::Error::with_context, vk_with_context_stub)]
            #[kani::stub(crate::error::Error::with_source, vk_with_source_stub)]
            #[kani::stub(std::backtrace::Backtrace::capture, vk_bt_stub)]
            fn $name() {
                let x: $t = kani::any();
                assert!(x.estimated_size() == $n, "[estimated_size_is_width]");
                // exact fit + 2 guard bytes: exactly estimated_size bytes are written
                let mut buf = [0xA5u8; $n + 2];
                {
                    let mut w = &mut buf[..];
                    let r = x.encode(&mut w);
                    assert!(r.is_ok(), "[encode_into_large_enough_buffer_succeeds]");
                    assert!(w.len() == 2, "[encode_writes_exactly_estimated_size_bytes]");
                    std::mem::forget(r);
                }
                assert!(buf[$n] == 0xA5 && buf[$n + 1] == 0xA5, "[encode_frame]");
                {
                    let mut rd = &buf[..$n];
                    match <$t>::decode(&mut rd) {
                        Ok(y) => { let eq: fn(&$t, &$t) -> bool = $eq; assert!(eq(&x, &y), "[decode_of_encode_is_identity]"); assert!(rd.len() == 0, "[decode_consumes_exactly_width]"); }
                        Err(e) => { assert!(false, "[decode_of_encode_is_ok]"); std::mem::forget(e); }
                    }
                }
                // a too-small destination reports a size-limit error, never a partial success
                let short: usize = kani::any();
                kani::assume(short < $n);
                let mut small = [0u8; $n];
                {
                    let mut w = &mut small[..short];
                    match x.encode(&mut w) {
                        Ok(()) => assert!(false, "[short_buffer_is_never_ok]"),
                        Err(e) => { assert!(e.kind() == ErrorKind::BufferSizeLimit, "[short_buffer_is_size_limit_error]"); std::mem::forget(e); }
                    }
                }
                {
                    let mut rd = &small[..short];
                    let r = <$t>::decode(&mut rd);
                    assert!(r.is_err(), "[short_input_never_decodes]");
                    std::mem::forget(r);
                }
            }
        };
    }
    vk_numeric!(code_u8, u8, 1, |a, b| a == b);
    vk_numeric!(code_u16, u16, 2, |a, b| a == b);
    vk_numeric!(code_u32, u32, 4, |a, b| a == b);
    vk_numeric!(code_u64, u64, 8, |a, b| a == b);
    vk_numeric!(code_u128, u128, 16, |a, b| a == b);
    vk_numeric!(code_usize, usize, 8, |a, b| a == b);
    vk_numeric!(code_i8, i8, 1, |a, b| a == b);
    vk_numeric!(code_i16, i16, 2, |a, b| a == b);
    vk_numeric!(code_i32, i32, 4, |a, b| a == b);
    vk_numeric!(code_i64, i64, 8, |a, b| a == b);
    vk_numeric!(code_i128, i128, 16, |a, b| a == b);
    vk_numeric!(code_isize, isize, 8, |a, b| a == b);
    vk_numeric!(code_f32, f32, 4, |a, b| a.to_bits() == b.to_bits());
    vk_numeric!(code_f64, f64, 8, |a, b| a.to_bits() == b.to_bits());

    #[kani::proof]
    #[kani::unwind(3)]
    #[kani::stub(crate::error::Error::with_context, vk_with_context_stub)]
    #[kani::stub(crate::error::Error::with_source, vk_with_source_stub)]
    #[kani::stub(std::backtrace::Backtrace::capture, vk_bt_stub)]
    fn code_bool() {
        let x: bool = kani::any();
        let mut buf = [0xA5u8; 3];
        {
            let mut w = &mut buf[..];
            let r = x.encode(&mut w);
            assert!(r.is_ok() && w.len() == 2, "[encode_writes_exactly_estimated_size_bytes]");
            std::mem::forget(r);
        }
        assert!(x.estimated_size() == 1, "[estimated_size_is_width]");
        let b: u8 = kani::any();
        let one = [b];
        let mut rd = &one[..];
        match bool::decode(&mut rd) {
            Ok(y) => { assert!(b < 2 && y == (b == 1), "[bool_decodes_only_0_and_1]"); }
            Err(e) => { assert!(b >= 2, "[bool_0_and_1_always_decode]"); assert!(e.kind() == ErrorKind::Parse, "[other_bytes_are_parse_errors]"); std::mem::forget(e); }
        }
        let mut rd2 = &buf[..1];
        match bool::decode(&mut rd2) { Ok(y) => assert!(y == x, "[decode_of_encode_is_identity]"), Err(e) => { assert!(false, "[decode_of_encode_is_ok]"); std::mem::forget(e); } }
    }

    #[kani::proof]
    fn canary_code_reaches_assertions() {
        let x: u32 = kani::any();
        assert!(x.estimated_size() == 5, "[canary]");
    }

    // ---- variable-length impls at fixed small lengths (symbolic contents): bounded in length
    #[kani::proof]
    #[kani::unwind(12)]
    #[kani::stub(crate::error::Error::with_context, vk_with_context_stub)]
    #[kani::stub(crate::error::Error::with_source, vk_with_source_stub)]
    #[kani::stub(std::backtrace::Backtrace::capture, vk_bt_stub)]
    fn code_vec_u8_len3() {
        let a: [u8; 3] = kani::any();
        let x: Vec<u8> = vec![a[0], a[1], a[2]];
        assert!(x.estimated_size() == 8 + 3, "[estimated_size_is_length_prefix_plus_bytes]");
        let mut buf = [0xA5u8; 14];
        {
            let mut w = &mut buf[..];
            let r = x.encode(&mut w);
            assert!(r.is_ok(), "[encode_into_large_enough_buffer_succeeds]");
            assert!(w.len() == 14 - 11, "[encode_writes_exactly_estimated_size_bytes]");
            std::mem::forget(r);
        }
        assert!(buf[..8] == 3usize.to_le_bytes(), "[length_prefix_is_le_usize]");
        assert!(buf[8] == a[0] && buf[9] == a[1] && buf[10] == a[2] && buf[11] == 0xA5, "[payload_follows_prefix_and_frame]");
        {
            let mut rd = &buf[..11];
            match Vec::<u8>::decode(&mut rd) {
                Ok(y) => { assert!(y.len() == 3 && y[0] == a[0] && y[1] == a[1] && y[2] == a[2], "[decode_of_encode_is_identity]"); std::mem::forget(y); }
                Err(e) => { assert!(false, "[decode_of_encode_is_ok]"); std::mem::forget(e); }
            }
        }
        // destination one byte short: size-limit error, never Ok
        let mut small = [0u8; 10];
        {
            let mut w = &mut small[..];
            match x.encode(&mut w) {
                Ok(()) => assert!(false, "[short_buffer_is_never_ok]"),
                Err(e) => { assert!(e.kind() == ErrorKind::BufferSizeLimit, "[short_buffer_is_size_limit_error]"); std::mem::forget(e); }
            }
        }
        std::mem::forget(x);
    }

    macro_rules! vk_varlen {
        ($name:ident, $t:ty, $mk:expr, $bytes:expr) => {
            #[kani::proof]
            #[kani::unwind(12)]
            #[kani::stub(crate::error::Error::with_context, vk_with_context_stub)]
            #[kani::stub(crate::error::Error::with_source, vk_with_source_stub)]
            #[kani::stub(std::backtrace::Backtrace::capture, vk_bt_stub)]
            fn $name() {
                let a: [u8; 3] = kani::any();
                kani::assume(a[0] < 128 && a[1] < 128 && a[2] < 128); // ASCII, so the same bytes are a valid String
                let mk: fn([u8; 3]) -> $t = $mk;
                let x: $t = mk(a);
                assert!(x.estimated_size() == 8 + 3, "[estimated_size_is_length_prefix_plus_bytes]");
                let mut buf = [0xA5u8; 14];
                {
                    let mut w = &mut buf[..];
                    let r = x.encode(&mut w);
                    assert!(r.is_ok(), "[encode_into_large_enough_buffer_succeeds]");
                    assert!(w.len() == 14 - 11, "[encode_writes_exactly_estimated_size_bytes]");
                    std::mem::forget(r);
                }
                assert!(buf[8] == a[0] && buf[9] == a[1] && buf[10] == a[2] && buf[11] == 0xA5, "[payload_follows_prefix_and_frame]");
                {
                    let mut rd = &buf[..11];
                    match <$t>::decode(&mut rd) {
                        Ok(y) => { let b: fn(&$t) -> &[u8] = $bytes; assert!(b(&y).len() == 3 && b(&y)[0] == a[0] && b(&y)[1] == a[1] && b(&y)[2] == a[2], "[decode_of_encode_is_identity]"); std::mem::forget(y); }
                        Err(e) => { assert!(false, "[decode_of_encode_is_ok]"); std::mem::forget(e); }
                    }
                }
                // destination that holds the length prefix but not the whole body: size-limit error, never a partial success
                let mut small = [0u8; 10];
                {
                    let mut w = &mut small[..];
                    match x.encode(&mut w) {
                        Ok(()) => assert!(false, "[short_buffer_is_never_ok]"),
                        Err(e) => { assert!(e.kind() == ErrorKind::BufferSizeLimit, "[short_buffer_is_size_limit_error]"); std::mem::forget(e); }
                    }
                }
                std::mem::forget(x);
            }
        };
    }
    vk_varlen!(code_bytes_len3, bytes::Bytes, |a| bytes::Bytes::from(vec![a[0], a[1], a[2]]), |s| &s[..]);

    /// String::encode (decode's UTF-8 validation is out of CBMC's reach here): length prefix + bytes, exactly
    /// estimated_size bytes, size-limit error for a destination that cannot hold the whole body
    #[kani::proof]
    #[kani::unwind(12)]
    #[kani::stub(crate::error::Error::with_context, vk_with_context_stub)]
    #[kani::stub(crate::error::Error::with_source, vk_with_source_stub)]
    #[kani::stub(std::backtrace::Backtrace::capture, vk_bt_stub)]
    fn code_string_encode_len3() {
        let a: [u8; 3] = kani::any();
        kani::assume(a[0] < 128 && a[1] < 128 && a[2] < 128);
        let x: String = unsafe { String::from_utf8_unchecked(vec![a[0], a[1], a[2]]) };
        assert!(x.estimated_size() == 8 + 3, "[estimated_size_is_length_prefix_plus_bytes]");
        let mut buf = [0xA5u8; 14];
        {
            let mut w = &mut buf[..];
            let r = x.encode(&mut w);
            assert!(r.is_ok(), "[encode_into_large_enough_buffer_succeeds]");
            assert!(w.len() == 14 - 11, "[encode_writes_exactly_estimated_size_bytes]");
            std::mem::forget(r);
        }
        assert!(buf[0] == 3 && buf[1] == 0 && buf[7] == 0, "[length_prefix_is_le_usize]");
        assert!(buf[8] == a[0] && buf[9] == a[1] && buf[10] == a[2] && buf[11] == 0xA5, "[payload_follows_prefix_and_frame]");
        let mut small = [0u8; 10];
        {
            let mut w = &mut small[..];
            match x.encode(&mut w) {
                Ok(()) => assert!(false, "[short_buffer_is_never_ok]"),
                Err(e) => { assert!(e.kind() == ErrorKind::BufferSizeLimit, "[short_buffer_is_size_limit_error]"); std::mem::forget(e); }
            }
        }
        std::mem::forget(x);
    }

    /// a reader that hands out ONE byte per `read` call (like a streaming decompressor that returns short reads):
    /// decode must still fill the whole value (read_exact), not return after the first short read
    struct VkOneByte<'a> { data: &'a [u8], pos: usize }
    impl<'a> std::io::Read for VkOneByte<'a> {
        fn read(&mut self, buf: &mut [u8]) -> std::io::Result<usize> {
            if buf.is_empty() || self.pos >= self.data.len() { return Ok(0); }
            buf[0] = self.data[self.pos];
            self.pos += 1;
            Ok(1)
        }
    }
    #[kani::proof]
    #[kani::unwind(14)]
    #[kani::stub(crate::error::Error::with_context, vk_with_context_stub)]
    #[kani::stub(crate::error::Error::with_source, vk_with_source_stub)]
    #[kani::stub(std::backtrace::Backtrace::capture, vk_bt_stub)]
    fn code_vec_u8_decode_from_short_reads() {
        let a: [u8; 3] = kani::any();
        let mut buf = [0u8; 11];
        buf[0] = 3;
        buf[8] = a[0]; buf[9] = a[1]; buf[10] = a[2];
        let mut rd = VkOneByte { data: &buf[..], pos: 0 };
        match Vec::<u8>::decode(&mut rd) {
            Ok(y) => { assert!(y.len() == 3 && y[0] == a[0] && y[1] == a[1] && y[2] == a[2], "[decode_fills_the_whole_value_from_a_reader_that_returns_short_reads]"); std::mem::forget(y); }
            Err(e) => { assert!(false, "[decode_from_short_reads_is_ok]"); std::mem::forget(e); }
        }
        assert!(rd.pos == 11, "[decode_consumes_exactly_prefix_plus_value]");
    }

    #[kani::proof]
    #[kani::unwind(14)]
    #[kani::stub(crate::error::Error::with_context, vk_with_context_stub)]
    #[kani::stub(crate::error::Error::with_source, vk_with_source_stub)]
    #[kani::stub(std::backtrace::Backtrace::capture, vk_bt_stub)]
    fn code_bytes_decode_from_short_reads() {
        let a: [u8; 3] = kani::any();
        let mut buf = [0u8; 11];
        buf[0] = 3;
        buf[8] = a[0]; buf[9] = a[1]; buf[10] = a[2];
        let mut rd = VkOneByte { data: &buf[..], pos: 0 };
        match bytes::Bytes::decode(&mut rd) {
            Ok(y) => { assert!(y.len() == 3 && y[0] == a[0] && y[1] == a[1] && y[2] == a[2], "[decode_fills_the_whole_value_from_a_reader_that_returns_short_reads]"); std::mem::forget(y); }
            Err(e) => { assert!(false, "[decode_from_short_reads_is_ok]"); std::mem::forget(e); }
        }
        assert!(rd.pos == 11, "[decode_consumes_exactly_prefix_plus_value]");
    }

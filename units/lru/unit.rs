// UNIT lru — Lru (C14) over stand-in lists: the victim is the OLDEST low-priority record, and only when there is none the
// oldest record of the high-priority pool; a record that was looked up and is still held (pin list) is never a victim and
// becomes evictable again, at the MRU end of its pool, when it is released; the high-priority pool sheds its OLDEST records
// to the low-priority list, in order and no more than needed, until it is within its configured share; the pool's weight
// counter is exact.
// The intrusive lists are sequences of record ids. The per-record state (`&mut *record.state().get()`: UnsafeCell behind an
// Arc, aliased by the list element) is a ghost heap id -> state owned by the Lru stand-in, so a write through `state` is
// seen by the list element it aliases. Weight and hint are immutable per record (functions of the id).
#![allow(unused_imports, unused_variables, dead_code, unused_mut)]
use vstd::prelude::*;
verus! {

global size_of usize == 8;

//@item foyer-common/src/properties.rs :: enum Hint rules=derive-structural

pub struct StT { pub in_high_priority_pool: bool, pub is_pinned: bool }
pub uninterp spec fn w_of(id: int) -> usize;
/// an `Arc<Record>`: names the record
pub struct QRec { pub id: Ghost<int>, pub in_ev: bool, pub hint: Hint }
impl QRec {
    #[verifier::external_body] pub fn weight(&self) -> (r: usize) ensures r == w_of(self.id@) { unimplemented!() }
    /// atomic flag behind `&self`: not tracked here (the caller's precondition says what it means)
    #[verifier::external_body] pub fn set_in_eviction(&self, v: bool) { }
    pub fn is_in_eviction(&self) -> (r: bool) ensures r == self.in_ev { self.in_ev }
    /// `record.properties().hint().unwrap_or_default()`
    pub fn verif_hint_or_default(&self) -> (r: Hint) ensures r == self.hint { self.hint }
}
impl Clone for QRec { fn clone(&self) -> (r: Self) ensures r == *self { QRec { id: self.id, in_ev: self.in_ev, hint: self.hint } } }
pub struct PtrT { pub id: Ghost<int> }
pub fn verif_ptr(record: &QRec) -> (p: PtrT) ensures p.id@ == record.id@ { PtrT { id: record.id } }

#[verifier::external_body]
pub struct ListT { _p: core::marker::PhantomData<u8> }
impl ListT {
    pub uninterp spec fn view(&self) -> Seq<int>;
    #[verifier::external_body]
    pub fn pop_front(&mut self) -> (r: Option<QRec>)
        ensures old(self)@.len() == 0 ==> r is None && final(self)@ == old(self)@,
            old(self)@.len() > 0 ==> r is Some && r.unwrap().id@ == old(self)@[0] && final(self)@ == old(self)@.subrange(1, old(self)@.len() as int),
    { unimplemented!() }
    #[verifier::external_body]
    pub fn push_back(&mut self, r: QRec) ensures final(self)@ == old(self)@.push(r.id@) { }
    #[verifier::external_body]
    pub fn is_empty(&self) -> (r: bool) ensures r == (self@.len() == 0) { unimplemented!() }
    /// intrusive unlink of the record the pointer names (unsafe fn: the caller guarantees it is linked in THIS list)
    #[verifier::external_body]
    pub fn remove_from_ptr(&mut self, p: PtrT) -> (r: QRec)
        requires old(self)@.contains(p.id@),
        ensures r.id@ == p.id@, exists|i: int| 0 <= i < old(self)@.len() && old(self)@[i] == p.id@ && final(self)@ == #[trigger] old(self)@.remove(i),
    { unimplemented!() }
}

pub open spec fn isum(s: Seq<int>) -> nat decreases s.len() { if s.len() == 0 { 0 } else { isum(s.drop_last()) + w_of(s.last()) as nat } }
pub open spec fn nodup(s: Seq<int>) -> bool { forall|i: int, j: int| 0 <= i < s.len() && 0 <= j < s.len() && s[i] == s[j] ==> i == j }
pub proof fn lemma_isum_push(s: Seq<int>, x: int) ensures isum(s.push(x)) == isum(s) + w_of(x) as nat { assert(s.push(x).drop_last() =~= s); }
/// every element of a sequence but its first is an element of the rest
pub proof fn lemma_pop_front_keeps_the_rest()
    ensures forall|s: Seq<int>, y: int| s.len() > 0 && s.contains(y) && y != s[0] ==> #[trigger] s.subrange(1, s.len() as int).contains(y),
{
    assert forall|s: Seq<int>, y: int| s.len() > 0 && s.contains(y) && y != s[0] implies #[trigger] s.subrange(1, s.len() as int).contains(y) by {
        let i = choose|i: int| 0 <= i < s.len() && s[i] == y;
        assert(s.subrange(1, s.len() as int)[i - 1] == y);
    }
}
pub proof fn lemma_isum_empty(s: Seq<int>) requires s.len() == 0 ensures isum(s) == 0 { }
pub proof fn lemma_isum_remove(s: Seq<int>, i: int)
    requires 0 <= i < s.len(),
    ensures isum(s.remove(i)) + w_of(s[i]) as nat == isum(s),
    decreases s.len(),
{
    if i == s.len() - 1 { assert(s.remove(i) =~= s.drop_last()); }
    else {
        lemma_isum_remove(s.drop_last(), i);
        assert(s.remove(i).drop_last() =~= s.drop_last().remove(i));
        assert(s.remove(i).last() == s.last());
        assert(s.drop_last()[i] == s[i]);
    }
}
pub proof fn lemma_isum_pop_front(s: Seq<int>)
    requires s.len() > 0,
    ensures isum(s.subrange(1, s.len() as int)) + w_of(s[0]) as nat == isum(s),
{ lemma_isum_remove(s, 0); assert(s.remove(0) =~= s.subrange(1, s.len() as int)); }
pub proof fn lemma_nodup_push(s: Seq<int>, x: int)
    requires nodup(s), !s.contains(x),
    ensures nodup(s.push(x)), forall|y: int| s.push(x).contains(y) <==> (s.contains(y) || y == x),
{
    let t = s.push(x);
    assert forall|i: int, j: int| 0 <= i < t.len() && 0 <= j < t.len() && t[i] == t[j] implies i == j by {
        if i < s.len() && j < s.len() { assert(s[i] == s[j]); }
        else if i < s.len() { assert(s.contains(s[i])); }
        else if j < s.len() { assert(s.contains(s[j])); }
    }
    assert forall|y: int| t.contains(y) <==> (s.contains(y) || y == x) by {
        if t.contains(y) { let i = choose|i: int| 0 <= i < t.len() && t[i] == y; if i < s.len() { assert(s[i] == y); assert(s.contains(y)); } }
        if s.contains(y) { let i = choose|i: int| 0 <= i < s.len() && s[i] == y; assert(t[i] == y); }
        if y == x { assert(t[s.len() as int] == x); }
    }
}
pub proof fn lemma_nodup_remove(s: Seq<int>, i: int)
    requires nodup(s), 0 <= i < s.len(),
    ensures nodup(s.remove(i)), forall|y: int| s.remove(i).contains(y) <==> (s.contains(y) && y != s[i]),
{
    let t = s.remove(i);
    assert forall|a: int, b: int| 0 <= a < t.len() && 0 <= b < t.len() && t[a] == t[b] implies a == b by {
        let a2 = if a < i { a } else { a + 1 }; let b2 = if b < i { b } else { b + 1 };
        assert(t[a] == s[a2] && t[b] == s[b2]);
    }
    assert forall|y: int| t.contains(y) <==> (s.contains(y) && y != s[i]) by {
        if t.contains(y) { let a = choose|a: int| 0 <= a < t.len() && t[a] == y; let a2 = if a < i { a } else { a + 1 }; assert(s[a2] == y); assert(s.contains(y)); }
        if s.contains(y) && y != s[i] { let a = choose|a: int| 0 <= a < s.len() && s[a] == y; let a1 = if a < i { a } else { a - 1 }; assert(t[a1] == y); }
    }
}
pub proof fn lemma_contains_weight(s: Seq<int>, x: int)
    requires s.contains(x),
    ensures w_of(x) as nat <= isum(s),
{ let i = choose|i: int| 0 <= i < s.len() && s[i] == x; lemma_isum_remove(s, i); }

/// `cur` is what is left of `full` after its k oldest records moved on, and moving the k-th was needed (the pool was over `cap`)
pub open spec fn moved_oldest(full: Seq<int>, k: int, cur: Seq<int>, cap: usize) -> bool {
    0 <= k <= full.len() && cur == full.subrange(k, full.len() as int) && (k > 0 ==> isum(full.subrange(k - 1, full.len() as int)) > cap)
}

/// the in-eviction flags cleared by `record.set_in_eviction(false)` (atomic flag behind `&self`), as a ghost log
pub struct FlagLog { pub out: Ghost<Set<int>> }
impl FlagLog {
    #[verifier::external_body]
    pub fn set(&mut self, r: &QRec, v: bool) ensures final(self).out@ == (if v { old(self).out@.remove(r.id@) } else { old(self).out@.insert(r.id@) }) { }
}
pub struct LruT {
    pub high_priority_list: ListT, pub list: ListT, pub pin_list: ListT,
    pub high_priority_weight: usize, pub high_priority_weight_capacity: usize,
    /// the state of every record (what `record.state()` points to)
    pub st: Ghost<spec_fn(int) -> StT>,
}
impl LruT {
    pub open spec fn high(&self) -> Seq<int> { self.high_priority_list@ }
    pub open spec fn low(&self) -> Seq<int> { self.list@ }
    pub open spec fn pin(&self) -> Seq<int> { self.pin_list@ }
    /// list structure, pool flags, pool weight
    pub open spec fn wf_lists(&self) -> bool {
        &&& nodup(self.high()) && nodup(self.low()) && nodup(self.pin())
        &&& forall|id: int| #[trigger] self.high().contains(id) ==> self.st@(id).in_high_priority_pool
        &&& forall|id: int| #[trigger] self.low().contains(id) ==> !self.st@(id).in_high_priority_pool
        &&& self.high_priority_weight == isum(self.high())
        &&& isum(self.high()) + isum(self.low()) + isum(self.pin()) <= usize::MAX
    }
    /// pin flags: exactly the records of the pin list are flagged as held -- except `p`, a record in the middle of being
    /// released (already relinked, flag not yet cleared)
    pub open spec fn wf_pins_but(&self, p: Option<int>) -> bool {
        &&& forall|id: int| #[trigger] self.high().contains(id) ==> Some(id) == p || !self.st@(id).is_pinned
        &&& forall|id: int| #[trigger] self.low().contains(id) ==> Some(id) == p || !self.st@(id).is_pinned
        &&& forall|id: int| #[trigger] self.pin().contains(id) ==> self.st@(id).is_pinned
    }
    pub open spec fn wf(&self) -> bool { self.wf_lists() && self.wf_pins_but(None) }
    /// the flags tell where a resident record is linked
    pub open spec fn resident(&self, id: int) -> bool {
        if self.st@(id).is_pinned { self.pin().contains(id) } else if self.st@(id).in_high_priority_pool { self.high().contains(id) } else { self.low().contains(id) }
    }
    /// states of all records but `id` are the same
    pub open spec fn st_same_but(&self, o: &LruT, id: int) -> bool { forall|x: int| x != id ==> #[trigger] self.st@(x) == o.st@(x) }

    /// reads through `state` (the record's state cell)
    #[verifier::external_body] pub fn verif_pinned(&self, record: &QRec) -> (r: bool) ensures r == self.st@(record.id@).is_pinned { unimplemented!() }
    #[verifier::external_body] pub fn verif_high(&self, record: &QRec) -> (r: bool) ensures r == self.st@(record.id@).in_high_priority_pool { unimplemented!() }
    #[verifier::external_body]
    pub fn verif_set_pinned(&mut self, record: &QRec, v: bool)
        ensures final(self).st@ == (|x: int| if x == record.id@ { StT { is_pinned: v, ..old(self).st@(x) } } else { old(self).st@(x) }),
            final(self).high_priority_list == old(self).high_priority_list, final(self).list == old(self).list, final(self).pin_list == old(self).pin_list,
            final(self).high_priority_weight == old(self).high_priority_weight, final(self).high_priority_weight_capacity == old(self).high_priority_weight_capacity,
    { unimplemented!() }
    #[verifier::external_body]
    pub fn verif_set_high(&mut self, record: &QRec, v: bool)
        ensures final(self).st@ == (|x: int| if x == record.id@ { StT { in_high_priority_pool: v, ..old(self).st@(x) } } else { old(self).st@(x) }),
            final(self).high_priority_list == old(self).high_priority_list, final(self).list == old(self).list, final(self).pin_list == old(self).pin_list,
            final(self).high_priority_weight == old(self).high_priority_weight, final(self).high_priority_weight_capacity == old(self).high_priority_weight_capacity,
    { unimplemented!() }

// ---- Lru::may_overflow_high_priority_pool: the pool sheds its OLDEST records to the low-priority list until within its share
//@fn foyer-memory/src/eviction/lru.rs :: impl~^impl<K, V, P> Lru<K, V, P>/fn may_overflow_high_priority_pool rules=assert-eq sub=@let state = unsafe \{ &mut \*record\.state\(\)\.get\(\) \};@@ sub=@assert!\(state\.in_high_priority_pool\);@assert!(self.verif_high(&record));@ sub=@state\.in_high_priority_pool = false;@self.verif_set_high(&record, false);@
//@spec
        requires old(self).wf_lists(),
        ensures
            final(self).wf_lists(), // @label pool_weight_and_record_flags_stay_exact
            forall|p: Option<int>| old(self).wf_pins_but(p) ==> #[trigger] final(self).wf_pins_but(p), // @label pool_weight_and_record_flags_stay_exact
            final(self).high_priority_weight_capacity == old(self).high_priority_weight_capacity, final(self).pin() == old(self).pin(),
            final(self).high_priority_weight <= final(self).high_priority_weight_capacity, // @label high_priority_pool_is_within_its_share
            exists|k: int| #[trigger] moved_oldest(old(self).high(), k, final(self).high(), old(self).high_priority_weight_capacity)
                && final(self).low() == old(self).low() + old(self).high().subrange(0, k), // @label pool_overflow_moves_its_oldest_records_to_the_low_priority_list_in_order_and_no_more_than_needed
            forall|x: int| !old(self).high().contains(x) ==> #[trigger] final(self).st@(x) == old(self).st@(x),
            forall|x: int| #[trigger] final(self).st@(x).is_pinned == old(self).st@(x).is_pinned,
//@before /while self\.high_priority_weight\b/
        let ghost h0 = self.high();
        let ghost l0 = self.low();
        let ghost mut k: int = 0;
        let ghost mut before: Seq<int> = Seq::empty();
        let ghost mut lb: Seq<int> = Seq::empty();
        
        proof { assert(h0.subrange(0, h0.len() as int) =~= h0); assert(l0 + h0.subrange(0, 0) =~= l0); }
//@loop 1
            invariant
                self.wf_lists(), // @label pool_weight_and_record_flags_stay_exact
                self.high_priority_weight_capacity == old(self).high_priority_weight_capacity, self.pin() == old(self).pin(),
                h0 == old(self).high(), l0 == old(self).low(),
                moved_oldest(h0, k, self.high(), old(self).high_priority_weight_capacity), // @label pool_overflow_moves_its_oldest_records_to_the_low_priority_list_in_order_and_no_more_than_needed
                self.low() == l0 + h0.subrange(0, k),
                forall|x: int| !h0.contains(x) ==> #[trigger] self.st@(x) == old(self).st@(x),
                forall|x: int| #[trigger] self.st@(x).is_pinned == old(self).st@(x).is_pinned,
            decreases self.high().len(),
//@before /let record = self\.high_priority_list\.pop_front\(\)\.unwrap\(\);/
            proof {
                before = self.high(); lb = self.low();
                if before.len() == 0 { lemma_isum_empty(before); }
                lemma_isum_pop_front(before);
                lemma_nodup_remove(before, 0);
                assert(before.remove(0) =~= before.subrange(1, before.len() as int));
                assert(before.contains(before[0]));
                assert(before =~= h0.subrange(k, h0.len() as int));
                assert(h0.contains(h0[k]));
            }
//@after /self\.list\.push_back\(record\);/
            proof {
                let x = before[0];
                assert(!lb.contains(x));   // a record of the pool carries the pool flag, one of the low list does not
                lemma_nodup_push(lb, x);
                lemma_isum_push(lb, x);
                assert(self.high() =~= h0.subrange(k + 1, h0.len() as int));
                assert(h0.subrange(0, k + 1) =~= h0.subrange(0, k).push(h0[k]));
                assert(self.low() =~= l0 + h0.subrange(0, k + 1));
                assert forall|id: int| #[trigger] self.high().contains(id) implies self.st@(id).in_high_priority_pool by { assert(before.contains(id) && id != x); }
                assert forall|id: int| #[trigger] self.low().contains(id) implies !self.st@(id).in_high_priority_pool by { if id != x { assert(lb.contains(id)); } }
                k = k + 1;
            }
//@tail
        proof {
            let kk = k;
            assert forall|p: Option<int>| old(self).wf_pins_but(p) implies #[trigger] self.wf_pins_but(p) by {
                assert forall|id: int| #[trigger] self.high().contains(id) implies Some(id) == p || !self.st@(id).is_pinned by {
                    let i = choose|i: int| 0 <= i < self.high().len() && self.high()[i] == id; assert(h0[kk + i] == id); assert(h0.contains(id));
                }
                assert forall|id: int| #[trigger] self.low().contains(id) implies Some(id) == p || !self.st@(id).is_pinned by {
                    let i = choose|i: int| 0 <= i < self.low().len() && self.low()[i] == id;
                    if i < l0.len() { assert(l0[i] == id); assert(l0.contains(id)); } else { assert(h0[i - l0.len()] == id); assert(h0.contains(id)); }
                }
            }
        }
//@end

// ---- Lru::push: a record with the normal hint enters the high-priority pool as its newest (the pool then sheds its oldest),
// a record hinted low enters the low-priority list as its newest
//@region foyer-memory/src/eviction/lru.rs :: impl~^impl<K, V, P> Eviction for Lru<K, V, P>/fn push name=lru_push whole=1 rules=assert-eq sub=@let state = unsafe \{ &mut \*record\.state\(\)\.get\(\) \};@@ subopt=@assert!\(!state\.link\.is_linked\(\)\);@@ sub=@record\.properties\(\)\.hint\(\)\.unwrap_or_default\(\)@record.verif_hint_or_default()@ sub=@state\.in_high_priority_pool = (\w+);@self.verif_set_high(&record, \1);@
//@head
    fn lru_push(&mut self, record: QRec)
        requires old(self).wf(), !record.in_ev,
            // a record that is not in the eviction container is in none of its lists and not pinned
            !old(self).high().contains(record.id@) && !old(self).low().contains(record.id@) && !old(self).pin().contains(record.id@) && !old(self).st@(record.id@).is_pinned,
            isum(old(self).high()) + isum(old(self).low()) + isum(old(self).pin()) + w_of(record.id@) <= usize::MAX,
        ensures
            final(self).wf(), // @label pool_weight_and_record_flags_stay_exact
            final(self).high_priority_weight_capacity == old(self).high_priority_weight_capacity, final(self).pin() == old(self).pin(),
            record.hint == Hint::Low ==> final(self).high() == old(self).high() && final(self).low() == old(self).low().push(record.id@), // @label a_low_priority_record_enters_the_low_priority_list_as_its_newest
            record.hint == Hint::Normal ==> final(self).high_priority_weight <= final(self).high_priority_weight_capacity
                && exists|k: int| #[trigger] moved_oldest(old(self).high().push(record.id@), k, final(self).high(), old(self).high_priority_weight_capacity)
                    && final(self).low() == old(self).low() + old(self).high().push(record.id@).subrange(0, k), // @label a_normal_record_enters_the_high_priority_pool_as_its_newest_and_the_pool_sheds_its_oldest
//@prologue
        let ghost h0 = self.high();
        let ghost l0 = self.low();
        let ghost x = record.id@;
//@after /self\.high_priority_list\.push_back\(record\);/
                proof {
                    lemma_nodup_push(h0, x); lemma_isum_push(h0, x);
                    assert forall|id: int| #[trigger] self.high().contains(id) implies self.st@(id).in_high_priority_pool && !self.st@(id).is_pinned by { if id != x { assert(h0.contains(id)); } }
                    assert forall|id: int| #[trigger] self.low().contains(id) implies !self.st@(id).in_high_priority_pool && !self.st@(id).is_pinned by { assert(id != x); }
                    assert forall|id: int| #[trigger] self.pin().contains(id) implies self.st@(id).is_pinned by { assert(id != x); }
                    assert(self.wf_lists() && self.wf_pins_but(None));
                }
//@after /self\.list\.push_back\(record\);/
                proof {
                    lemma_nodup_push(l0, x); lemma_isum_push(l0, x);
                    assert forall|id: int| #[trigger] self.low().contains(id) implies !self.st@(id).in_high_priority_pool && !self.st@(id).is_pinned by { if id != x { assert(l0.contains(id)); } }
                    assert forall|id: int| #[trigger] self.high().contains(id) implies self.st@(id).in_high_priority_pool && !self.st@(id).is_pinned by { assert(id != x); }
                    assert forall|id: int| #[trigger] self.pin().contains(id) implies self.st@(id).is_pinned by { assert(id != x); }
                }
//@end

// ---- Lru::pop: the victim is the oldest low-priority record, else the oldest record of the pool; never a held one
//@region foyer-memory/src/eviction/lru.rs :: impl~^impl<K, V, P> Eviction for Lru<K, V, P>/fn pop name=lru_pop whole=1 rules=assert-eq,option-or-else sub=@let state = unsafe \{ &mut \*record\.state\(\)\.get\(\) \};@@ subopt=@assert!\(!state\.link\.is_linked\(\)\);@@ sub=@if state\.in_high_priority_pool \{@if self.verif_high(&record) {@ sub=@state\.in_high_priority_pool = false;@self.verif_set_high(&record, false);@ subopt=@state\.is_pinned = (\w+);@self.verif_set_pinned(&record, \1);@ subopt=@\bstate\.is_pinned\b@self.verif_pinned(&record)@ subopt=@\bstate\.in_high_priority_pool\b@self.verif_high(&record)@
//@head
    fn lru_pop(&mut self) -> (r: Option<QRec>)
        requires old(self).wf(),
        ensures
            final(self).wf(), // @label pool_weight_and_record_flags_stay_exact
            final(self).high_priority_weight_capacity == old(self).high_priority_weight_capacity,
            final(self).pin() == old(self).pin(), // @label a_held_record_is_never_the_victim
            old(self).low().len() > 0 ==> r is Some && r.unwrap().id@ == old(self).low()[0] && final(self).low() == old(self).low().subrange(1, old(self).low().len() as int)
                && final(self).high() == old(self).high(), // @label the_oldest_low_priority_record_is_evicted_first
            old(self).low().len() == 0 && old(self).high().len() > 0 ==> r is Some && r.unwrap().id@ == old(self).high()[0]
                && final(self).high() == old(self).high().subrange(1, old(self).high().len() as int) && final(self).low() == old(self).low(), // @label then_the_oldest_record_of_the_high_priority_pool
            old(self).low().len() == 0 && old(self).high().len() == 0 ==> r is None && final(self).st@ == old(self).st@ && final(self).high() == old(self).high() && final(self).low() == old(self).low(), // @label nothing_is_evicted_when_only_held_records_are_left
            r is Some ==> !final(self).st@(r.unwrap().id@).in_high_priority_pool && final(self).st_same_but(old(self), r.unwrap().id@),
//@prologue
        let ghost h0 = self.high();
        let ghost l0 = self.low();
        proof {
            if l0.len() > 0 { lemma_isum_pop_front(l0); lemma_nodup_remove(l0, 0); assert(l0.remove(0) =~= l0.subrange(1, l0.len() as int)); assert(l0.contains(l0[0])); }
            if h0.len() > 0 { lemma_isum_pop_front(h0); lemma_nodup_remove(h0, 0); assert(h0.remove(0) =~= h0.subrange(1, h0.len() as int)); assert(h0.contains(h0[0])); }
        }
//@before /record\.set_in_eviction\(false\);/
        proof {
            let x = record.id@;
            assert forall|id: int| #[trigger] self.high().contains(id) implies self.st@(id).in_high_priority_pool && !self.st@(id).is_pinned by { assert(h0.contains(id)); assert(id != x); }
            assert forall|id: int| #[trigger] self.low().contains(id) implies !self.st@(id).in_high_priority_pool && !self.st@(id).is_pinned by { assert(l0.contains(id)); }
            assert forall|id: int| #[trigger] self.pin().contains(id) implies self.st@(id).is_pinned by { if id == x { assert(old(self).st@(id).is_pinned); } }
        }
//@end

// ---- Lru::clear: every record leaves -- the evictable ones through pop, the HELD ones (pin list) through the drain loop,
// each of which is flagged out of the eviction container (whatever pool it belonged to) and out of the pool; all three
// lists end empty, the pool counter at 0
//@region foyer-memory/src/eviction/lru.rs :: impl~^impl<K, V, P> Eviction for Lru<K, V, P>/fn clear name=lru_clear whole=1 rules=assert-eq sub=@let state = unsafe \{ &mut \*record\.state\(\)\.get\(\) \};@@ subopt=@assert!\(!state\.link\.is_linked\(\)\);@@ subopt=@if state\.in_high_priority_pool \{@if self.verif_high(&record) {@ subopt=@state\.in_high_priority_pool = false;@self.verif_set_high(&record, false);@ subopt=@record\.set_in_eviction\(@verif_flags.set(&record, @ sub=@self\.pop\(\)@self.lru_pop()@
//@head
    fn lru_clear(&mut self, verif_flags: &mut FlagLog)
        requires old(self).wf(),
        ensures
            final(self).high().len() == 0 && final(self).low().len() == 0 && final(self).pin().len() == 0 && final(self).high_priority_weight == 0, // @label clear_empties_all_three_lists
            forall|id: int| #[trigger] old(self).pin().contains(id) ==> final(verif_flags).out@.contains(id), // @label every_held_record_is_flagged_out_of_the_eviction_container_by_clear
            forall|id: int| #[trigger] old(self).pin().contains(id) ==> !final(self).st@(id).in_high_priority_pool,
//@prologue
        let ghost p0 = self.pin();
//@loop 1
            invariant self.wf(), self.pin() == p0,
            ensures self.wf(), self.pin() == p0, self.high().len() == 0 && self.low().len() == 0,
            decreases self.low().len() + self.high().len(),
//@loop 2
            invariant self.high().len() == 0, self.low().len() == 0, self.high_priority_weight == 0,
                forall|id: int| #[trigger] p0.contains(id) ==> self.pin().contains(id) || (verif_flags.out@.contains(id) && !self.st@(id).in_high_priority_pool), // @label every_held_record_is_flagged_out_of_the_eviction_container_by_clear
            ensures self.pin().len() == 0,
            decreases self.pin().len(),
//@before /if self\.verif_high\(&record\) \{/
            proof { lemma_pop_front_keeps_the_rest(); }
//@after /while self\.lru_pop\(\)\.is_some\(\) \{\}/
        proof { lemma_isum_empty(self.high()); }
//@end

// ---- Lru::remove: the record leaves the list its flags name (a held record: the pin list), the pool weight follows
//@region foyer-memory/src/eviction/lru.rs :: impl~^impl<K, V, P> Eviction for Lru<K, V, P>/fn remove name=lru_remove whole=1 rules=assert-eq sub=@let state = unsafe \{ &mut \*record\.state\(\)\.get\(\) \};@@ subopt=@assert!\(!?state\.link\.is_linked\(\)\);@@ sub=@state\.in_high_priority_pool = (\w+);@self.verif_set_high(record, \1);@ sub=@\bstate\.is_pinned\b@self.verif_pinned(record)@ sub=@\bstate\.in_high_priority_pool\b@self.verif_high(record)@ sub=@unsafe \{@{@ sub=@Arc::as_ptr\(record\)@verif_ptr(record)@
//@head
    fn lru_remove(&mut self, record: &QRec)
        requires old(self).wf(), record.in_ev, old(self).resident(record.id@),
        ensures
            final(self).wf(), // @label pool_weight_and_record_flags_stay_exact
            final(self).high_priority_weight_capacity == old(self).high_priority_weight_capacity,
            !final(self).st@(record.id@).in_high_priority_pool, final(self).st_same_but(old(self), record.id@),
            ({
                let x = record.id@; let st0 = old(self).st@(x);
                &&& (st0.is_pinned ==> final(self).high() == old(self).high() && final(self).low() == old(self).low()
                        && exists|i: int| 0 <= i < old(self).pin().len() && old(self).pin()[i] == x && final(self).pin() == #[trigger] old(self).pin().remove(i))
                &&& (!st0.is_pinned && st0.in_high_priority_pool ==> final(self).pin() == old(self).pin() && final(self).low() == old(self).low()
                        && exists|i: int| 0 <= i < old(self).high().len() && old(self).high()[i] == x && final(self).high() == #[trigger] old(self).high().remove(i))
                &&& (!st0.is_pinned && !st0.in_high_priority_pool ==> final(self).pin() == old(self).pin() && final(self).high() == old(self).high()
                        && exists|i: int| 0 <= i < old(self).low().len() && old(self).low()[i] == x && final(self).low() == #[trigger] old(self).low().remove(i))
            }), // @label the_record_leaves_the_list_its_flags_name
//@prologue
        let ghost h0 = self.high();
        let ghost l0 = self.low();
        let ghost p0 = self.pin();
        let ghost x = record.id@;
        proof {
            if h0.contains(x) { let i = choose|i: int| 0 <= i < h0.len() && h0[i] == x; lemma_contains_weight(h0, x); }
        }
//@before /record\.set_in_eviction\(false\);/
        proof {
            if old(self).st@(x).is_pinned {
                let i = choose|i: int| 0 <= i < p0.len() && p0[i] == x && self.pin() == #[trigger] p0.remove(i);
                lemma_nodup_remove(p0, i); lemma_isum_remove(p0, i);
                assert forall|id: int| #[trigger] self.pin().contains(id) implies self.st@(id).is_pinned by { assert(p0.contains(id) && id != x); }
                assert forall|id: int| #[trigger] self.high().contains(id) implies self.st@(id).in_high_priority_pool && !self.st@(id).is_pinned by { assert(id != x); }
                assert forall|id: int| #[trigger] self.low().contains(id) implies !self.st@(id).in_high_priority_pool && !self.st@(id).is_pinned by { assert(id != x); }
            } else if old(self).st@(x).in_high_priority_pool {
                let i = choose|i: int| 0 <= i < h0.len() && h0[i] == x && self.high() == #[trigger] h0.remove(i);
                lemma_nodup_remove(h0, i); lemma_isum_remove(h0, i);
                assert forall|id: int| #[trigger] self.high().contains(id) implies self.st@(id).in_high_priority_pool && !self.st@(id).is_pinned by { assert(h0.contains(id) && id != x); }
                assert forall|id: int| #[trigger] self.low().contains(id) implies !self.st@(id).in_high_priority_pool && !self.st@(id).is_pinned by { assert(id != x); }
                assert forall|id: int| #[trigger] self.pin().contains(id) implies self.st@(id).is_pinned by { assert(id != x); }
            } else {
                let i = choose|i: int| 0 <= i < l0.len() && l0[i] == x && self.low() == #[trigger] l0.remove(i);
                lemma_nodup_remove(l0, i); lemma_isum_remove(l0, i);
                assert forall|id: int| #[trigger] self.low().contains(id) implies !self.st@(id).in_high_priority_pool && !self.st@(id).is_pinned by { assert(l0.contains(id) && id != x); }
                assert forall|id: int| #[trigger] self.high().contains(id) implies self.st@(id).in_high_priority_pool && !self.st@(id).is_pinned by { assert(id != x); }
                assert forall|id: int| #[trigger] self.pin().contains(id) implies self.st@(id).is_pinned by { assert(id != x); }
            }
        }
//@end

// ---- Lru::acquire (closure body): a looked-up record leaves its pool for the pin list, where pop never looks
//@region foyer-memory/src/eviction/lru.rs :: impl~^impl<K, V, P> Eviction for Lru<K, V, P>/fn acquire name=lru_acquire start=/Op::mutable\(\|this: &mut Self, record\| \{/ body=1 rules=assert-eq sub=@let state = unsafe \{ &mut \*record\.state\(\)\.get\(\) \};@@ subopt=@assert!\(state\.link\.is_linked\(\)\);@@ sub=@state\.is_pinned = (\w+);@this.verif_set_pinned(record, \1);@ sub=@\bstate\.is_pinned\b@this.verif_pinned(record)@ sub=@\bstate\.in_high_priority_pool\b@this.verif_high(record)@ sub=@unsafe \{ this\.(\w+)\.remove_from_ptr\(Arc::as_ptr\(record\)\) \}@this.\1.remove_from_ptr(verif_ptr(record))@
//@head
    fn lru_acquire(this: &mut LruT, record: &QRec)
        requires old(this).wf(), record.in_ev ==> old(this).resident(record.id@),
        ensures
            final(this).wf(), // @label pool_weight_and_record_flags_stay_exact
            final(this).high_priority_weight_capacity == old(this).high_priority_weight_capacity,
            !record.in_ev || old(this).st@(record.id@).is_pinned ==> final(this).high() == old(this).high() && final(this).low() == old(this).low() && final(this).pin() == old(this).pin() && final(this).st@ == old(this).st@, // @label a_record_that_is_already_held_or_not_resident_is_left_alone
            ({
                let x = record.id@; let st0 = old(this).st@(x);
                record.in_ev && !st0.is_pinned ==> final(this).pin() == old(this).pin().push(x) && final(this).st@(x).is_pinned && final(this).st@(x).in_high_priority_pool == st0.in_high_priority_pool
                    && final(this).st_same_but(old(this), x)
                    && (st0.in_high_priority_pool ==> final(this).low() == old(this).low() && exists|i: int| 0 <= i < old(this).high().len() && old(this).high()[i] == x && final(this).high() == #[trigger] old(this).high().remove(i))
                    && (!st0.in_high_priority_pool ==> final(this).high() == old(this).high() && exists|i: int| 0 <= i < old(this).low().len() && old(this).low()[i] == x && final(this).low() == #[trigger] old(this).low().remove(i))
            }), // @label a_looked_up_record_moves_to_the_pin_list_where_it_is_no_victim
//@prologue
        let ghost h0 = this.high();
        let ghost l0 = this.low();
        let ghost p0 = this.pin();
        let ghost x = record.id@;
        proof { if h0.contains(x) { lemma_contains_weight(h0, x); } }
//@tail
        proof {
            if old(this).st@(x).in_high_priority_pool {
                let i = choose|i: int| 0 <= i < h0.len() && h0[i] == x && this.high() == #[trigger] h0.remove(i);
                lemma_nodup_remove(h0, i); lemma_isum_remove(h0, i);
            } else {
                let i = choose|i: int| 0 <= i < l0.len() && l0[i] == x && this.low() == #[trigger] l0.remove(i);
                lemma_nodup_remove(l0, i); lemma_isum_remove(l0, i);
            }
            assert(!p0.contains(x));
            lemma_nodup_push(p0, x); lemma_isum_push(p0, x);
            assert forall|id: int| #[trigger] this.high().contains(id) implies this.st@(id).in_high_priority_pool && !this.st@(id).is_pinned by { assert(h0.contains(id) && id != x); }
            assert forall|id: int| #[trigger] this.low().contains(id) implies !this.st@(id).in_high_priority_pool && !this.st@(id).is_pinned by { assert(l0.contains(id) && id != x); }
            assert forall|id: int| #[trigger] this.pin().contains(id) implies this.st@(id).is_pinned by { if id != x { assert(p0.contains(id)); } }
        }
//@end

// ---- Lru::release (closure body): a released record is evictable again, at the MRU end of its pool
//@region foyer-memory/src/eviction/lru.rs :: impl~^impl<K, V, P> Eviction for Lru<K, V, P>/fn release name=lru_release start=/Op::mutable\(\|this: &mut Self, record\| \{/ body=1 rules=assert-eq sub=@let state = unsafe \{ &mut \*record\.state\(\)\.get\(\) \};@@ subopt=@assert!\(state\.link\.is_linked\(\)\);@@ sub=@state\.is_pinned = (\w+);@this.verif_set_pinned(record, \1);@ sub=@\bstate\.is_pinned\b@this.verif_pinned(record)@ sub=@\bstate\.in_high_priority_pool\b@this.verif_high(record)@ sub=@unsafe \{ this\.(\w+)\.remove_from_ptr\(Arc::as_ptr\(record\)\) \}@this.\1.remove_from_ptr(verif_ptr(record))@
//@head
    fn lru_release(this: &mut LruT, record: &QRec)
        requires old(this).wf(), record.in_ev ==> old(this).resident(record.id@),
        ensures
            final(this).wf(), // @label pool_weight_and_record_flags_stay_exact
            final(this).high_priority_weight_capacity == old(this).high_priority_weight_capacity,
            !record.in_ev || !old(this).st@(record.id@).is_pinned ==> final(this).high() == old(this).high() && final(this).low() == old(this).low() && final(this).pin() == old(this).pin() && final(this).st@ == old(this).st@,
            ({
                let x = record.id@; let st0 = old(this).st@(x);
                record.in_ev && st0.is_pinned ==> !final(this).st@(x).is_pinned
                    && (exists|i: int| 0 <= i < old(this).pin().len() && old(this).pin()[i] == x && final(this).pin() == #[trigger] old(this).pin().remove(i))
                    && (!st0.in_high_priority_pool ==> final(this).high() == old(this).high() && final(this).low() == old(this).low().push(x)) // @label a_released_low_priority_record_is_the_newest_of_the_low_priority_list
                    && (st0.in_high_priority_pool ==> final(this).high_priority_weight <= final(this).high_priority_weight_capacity
                        && exists|k: int| #[trigger] moved_oldest(old(this).high().push(x), k, final(this).high(), old(this).high_priority_weight_capacity)
                            && final(this).low() == old(this).low() + old(this).high().push(x).subrange(0, k))
            }), // @label a_released_record_is_the_newest_of_its_pool_and_the_pool_sheds_its_oldest
//@prologue
        let ghost h0 = this.high();
        let ghost l0 = this.low();
        let ghost p0 = this.pin();
        let ghost x = record.id@;
        let ghost mut p1: Seq<int> = Seq::empty();
//@after /this\.pin_list\.remove_from_ptr\(verif_ptr\(record\)\);/
            proof {
                let i = choose|i: int| 0 <= i < p0.len() && p0[i] == x && this.pin() == #[trigger] p0.remove(i);
                lemma_nodup_remove(p0, i); lemma_isum_remove(p0, i);
                assert(!h0.contains(x) && !l0.contains(x));
                p1 = this.pin();
                assert(!p1.contains(x));
            }
//@after /this\.high_priority_list\.push_back\(record\.clone\(\)\);/
                proof {
                    lemma_nodup_push(h0, x); lemma_isum_push(h0, x);
                    assert forall|id: int| #[trigger] this.high().contains(id) implies this.st@(id).in_high_priority_pool by { if id != x { assert(h0.contains(id)); } }
                    assert(this.wf_lists());
                    assert(this.wf_pins_but(Some(x))) by {
                        assert forall|id: int| #[trigger] this.high().contains(id) implies Some(id) == Some(x) || !this.st@(id).is_pinned by { if id != x { assert(h0.contains(id)); } }
                        assert forall|id: int| #[trigger] this.pin().contains(id) implies this.st@(id).is_pinned by { assert(p0.contains(id)); }
                    }
                }
//@after /this\.may_overflow_high_priority_pool\(\);/
                proof { assert(this.wf_pins_but(Some(x))); }
//@after /this\.list\.push_back\(record\.clone\(\)\);/
                proof {
                    lemma_nodup_push(l0, x); lemma_isum_push(l0, x);
                    assert forall|id: int| #[trigger] this.low().contains(id) implies !this.st@(id).in_high_priority_pool by { if id != x { assert(l0.contains(id)); } }
                    assert(this.wf_pins_but(Some(x))) by {
                        assert forall|id: int| #[trigger] this.low().contains(id) implies Some(id) == Some(x) || !this.st@(id).is_pinned by { if id != x { assert(l0.contains(id)); } }
                        assert forall|id: int| #[trigger] this.pin().contains(id) implies this.st@(id).is_pinned by { assert(p0.contains(id)); }
                    }
                }
//@before /this\.verif_set_pinned\(record, false\);/
            let ghost pre = *this;
            proof { assert(pre.wf_pins_but(Some(x))); assert(pre.pin() == p1); }
//@tail
        proof {
            assert(this.pin() == p1);
            assert forall|id: int| #[trigger] this.pin().contains(id) implies this.st@(id).is_pinned by {
                assert(p1.contains(id)); assert(id != x); assert(pre.pin().contains(id)); assert(pre.st@(id).is_pinned); assert(this.st@(id) == pre.st@(id));
            }
        }
//@end

// ---- Lru::update (after the configuration checks): the new share takes effect at once -- the pool sheds its oldest records
// until it is within the NEW share
    pub uninterp spec fn spec_share(capacity: usize) -> usize;
    /// `(capacity as f64 * self.config.high_priority_pool_ratio) as usize` (floating point: outside Verus)
    #[verifier::external_body] pub fn verif_share(&self, capacity: usize) -> (r: usize) ensures r == Self::spec_share(capacity) { unimplemented!() }
//@region foyer-memory/src/eviction/lru.rs :: impl~^impl<K, V, P> Eviction for Lru<K, V, P>/fn update name=lru_update_share start=/let high_priority_weight_capacity = / stmts=99 sub=@\(capacity as f64 \* self\.config\.high_priority_pool_ratio\) as usize@self.verif_share(capacity)@
//@head
    fn lru_update_share(&mut self, capacity: usize) -> (r: Result<(), u8>)
        requires old(self).wf(),
        ensures
            r is Ok,
            final(self).wf(), // @label pool_weight_and_record_flags_stay_exact
            final(self).pin() == old(self).pin(),
            final(self).high_priority_weight_capacity == Self::spec_share(capacity), // @label a_resize_sets_the_share_of_the_high_priority_pool
            final(self).high_priority_weight <= final(self).high_priority_weight_capacity, // @label high_priority_pool_is_within_its_new_share_after_a_resize
            exists|k: int| #[trigger] moved_oldest(old(self).high(), k, final(self).high(), Self::spec_share(capacity))
                && final(self).low() == old(self).low() + old(self).high().subrange(0, k), // @label pool_overflow_moves_its_oldest_records_to_the_low_priority_list_in_order_and_no_more_than_needed
//@end
}

} // verus!

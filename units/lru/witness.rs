    // Executable restatement of the LRU contracts on the real Lru (replay only): random sequences of push (weights 1..4,
    // normal / low hint), pop, remove, acquire, release and resize. After every operation: the pool counter equals the summed
    // weight of the high-priority list; records of the high-priority list carry the pool flag and no pin flag, records of the
    // low-priority list neither, records of the pin list the pin flag; the pool is within its share after push / release /
    // update; pop returns the front of the low-priority list, else the front of the pool, never a held record.
    use crate::{eviction::test_utils::{Dump, OpExt, TestProperties}, record::Data};

    struct Lcg(u64);
    impl Lcg { fn next(&mut self, n: u64) -> u64 { self.0 = self.0.wrapping_mul(6364136223846793005).wrapping_add(1442695040888963407); (self.0 >> 33) % n } }

    type WLru = Lru<u64, u64, TestProperties>;

    fn check(lru: &WLru, last: &str) -> Option<(&'static str, String)> {
        let d = lru.dump(); // [low, high, pin]
        let hw: usize = d[1].iter().map(|r| r.weight()).sum();
        if hw != lru.high_priority_weight {
            return Some(("pool_weight_and_record_flags_stay_exact", format!("pool counter {} but the high-priority list weighs {}", lru.high_priority_weight, hw)));
        }
        for (qi, q) in d.iter().enumerate() {
            for r in q.iter() {
                let st = unsafe { &*r.state().get() };
                let ok = match qi { 0 => !st.in_high_priority_pool && !st.is_pinned, 1 => st.in_high_priority_pool && !st.is_pinned, _ => st.is_pinned };
                if !ok { return Some(("pool_weight_and_record_flags_stay_exact", format!("record {} in list {} has flags pool={} pinned={}", r.key(), ["low", "high", "pin"][qi], st.in_high_priority_pool, st.is_pinned))); }
            }
        }
        if matches!(last, "push" | "release" | "update") && lru.high_priority_weight > lru.high_priority_weight_capacity {
            let label = if last == "update" { "high_priority_pool_is_within_its_new_share_after_a_resize" } else { "high_priority_pool_is_within_its_share" };
            return Some((label, format!("pool weighs {} > share {}", lru.high_priority_weight, lru.high_priority_weight_capacity)));
        }
        None
    }

    #[test]
    fn verif_witness_lru() {
        let mut found: Vec<String> = vec![];
        let seed = std::env::var("VERIF_SEED").ok().and_then(|s| s.parse::<u64>().ok()).unwrap_or(0);
        let mut rng = Lcg(0x9e3779b97f4a7c15 ^ seed);
        'rounds: for _round in 0..3000 {
            if found.len() >= 3 { break; }
            let config = LruConfig { high_priority_pool_ratio: 0.5 };
            let mut lru = WLru::new(12, &config);
            let rs: Vec<Arc<Record<WLru>>> = (0..8u64).map(|i| Arc::new(Record::new(Data { key: i, value: i,
                properties: TestProperties::default().with_hint(if rng.next(3) == 0 { Hint::Low } else { Hint::Normal }), hash: i, weight: 1 + rng.next(4) as usize }))).collect();
            let mut trace: Vec<String> = vec![];
            for _step in 0..20 {
                let i = rng.next(8) as usize;
                let r = &rs[i];
                let inside = r.is_in_eviction();
                let before = lru.dump();
                let mut popped: Option<Option<u64>> = None;
                let res = std::panic::catch_unwind(std::panic::AssertUnwindSafe(|| match rng.next(10) {
                    0..=2 if !inside && !unsafe { &*r.state().get() }.is_pinned => { trace.push(format!("push({i}, weight {}, {:?})", r.weight(), r.properties().hint().unwrap_or_default())); lru.push(r.clone()); "push" }
                    3..=4 => { trace.push(format!("acquire({i})")); lru.acquire_mutable(r); "acquire" }
                    5..=6 => { trace.push(format!("release({i})")); lru.release_mutable(r); "release" }
                    7 if inside => { trace.push(format!("remove({i})")); lru.remove(r); "remove" }
                    8 => { let v = lru.pop().map(|v| *v.key()); trace.push(format!("pop() -> {:?}", v)); popped = Some(v); "pop" }
                    9 => { let c = 4 + rng.next(12) as usize; trace.push(format!("update(capacity {c})")); lru.update(c, None).unwrap(); "update" }
                    _ => "",
                }));
                let bad = match res {
                    Err(_) => Some(("pool_weight_and_record_flags_stay_exact", "panicked (counter underflow / empty list)".to_string())),
                    Ok(last) => {
                        let mut b = check(&lru, last);
                        if b.is_none() && let Some(v) = popped {
                            let want = before[0].first().or(before[1].first()).map(|r| *r.key());
                            if v != want {
                                let label = if before[0].is_empty() && before[1].is_empty() { "a_held_record_is_never_the_victim" } else if before[0].is_empty() { "then_the_oldest_record_of_the_high_priority_pool" } else { "the_oldest_low_priority_record_is_evicted_first" };
                                b = Some((label, format!("pop returned {:?}, the documented victim is {:?} (low {:?}, high {:?}, held {:?})", v, want,
                                    before[0].iter().map(|r| *r.key()).collect::<Vec<_>>(), before[1].iter().map(|r| *r.key()).collect::<Vec<_>>(), before[2].iter().map(|r| *r.key()).collect::<Vec<_>>())));
                            }
                        }
                        b
                    }
                };
                if let Some((label, what)) = bad {
                    found.push(format!("WITNESS {label} :: lru capacity=12 high_priority_pool_ratio=0.5: {} => {}", trace.join("; "), what));
                    std::mem::forget(lru);
                    continue 'rounds;
                }
            }
            lru.clear_for_witness();
        }
        for f in found.iter().take(3) { println!("{f}"); }
        println!("WITNESS-SEARCH-DONE found={}", found.len());
    }

    impl WLru {
        fn clear_for_witness(mut self) {
            while self.list.pop_front().is_some() {}
            while self.high_priority_list.pop_front().is_some() {}
            while self.pin_list.pop_front().is_some() {}
        }
    }

    // LRU pinning on the REAL Lru (intrusive lists executed by CBMC): a record that was looked up (acquire) is not a
    // victim until it is released, then it is evictable again. Two records, default hints => bounded (2 records).
    use crate::{cache::CacheProperties, record::Data};
    type VL = Lru<u8, u8, CacheProperties>;
    fn vrec(k: u8) -> Arc<Record<VL>> {
        Arc::new(Record::new(Data::<VL> { key: k, value: k, properties: CacheProperties::default(), hash: k as u64, weight: 1 }))
    }

    #[kani::proof]
    #[kani::unwind(4)]
    fn held_record_is_not_a_victim_until_released() {
        let ratio_high: bool = kani::any();
        let mut lru = VL::new(10, &LruConfig { high_priority_pool_ratio: if ratio_high { 0.5 } else { 0.0 } });
        let r1 = vrec(1);
        let r2 = vrec(2);
        lru.push(r1.clone());
        lru.push(r2.clone());
        assert!(r1.is_in_eviction() && r2.is_in_eviction(), "[pushed_records_are_flagged_in_eviction]");
        match VL::acquire() { Op::Mutable(mut f) => f(&mut lru, &r1), _ => assert!(false, "[lru_acquire_is_mutable]") }
        let v = lru.pop();
        assert!(v.is_some() && Arc::ptr_eq(v.as_ref().unwrap(), &r2), "[pop_skips_the_held_record]");
        assert!(!r2.is_in_eviction(), "[popped_record_flag_cleared]");
        let v2 = lru.pop();
        assert!(v2.is_none(), "[held_record_is_not_a_victim]");
        match VL::release() { Op::Mutable(mut f) => f(&mut lru, &r1), _ => assert!(false, "[lru_release_is_mutable]") }
        let v3 = lru.pop();
        assert!(v3.is_some() && Arc::ptr_eq(v3.as_ref().unwrap(), &r1), "[released_record_is_evictable_again]");
        std::mem::forget((lru, r1, r2, v, v2, v3));
    }

    #[kani::proof]
    #[kani::unwind(4)]
    fn canary_lru_reaches_assertions() {
        let mut lru = VL::new(10, &LruConfig { high_priority_pool_ratio: 0.0 });
        let r1 = vrec(1);
        lru.push(r1.clone());
        let v = lru.pop();
        assert!(v.is_none(), "[canary]");
        std::mem::forget((lru, r1, v));
    }

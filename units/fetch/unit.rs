// UNIT fetch — RawFetch::poll arms: a fetch whose in-flight entry was taken by an explicit insert (close flag set)
// returns without touching the cache (C11); error path takes the waiters by leader id (C06)
#![allow(unused_imports, unused_variables, dead_code, unused_mut)]
use vstd::prelude::*;
verus! {

global size_of usize == 8;

//@item foyer-common/src/properties.rs :: enum Source rules=derive-structural
// the state-machine helper macro is extracted verbatim
//@item foyer-memory/src/raw.rs :: macro_rules handle_try

#[derive(Clone, Copy)]
pub enum Ordering { Relaxed, Acquire, Release, SeqCst }
pub enum Poll<T> { Ready(T), Pending }
#[derive(Debug)]
pub struct Error { pub e: u8 }
pub type Result<T> = core::result::Result<T, Error>;
pub struct FlagT { pub v: bool }
impl FlagT { #[verifier::external_body] pub fn load(&self, o: Ordering) -> (r: bool) ensures r == self.v { unimplemented!() } }
pub struct Cx { pub c: u8 }
pub struct TargetT { pub t: u64 }
pub struct KeyOnce { pub k: Option<u64> }
impl KeyOnce { #[verifier::external_body] pub fn as_ref(&self) -> (r: Option<&u64>) ensures r.is_some() == self.k.is_some() { unimplemented!() } }
pub struct BuilderT { pub b: u8 }
pub struct CtxT { pub c: u8 }
pub struct InflightsT { pub takes: Ghost<Seq<(u64, Option<usize>)>>, pub failed: Ghost<nat>, pub fallbacks: Ghost<nat> }
pub struct NotifierT { }
impl NotifierT {
    /// a waiter of a cancelled fetch is answered with an error (never with a value, never left unanswered by this loop)
    #[verifier::external_body]
    pub fn send(self, r: Result<Option<u64>>) -> core::result::Result<(), ()>
        requires r is Err, // @label waiters_of_a_dropped_fetch_task_get_the_cancellation_error
    { unimplemented!() }
}
#[derive(Clone, Copy)]
pub enum ErrorKind { TaskCancelled, External, Other }
impl Error {
    #[verifier::external_body] pub fn new(kind: ErrorKind, msg: &str) -> Error { unimplemented!() }
    #[verifier::external_body] pub fn with_context(self, k: &str, v: u64) -> Error { unimplemented!() }
}
impl InflightsT {
    /// `inflights.lock().take(hash, key, id)`: logged; the answer (the waiters, if the registration is still this task's) is arbitrary
    #[verifier::external_body]
    pub fn take(&mut self, hash: u64, key: &u64, id: Option<usize>) -> (r: Option<Vec<NotifierT>>)
        ensures final(self).takes@ == old(self).takes@.push((hash, id)), final(self).failed == old(self).failed, final(self).fallbacks == old(self).fallbacks,
    { unimplemented!() }
}
/// the cache as an effect log: what the fetch task inserts
pub struct CacheLogT { pub inserts: Ghost<Seq<(u64, Source)>> }
pub enum RawFetchState { Init, FetchOptional, FetchRequired, Notify, Ready }
pub enum Try { Noop, SetStateAndContinue(RawFetchState), Ready }
/// the (pin-projected) fetch task
pub struct ThisT { pub state: RawFetchState, pub id: usize, pub hash: u64, pub key: KeyOnce, pub ctx: CtxT, pub cache: CacheLogT, pub inflights: InflightsT, pub close: FlagT }
pub struct OptFutT { pub f: u8 }
impl OptFutT { #[verifier::external_body] pub fn poll_unpin(&mut self, cx: &mut Cx) -> Poll<Result<Option<TargetT>>> { unimplemented!() } }
/// the origin fetch future; `answer` is what polling it yields (ghost: lets the contract speak about failed / pending fetches)
pub struct ReqFutT { pub answer: Ghost<Poll<Result<TargetT>>> }
impl ReqFutT {
    #[verifier::external_body]
    pub fn poll_unpin(&mut self, cx: &mut Cx) -> (r: Poll<Result<TargetT>>)
        ensures r == old(self).answer@, final(self).answer == old(self).answer,
    { unimplemented!() }
}

pub struct RawFetch { }
impl RawFetch {
    /// handle_target inserts the fetched entry into the cache (the only way a fetch result reaches the cache)
    #[verifier::external_body]
    fn handle_target(target: TargetT, key: &mut KeyOnce, cache: &mut CacheLogT, source: Source) -> (r: Try)
        ensures final(cache).inserts@ == old(cache).inserts@.push((target.t, source)), r is Ready, // both arms of the real function end in Try::Ready
    { unimplemented!() }
    #[verifier::external_body]
    fn try_set_required(required_fetch_builder: &mut Option<BuilderT>, ctx: &mut CtxT, id: usize, hash: u64, key: &u64, inflights: &mut InflightsT,
                        res_no_fetch: Result<Option<u64>>) -> (r: Try)
        ensures final(inflights).takes@.len() >= old(inflights).takes@.len(),
            // the fallback to the required (origin) fetch was taken once; nobody was failed
            final(inflights).fallbacks@ == old(inflights).fallbacks@ + 1, final(inflights).failed == old(inflights).failed,
    { unimplemented!() }
    /// error path: waiters are taken with the leader's own id (never None: that would steal a newer registration)
    #[verifier::external_body]
    fn handle_error(e: Error, id: usize, hash: u64, key: &u64, inflights: &mut InflightsT) -> (r: Try)
        ensures final(inflights).takes@ == old(inflights).takes@.push((hash, Some(id))),
            // the waiters were failed with the error
            final(inflights).failed@ == old(inflights).failed@ + 1, final(inflights).fallbacks == old(inflights).fallbacks,
    { unimplemented!() }

//@region foyer-memory/src/raw.rs :: impl~Future for RawFetch<E, S, I, C>/fn poll name=poll_fetch_optional start=/(?m)^\s*RawFetchState::FetchOptional \{[^}]*\} =>/ arm=1 sub=@\*this\.state@this.state@ sub=@this\.key\.as_ref\(\)@this.key.as_ref()@ sub=@handle_target\(target, this\.key, this\.cache,@handle_target(target, &mut this.key, &mut this.cache,@ sub=@required_fetch_builder, this\.ctx, \*this\.id, \*this\.hash, this\.key\.as_ref\(\)\.unwrap\(\), &this\.inflights,@required_fetch_builder, &mut this.ctx, this.id, this.hash, this.key.as_ref().unwrap(), &mut this.inflights,@ subopt=@handle_error\(e, \*this\.id, \*this\.hash, this\.key\.as_ref\(\)\.unwrap\(\), this\.inflights\)@handle_error(e, this.id, this.hash, this.key.as_ref().unwrap(), &mut this.inflights)@
//@head
    #[verifier::exec_allows_no_decreases_clause]
    fn poll_fetch_optional(this: &mut ThisT, optional_fetch: &mut OptFutT, required_fetch_builder: &mut Option<BuilderT>, cx: &mut Cx) -> (r: Poll<()>)
        requires old(this).key.k.is_some(),
        ensures
            // C11: once the in-flight entry was taken by an explicit insert, the late (disk) fetch result is abandoned
            old(this).close.v ==> final(this).cache.inserts@ == old(this).cache.inserts@ && (r is Ready), // @label closed_fetch_abandons_its_result
            // C06: the optional (disk) lookup never fails the waiters by itself: whatever it answers that is not an entry -- an
            // error included -- goes to the fallback, which runs the origin fetch when the leader or a joined caller has one
            final(this).inflights.failed == old(this).inflights.failed, // @label a_failed_lookup_falls_back_to_the_origin_fetch_instead_of_failing_the_waiters
//@prologue
        loop
            invariant_except_break this.close.v == old(this).close.v, this.key.k.is_some(), this.inflights.failed == old(this).inflights.failed,
                old(this).close.v ==> this.cache.inserts@ == old(this).cache.inserts@,
            ensures !old(this).close.v, this.inflights.failed == old(this).inflights.failed,
        {
//@tail
            break;
        }
        Poll::Pending
//@end

//@region foyer-memory/src/raw.rs :: impl~Future for RawFetch<E, S, I, C>/fn poll name=poll_fetch_required start=/(?m)^\s*RawFetchState::FetchRequired \{[^}]*\} =>/ arm=1 sub=@\*this\.state@this.state@ sub=@handle_target\(target, this\.key, this\.cache,@handle_target(target, &mut this.key, &mut this.cache,@ sub=@handle_error\(e, \*this\.id, \*this\.hash, this\.key\.as_ref\(\)\.unwrap\(\), this\.inflights\)@handle_error(e, this.id, this.hash, this.key.as_ref().unwrap(), &mut this.inflights)@
//@head
    #[verifier::exec_allows_no_decreases_clause]
    fn poll_fetch_required(this: &mut ThisT, required_fetch: &mut ReqFutT, cx: &mut Cx) -> (r: Poll<()>)
        requires old(this).key.k.is_some(),
        ensures
            old(this).close.v ==> final(this).cache.inserts@ == old(this).cache.inserts@ && (r is Ready), // @label closed_fetch_abandons_its_result
            // a fetch result that does arrive while not closed is inserted with source Outer (origin fetch)
            forall|i: int| old(this).cache.inserts@.len() <= i < final(this).cache.inserts@.len() ==> (#[trigger] final(this).cache.inserts@[i]).1 == Source::Outer, // @label origin_fetch_inserted_as_outer
            // the error path takes waiters by the leader's own id
            forall|i: int| old(this).inflights.takes@.len() <= i < final(this).inflights.takes@.len() ==> (#[trigger] final(this).inflights.takes@[i]) == (old(this).hash, Some(old(this).id)), // @label error_path_takes_waiters_by_leader_id
            // C06: a failed fetch caches nothing (the next call fetches again); a pending one changes nothing
            old(required_fetch).answer@ matches Poll::Ready(Err(_)) ==> final(this).cache.inserts@ == old(this).cache.inserts@, // @label failed_fetch_caches_nothing
            old(required_fetch).answer@ is Pending ==> final(this).cache.inserts@ == old(this).cache.inserts@ && final(this).inflights.takes@ == old(this).inflights.takes@, // @label pending_fetch_changes_nothing
            !old(this).close.v && old(required_fetch).answer@ is Pending ==> r is Pending, // @label pending_fetch_keeps_the_task_pending
            !old(this).close.v ==> (old(required_fetch).answer@ matches Poll::Ready(Ok(t)) ==> final(this).cache.inserts@ == old(this).cache.inserts@.push((t.t, Source::Outer)) && (r is Ready)), // @label fetched_value_is_inserted_once_as_an_origin_fetch
//@prologue
        loop
            invariant_except_break this.close.v == old(this).close.v, this.key.k.is_some(), this.id == old(this).id, this.hash == old(this).hash,
                old(this).close.v ==> this.cache.inserts@ == old(this).cache.inserts@,
                forall|i: int| old(this).cache.inserts@.len() <= i < this.cache.inserts@.len() ==> (#[trigger] this.cache.inserts@[i]).1 == Source::Outer,
                this.cache.inserts@.len() >= old(this).cache.inserts@.len(), this.inflights.takes@.len() >= old(this).inflights.takes@.len(),
                forall|i: int| old(this).inflights.takes@.len() <= i < this.inflights.takes@.len() ==> (#[trigger] this.inflights.takes@[i]) == (old(this).hash, Some(old(this).id)),
                required_fetch.answer == old(required_fetch).answer,
                this.cache.inserts@ == old(this).cache.inserts@, // an insert (handle_target) always ends the task
                old(required_fetch).answer@ is Pending ==> this.inflights.takes@ == old(this).inflights.takes@,
            ensures !old(this).close.v,
                this.cache.inserts@ == old(this).cache.inserts@, old(required_fetch).answer@ is Pending ==> this.inflights.takes@ == old(this).inflights.takes@,
                !(old(required_fetch).answer@ matches Poll::Ready(Ok(_))), // a fetched value always ends the task (handle_target => Try::Ready)
                forall|i: int| old(this).cache.inserts@.len() <= i < this.cache.inserts@.len() ==> (#[trigger] this.cache.inserts@[i]).1 == Source::Outer,
                forall|i: int| old(this).inflights.takes@.len() <= i < this.inflights.takes@.len() ==> (#[trigger] this.inflights.takes@[i]) == (old(this).hash, Some(old(this).id)),
        {
//@tail
            break;
        }
        Poll::Pending
//@end
}


// ---- PinnedDrop for RawFetch (C06): a fetch task dropped before it finished -- in ANY unfinished state, also before its
// first poll -- takes its in-flight registration by its own leader id and answers every waiter with the cancellation
// error; a finished task (Notify / Ready) takes nothing
//@region foyer-memory/src/raw.rs :: impl~PinnedDrop for RawFetch/fn drop name=fetch_task_drop start=/match this\.state \{/ stmts=99 sub=@\*this\.hash@this.hash@ sub=@\*this\.id@this.id@ sub=@(?s)this\s*\.inflights\s*\.lock\(\)\s*\.take\(@this.inflights.take(@
//@head
fn fetch_task_drop(this: &mut ThisT)
    requires old(this).key.k.is_some(),
    ensures
        (old(this).state is Notify || old(this).state is Ready) ==> final(this).inflights.takes@ == old(this).inflights.takes@, // @label finished_task_takes_nothing_on_drop
        !(old(this).state is Notify || old(this).state is Ready) ==>
            final(this).inflights.takes@ == old(this).inflights.takes@.push((old(this).hash, Some(old(this).id))), // @label unfinished_fetch_task_takes_its_waiters_by_leader_id_on_drop
        final(this).cache.inserts@ == old(this).cache.inserts@, // @label dropped_task_caches_nothing
//@loop 1 iter=it
                invariant this.inflights.takes@ == old(this).inflights.takes@.push((old(this).hash, Some(old(this).id))), this.cache.inserts@ == old(this).cache.inserts@,
//@end

} // verus!

    // the harness itself (verif_witness_recover) is inserted into this file's `tests` module (it uses that module's private
    // helpers); see units/recover/witness_test.rs

    /// Executable restatement of the RECOVERY contracts on the real block engine (replay only): entries of mixed sizes in
    /// multi-blob blocks, some keys written twice (newer version later), some deleted; close, reopen on the same files
    /// (strict recovery): every key that was not deleted loads its LATEST value, every deleted key misses.
    /// Prints `WITNESS <label> :: <input>`.
    #[tokio::test]
    async fn verif_witness_recover() {
        const MB: usize = 1024 * 1024;
        let mut found: Vec<String> = vec![];
        let label = std::env::var("VERIF_WITNESS_LABEL").unwrap_or("winning_entry_is_indexed_under_its_own_hash_and_address".to_string());
        for (entries, tombstones) in [(40u64, false), (260u64, true), (400u64, true)] {
            let dir = tempfile::tempdir().unwrap();
            let memory = cache_for_test();
            let open = |dir: std::path::PathBuf| async move {
                let spawner = Spawner::current();
                let io_engine = io_engine_for_test(spawner.clone()).await;
                let device = FsDeviceBuilder::new(&dir).with_capacity(8 * MB + 64 * KB).build().unwrap();
                BlockEngineConfig::<u64, Vec<u8>, TestProperties>::new(device)
                    .with_block_size(MB)
                    .with_blob_index_size(4 * KB)
                    .with_indexer_shards(4)
                    .with_tombstone_log(tombstones)
                    .boxed()
                    .build(EngineBuildContext { io_engine, metrics: Arc::new(Metrics::noop()), spawner, recover_mode: RecoverMode::Strict })
                    .await
                    .unwrap()
            };
            let size = |i: u64| 100 + ((i * 37) % 5000) as usize;
            let store = open(dir.path().to_path_buf()).await;
            // first versions, one batch
            store.hold_flush();
            let es = (0..entries).map(|i| memory.insert(i, vec![i as u8; size(i)])).collect_vec();
            for e in es.iter() { enqueue(&store, e.clone()); }
            store.unhold_flush();
            store.wait().await;
            // newer versions of every third key, deletes of every seventh (only with the tombstone log)
            let es2 = (0..entries).filter(|i| i % 3 == 0).map(|i| memory.insert(i, vec![!(i as u8); size(i) + 13])).collect_vec();
            for e in es2.iter() { enqueue(&store, e.clone()); }
            store.wait().await;
            if tombstones {
                for i in (0..entries).filter(|i| i % 7 == 0) { store.delete(memory.hash(&i)); }
                store.wait().await;
            }
            store.close().await.unwrap();
            drop(store);
            let store = open(dir.path().to_path_buf()).await;
            for i in 0..entries {
                let deleted = tombstones && i % 7 == 0;
                let want = if i % 3 == 0 { vec![!(i as u8); size(i) + 13] } else { vec![i as u8; size(i)] };
                let got = store.load(memory.hash(&i)).await;
                let bad = match got {
                    Ok(l) => match l.kv() {
                        Some((k, v)) => if deleted { Some("is readable again although it was deleted".to_string()) } else if k != i || v != want { Some(format!("loads key {k} with a value of {} bytes starting {:?}", v.len(), v.first())) } else { None },
                        None => if deleted { None } else { Some("is a miss".to_string()) },
                    },
                    Err(e) => Some(format!("fails: {e}")),
                };
                if let Some(b) = bad {
                    found.push(format!("WITNESS {label} :: 1 MiB blocks, 4 KiB blob index, tombstone log {tombstones}: {entries} entries of 100..5100 bytes in one batch, every 3rd key written again, every 7th deleted, close, reopen: key {i} {b}"));
                    break;
                }
            }
        }
        // a key deleted, written again and deleted again AFTER the one-page tombstone log wrapped: the newest tombstone of the
        // key sits at a lower slot than its stale first one; after a reopen the key must stay deleted
        {
            let dir = tempfile::tempdir().unwrap();
            let memory = cache_for_test();
            let store = store_for_test_with_tombstone_log(dir.path()).await;
            for i in 1000..1100u64 { store.delete(memory.hash(&i)); }
            store.wait().await;
            enqueue(&store, memory.insert(7, vec![7; 3 * KB]));
            store.wait().await;
            store.delete(memory.hash(&7));
            store.wait().await;
            enqueue(&store, memory.insert(7, vec![!7; 3 * KB]));
            store.wait().await;
            for i in 2000..2160u64 { store.delete(memory.hash(&i)); }
            store.wait().await;
            store.delete(memory.hash(&7));
            store.wait().await;
            store.close().await.unwrap();
            drop(store);
            let store = store_for_test_with_tombstone_log(dir.path()).await;
            let back = store.load(memory.hash(&7)).await.map(|l| l.kv().is_some()).unwrap_or(false);
            if back {
                found.push(format!("WITNESS hash_whose_newest_version_is_a_tombstone_is_not_indexed :: one-page tombstone log: 100 deletes; insert(7); delete(7); insert(7); 160 deletes (the log wraps); delete(7); close; reopen: key 7 is readable again although its newest delete was flushed"));
            }
            store.close().await.unwrap();
        }
        for f in found.iter().take(3) { println!("{f}"); }
        println!("WITNESS-SEARCH-DONE found={}", found.len());
    }


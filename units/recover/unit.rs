// UNIT recover — recovery de-dup keeps the highest sequence per hash, per-block list is sequence-monotone, the sequence
// counter restarts above everything recovered (C01 e, C10 tombstone suppression, parts of C04)
#![allow(unused_imports, unused_variables, dead_code, unused_mut)]
use vstd::prelude::*;
use std::collections::{HashMap, hash_map::Entry};
verus! {

global size_of usize == 8;

//@item foyer-storage/src/engine/block/serde.rs :: type Sequence
//@item foyer-storage/src/engine/block/manager.rs :: type BlockId
//@item foyer-storage/src/engine/block/indexer.rs :: struct EntryAddress rules=derive-clone-copy
//@item foyer-storage/src/engine/block/scanner.rs :: struct EntryInfo rules=derive-clone-copy
// local enum of RecoverRunner::run
//@item foyer-storage/src/engine/block/recover.rs :: impl~^impl RecoverRunner$/fn run/enum EntryAddressOrTombstone rules=derive-clone-copy

pub type Indices = HashMap<u64, (Sequence, EntryAddressOrTombstone)>;

// ---- the de-dup closure `insert_or_update` of RecoverRunner::run
//@region foyer-storage/src/engine/block/recover.rs :: impl~^impl RecoverRunner$/fn run name=insert_or_update start=/let mut insert_or_update =/ stmts=1 sub=@let mut insert_or_update =\s*\|hash: u64, sequence: Sequence, addr: EntryAddressOrTombstone\| match@match@ sub=@\};\s*$@}@
//@head
fn insert_or_update(indices: &mut Indices, hash: u64, sequence: Sequence, addr: EntryAddressOrTombstone)
    ensures
        final(indices)@.dom() == old(indices)@.dom().insert(hash), // @label only_that_hash_is_added
        forall|h: u64| h != hash && old(indices)@.contains_key(h) ==> final(indices)@[h] == old(indices)@[h], // @label other_hashes_untouched
        !old(indices)@.contains_key(hash) ==> final(indices)@[hash] == (sequence, addr), // @label first_version_is_recorded
        // the version with the highest sequence wins; a tie goes to the later call (a reinserted copy carries
        // the original sequence); a lower sequence never replaces a higher one -- whether it is an entry or a tombstone
        old(indices)@.contains_key(hash) && sequence >= old(indices)@[hash].0 ==> final(indices)@[hash] == (sequence, addr), // @label higher_or_equal_sequence_wins
        old(indices)@.contains_key(hash) && sequence < old(indices)@[hash].0 ==> final(indices)@[hash] == old(indices)@[hash], // @label lower_sequence_never_replaces
//@end

// ---- the counter restarts above everything recovered
pub struct AtomicSequence { pub v: u64 }
#[derive(Clone, Copy)]
pub enum Ordering { Relaxed, Acquire, Release, SeqCst }
impl AtomicSequence {
    #[verifier::external_body]
    pub fn store(&mut self, v: u64, o: Ordering) ensures final(self).v == v { }
}
//@region foyer-storage/src/engine/block/recover.rs :: impl~^impl RecoverRunner$/fn run name=restore_sequence start=/sequence\.store\(/ stmts=1
//@head
fn restore_sequence(sequence: &mut AtomicSequence, latest_sequence: Sequence)
    requires latest_sequence < u64::MAX,
    ensures final(sequence).v == latest_sequence + 1, // @label counter_restarts_above_every_recovered_sequence
//@end

#[verifier::external_body]
pub fn verif_max(a: Sequence, b: Sequence) -> (r: Sequence) ensures r == (if a >= b { a } else { b }) { unimplemented!() }
/// the de-dup closure as seen from its two call sites: it must be given the version's own sequence
#[verifier::external_body]
fn verif_insert_or_update(hash: u64, sequence: Sequence, a: EntryAddressOrTombstone)
    requires a matches EntryAddressOrTombstone::EntryAddress(x) ==> sequence == x.sequence, // @label entry_deduplicated_under_its_own_sequence
{ }
#[verifier::external_body]
fn verif_insert_or_update_t(hash: u64, sequence: Sequence, a: EntryAddressOrTombstone)
    requires a is Tombstone, // @label tombstone_deduplicated_as_tombstone
{ }
//@region foyer-storage/src/engine/block/recover.rs :: impl~^impl RecoverRunner$/fn run name=track_latest_entry start=/for EntryInfo \{ hash, addr \} in infos \{/ stmts=1 sub=@for EntryInfo \{ hash, addr \} in infos \{@{@ sub=@latest_sequence\.max\((.*?)\);@verif_max(latest_sequence, \1);@ sub=@insert_or_update\((.*)\);@verif_insert_or_update(\1);@
//@head
fn track_latest_entry(mut latest_sequence: Sequence, hash: u64, addr: EntryAddress) -> (r: Sequence)
    ensures r >= latest_sequence && r >= addr.sequence && (r == latest_sequence || r == addr.sequence), // @label latest_sequence_covers_every_recovered_entry
//@tail
    latest_sequence
//@end
//@region foyer-storage/src/engine/block/recover.rs :: impl~^impl RecoverRunner$/fn run name=track_latest_tombstone start=/tombstones\.iter\(\)\.for_each\(\|tombstone\| \{/ body=1 sub=@latest_sequence\.max\((.*?)\);@verif_max(latest_sequence, \1);@ sub=@insert_or_update\((.*)\);@verif_insert_or_update_t(\1);@
//@head
fn track_latest_tombstone(mut latest_sequence: Sequence, tombstone: &TombT) -> (r: Sequence)
    ensures r >= latest_sequence && r >= tombstone.sequence && (r == latest_sequence || r == tombstone.sequence), // @label latest_sequence_covers_every_tombstone
//@tail
    latest_sequence
//@end
pub struct TombT { pub hash: u64, pub sequence: u64 }

// ---- what reaches the disk index after de-dup: a hash whose winning version is a tombstone is NOT indexed (C10: a
// flushed delete hides the older entry after reopen); a winning entry is indexed under its own hash and address
//@item foyer-storage/src/engine/block/indexer.rs :: struct HashedEntryAddress rules=derive-clone-copy
//@region foyer-storage/src/engine/block/recover.rs :: impl~^impl RecoverRunner$/fn run name=recovered_index_entry start=/\.filter_map\(\|\(hash, \(sequence, addr\)\)\| \{/ body=1 rules=drop-tracing
//@head
fn recovered_index_entry(hash: u64, sequence: Sequence, addr: EntryAddressOrTombstone) -> (r: Option<HashedEntryAddress>)
    ensures
        addr is Tombstone ==> r.is_none(), // @label hash_whose_newest_version_is_a_tombstone_is_not_indexed
        addr matches EntryAddressOrTombstone::EntryAddress(a) ==> r == Some(HashedEntryAddress { hash, address: a }), // @label winning_entry_is_indexed_under_its_own_hash_and_address
//@end

// ---- BlockRecoverRunner::run, one round of its `'recover` loop (from the scanner's answer to the end of the loop body):
// C03: in the default quiet mode a damaged block ends ITS scan, recovery itself does not fail; strict mode reports the
// error. C07 / C01: the entries of a scanned blob are appended while their sequences do not fall below the LAST ENTRY
// RECOVERED SO FAR IN THIS BLOCK (also across blob boundaries: a stale blob of an earlier generation of the block ends
// the recovery of the block), and the recovery stops exactly at the first regression.
//@item foyer-storage/src/engine/mod.rs :: enum RecoverMode rules=derive-structural
#[derive(Debug)] pub struct Error { }
pub type Result<T> = core::result::Result<T, Error>;
pub open spec fn nondecreasing(s: Seq<EntryInfo>) -> bool {
    forall|i: int, j: int| 0 <= i <= j < s.len() ==> s[i].addr.sequence <= s[j].addr.sequence
}
//@region foyer-storage/src/engine/block/recover.rs :: impl~^impl BlockRecoverRunner$/fn run name=recover_round start=/let infos = / stmts=99 rules=drop-tracing,option-map
//@head
#[verifier::exec_allows_no_decreases_clause]
fn recover_round(mode: RecoverMode, r: Result<Option<Vec<EntryInfo>>>, recovered: &mut Vec<EntryInfo>, id: BlockId) -> (out: Result<bool>)
    requires nondecreasing(old(recovered)@),
    ensures
        nondecreasing(final(recovered)@), // @label recovered_list_never_regresses_in_sequence_also_across_blobs
        r is Err && mode == RecoverMode::Strict ==> out is Err && final(recovered)@ == old(recovered)@, // @label strict_mode_reports_the_error
        r is Err && mode != RecoverMode::Strict ==> out == Ok::<bool, Error>(false) && final(recovered)@ == old(recovered)@, // @label quiet_recovery_skips_the_rest_of_a_damaged_block_instead_of_failing
        r is Ok && r.unwrap() is None ==> out == Ok::<bool, Error>(false) && final(recovered)@ == old(recovered)@, // @label end_of_block_ends_the_scan
        r is Ok && r.unwrap() is Some ==> ({
            let infos = r.unwrap().unwrap()@;
            exists|n: int| 0 <= n <= infos.len() && final(recovered)@ == old(recovered)@ + #[trigger] infos.subrange(0, n)
                && (n < infos.len() ==> out == Ok::<bool, Error>(false) && final(recovered)@.len() > 0 && infos[n].addr.sequence < final(recovered)@.last().addr.sequence)
                && (n == infos.len() ==> out == Ok::<bool, Error>(true))
        }), // @label entries_are_taken_as_reported_and_recovery_stops_exactly_at_the_first_regression
//@prologue
    let ghost mut stopped = false;
    let ghost mut got: Seq<EntryInfo> = Seq::empty();
    'recover: loop
        invariant_except_break !stopped, recovered@ == old(recovered)@, nondecreasing(recovered@),
        ensures
            nondecreasing(recovered@),
            (r is Err && mode != RecoverMode::Strict || r is Ok && r.unwrap() is None) ==> recovered@ == old(recovered)@,
            r is Ok && r.unwrap() is Some ==> stopped && exists|n: int| 0 <= n < got.len() && got == r.unwrap().unwrap()@ && recovered@ == old(recovered)@ + #[trigger] got.subrange(0, n)
                && recovered@.len() > 0 && got[n].addr.sequence < recovered@.last().addr.sequence,
            r is Err ==> mode != RecoverMode::Strict,
    {
//@loop 1 iter=it
                invariant
                    !stopped, got == infos@, r is Ok && r.unwrap() is Some && r.unwrap().unwrap()@ == infos@,
                    nondecreasing(recovered@), // @label recovered_list_never_regresses_in_sequence_also_across_blobs
                    recovered@ == old(recovered)@ + infos@.subrange(0, it.index@ as int),
//@before /for info in infos \{/
            proof { got = infos@; assert(infos@.subrange(0, 0) =~= Seq::<EntryInfo>::empty()); assert(recovered@ =~= old(recovered)@ + infos@.subrange(0, 0)); }
//@before /break 'recover;/
                    proof { stopped = true; }
//@after /recovered\.push\(info\);/
                proof { assert(infos@.subrange(0, it.index@ + 1) =~= infos@.subrange(0, it.index@ as int).push(info)); }
//@tail
        proof { assert(recovered@ == old(recovered)@ + got.subrange(0, got.len() as int)); }
        return Ok(true);
    }
    Ok(false)
//@end

} // verus!

    // Write-queue table (Keeper) on the REAL code: a lookup returns the piece of the latest insert of that key that is
    // still referenced; dropping an OLDER reference must not remove a NEWER piece of the same key (C01); colliding
    // keys are separate entries (C17). Bounded: 2 pieces.
    use foyer_memory::{CacheProperties, verif_make_piece};
    type VK = Keeper<u8, u8, CacheProperties>;

    #[kani::proof]
    #[kani::unwind(4)]
    fn newer_piece_survives_drop_of_older_reference() {
        let hash: u64 = kani::any();
        let k: u8 = kani::any();
        let keeper = VK::new(1);
        let ref1 = keeper.insert(verif_make_piece(k, 1, hash));
        let ref2 = keeper.insert(verif_make_piece(k, 2, hash));
        {
            let g = keeper.get(hash, &k);
            assert!(g.is_some() && *g.as_ref().unwrap().value() == 2, "[lookup_returns_latest_insert_of_the_key]");
            std::mem::forget(g);
        }
        drop(ref1); // the flush of version 1 completed
        {
            let g = keeper.get(hash, &k);
            assert!(g.is_some() && *g.as_ref().unwrap().value() == 2, "[newer_piece_survives_drop_of_older_reference]");
            std::mem::forget(g);
        }
        std::mem::forget((keeper, ref2));
    }

    #[kani::proof]
    #[kani::unwind(4)]
    fn colliding_keys_are_two_write_queue_entries() {
        let hash: u64 = kani::any();
        let k1: u8 = kani::any();
        let k2: u8 = kani::any();
        kani::assume(k1 != k2);
        let keeper = VK::new(1);
        let ref1 = keeper.insert(verif_make_piece(k1, 1, hash));
        let ref2 = keeper.insert(verif_make_piece(k2, 2, hash));
        {
            let g1 = keeper.get(hash, &k1);
            assert!(g1.is_some() && *g1.as_ref().unwrap().value() == 1 && *g1.as_ref().unwrap().key() == k1, "[lookup_returns_the_piece_of_that_key]");
            let g2 = keeper.get(hash, &k2);
            assert!(g2.is_some() && *g2.as_ref().unwrap().value() == 2, "[lookup_returns_the_piece_of_that_key]");
            std::mem::forget((g1, g2));
        }
        drop(ref1);
        {
            assert!(keeper.get(hash, &k1).is_none(), "[dropped_reference_leaves_the_write_queue]");
            let g2 = keeper.get(hash, &k2);
            assert!(g2.is_some() && *g2.as_ref().unwrap().value() == 2, "[colliding_key_survives_drop_of_the_other]");
            std::mem::forget(g2);
        }
        std::mem::forget((keeper, ref2));
    }

#[cfg(kani)]
pub use crate::pipe::verif_make_piece;

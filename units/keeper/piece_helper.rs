#[cfg(kani)]
pub fn verif_make_piece(key: u8, value: u8, hash: u64) -> Piece<u8, u8, crate::cache::CacheProperties> {
    use crate::{cache::CacheProperties, eviction::fifo::Fifo, record::Data};
    let r = Arc::new(Record::new(Data::<Fifo<u8, u8, CacheProperties>> { key, value, properties: CacheProperties::default(), hash, weight: 1 }));
    Piece::new(r)
}

    // Executable restatement of the LFU contracts on the real Lfu (replay only): after every operation of a random
    // sequence with NON-UNIFORM weights each queue counter equals the summed weight of the records in that queue, every
    // record carries the tag of the queue it is in, the window is within its share after a push and protected is within its
    // share after an access. Prints `WITNESS <label> :: <input>`.
    use crate::{eviction::test_utils::{Dump, OpExt, TestProperties}, record::Data};

    struct Lcg(u64);
    impl Lcg { fn next(&mut self, n: u64) -> u64 { self.0 = self.0.wrapping_mul(6364136223846793005).wrapping_add(1442695040888963407); (self.0 >> 33) % n } }

    type WLfu = Lfu<u64, u64, TestProperties>;

    fn check(lfu: &WLfu, trace: &[String], last: &str, found: &mut Vec<String>) -> bool {
        let d = lfu.dump();
        let sums: Vec<usize> = d.iter().map(|q| q.iter().map(|r| r.weight()).sum()).collect();
        let tags = [Queue::Window, Queue::Probation, Queue::Protected];
        let mut bad = None;
        if sums[0] != lfu.window_weight || sums[1] != lfu.probation_weight || sums[2] != lfu.protected_weight {
            bad = Some(format!("counters window/probation/protected = {}/{}/{} but the queues weigh {}/{}/{}", lfu.window_weight, lfu.probation_weight, lfu.protected_weight, sums[0], sums[1], sums[2]));
        }
        for (q, tag) in d.iter().zip(tags.iter()) {
            for r in q.iter() {
                let st = unsafe { &*r.state().get() };
                if st.queue != *tag { bad = Some(format!("record {} is in queue {:?} but tagged {:?}", r.key(), tag, st.queue)); }
            }
        }
        let mut label = "queue_weights_and_tags_stay_exact";
        if bad.is_none() && last == "push" && lfu.window_weight > lfu.window_weight_capacity {
            label = "window_is_within_its_share_after_a_push";
            bad = Some(format!("window weighs {} > share {}", lfu.window_weight, lfu.window_weight_capacity));
        }
        if bad.is_none() && last == "acquire" && lfu.protected_weight > lfu.protected_weight_capacity {
            label = "protected_is_within_its_share_after_a_promotion";
            bad = Some(format!("protected weighs {} > share {}", lfu.protected_weight, lfu.protected_weight_capacity));
        }
        if let Some(b) = bad {
            found.push(format!("WITNESS {label} :: lfu capacity=20 window=0.2 protected=0.5: {} => {}", trace.join("; "), b));
            return false;
        }
        true
    }

    #[test]
    fn verif_witness_lfu() {
        let mut found: Vec<String> = vec![];
        let seed = std::env::var("VERIF_SEED").ok().and_then(|s| s.parse::<u64>().ok()).unwrap_or(0);
        let mut rng = Lcg(0x9e3779b97f4a7c15 ^ seed);
        'rounds: for _round in 0..3000 {
            if found.len() >= 3 { break; }
            let config = LfuConfig { window_capacity_ratio: 0.2, protected_capacity_ratio: 0.5, cmsketch_eps: 0.01, cmsketch_confidence: 0.95 };
            let mut lfu = WLfu::new(20, &config);
            let rs: Vec<Arc<Record<WLfu>>> = (0..10u64).map(|i| Arc::new(Record::new(Data { key: i, value: i, properties: TestProperties::default(), hash: i, weight: 1 + rng.next(5) as usize }))).collect();
            let mut trace: Vec<String> = vec![];
            for _step in 0..24 {
                let i = rng.next(10) as usize;
                let r = &rs[i];
                let inside = r.is_in_eviction();
                let res = std::panic::catch_unwind(std::panic::AssertUnwindSafe(|| match rng.next(8) {
                    0..=2 if !inside => { trace.push(format!("push({i}, weight {})", r.weight())); lfu.push(r.clone()); "push" }
                    3..=5 => { trace.push(format!("acquire({i})")); lfu.acquire_mutable(r); "acquire" }
                    6 if inside => { trace.push(format!("remove({i})")); lfu.remove(r); "remove" }
                    7 => { let v = lfu.pop(); trace.push(format!("pop() -> {:?}", v.map(|v| *v.key()))); "pop" }
                    _ => "",
                }));
                match res {
                    Ok(last) => { if !check(&lfu, &trace, last, &mut found) { lfu.clear_for_witness(); continue 'rounds; } }
                    Err(_) => {
                        found.push(format!("WITNESS queue_weights_and_tags_stay_exact :: lfu capacity=20 window=0.2 protected=0.5: {} => panicked (counter underflow / empty queue)", trace.join("; ")));
                        std::mem::forget(lfu);
                        continue 'rounds;
                    }
                }
            }
            lfu.clear_for_witness();
        }
        for f in found.iter().take(3) { println!("{f}"); }
        println!("WITNESS-SEARCH-DONE found={}", found.len());
    }

    impl WLfu {
        /// unlink everything without trusting the counters (the intrusive lists must be empty when dropped)
        fn clear_for_witness(mut self) {
            while self.window.pop_front().is_some() {}
            while self.probation.pop_front().is_some() {}
            while self.protected.pop_front().is_some() {}
        }
    }

// UNIT lfu — w-TinyLFU queue bookkeeping (C14): Lfu::push / acquire / remove and the end of pop keep the three queue
// weights EXACT (each counter is the summed weight of the records in its queue, each record carries the tag of the queue
// it is in), and the two overflow loops move the OLDEST records, in order, and only as many as needed: window -> probation
// on push, protected -> probation on promotion. The counters are what decides every later overflow, so a counter that
// drifts changes the victim order (non-uniform weights only: every unit test uses weight 1).
// The intrusive lists are stand-ins with a sequence view; `&mut *record.state().get()` (UnsafeCell behind an Arc) is the
// field `st` of the record value. The victim choice of pop is in unit ghost (lfu_pop_choice).
#![allow(unused_imports, unused_variables, dead_code, unused_mut)]
use vstd::prelude::*;
verus! {

global size_of usize == 8;

//@item foyer-memory/src/eviction/lfu.rs :: enum Queue rules=derive-structural sub=@enum Queue@pub enum Queue@
pub struct StT { pub queue: Queue }
pub struct QRec { pub id: Ghost<int>, pub st: StT, pub w: usize, pub h: u64, pub in_ev: bool }
impl QRec {
    pub fn weight(&self) -> (r: usize) ensures r == self.w { self.w }
    pub fn hash(&self) -> (r: u64) ensures r == self.h { self.h }
    /// atomic flag behind `&self`: not tracked (the shard's contract for it is in unit sentry)
    #[verifier::external_body] pub fn set_in_eviction(&self, v: bool) { }
    pub fn is_in_eviction(&self) -> (r: bool) ensures r == self.in_ev { self.in_ev }
}
/// `Arc::as_ptr(record)`: the pointer names the record
pub struct PtrT { pub rec: Ghost<QRec> }
pub fn verif_ptr(record: &QRec) -> (p: PtrT) ensures p.rec@ == *record { PtrT { rec: Ghost(*record) } }

#[verifier::external_body]
pub struct ListT { _p: core::marker::PhantomData<QRec> }
impl ListT {
    pub uninterp spec fn view(&self) -> Seq<QRec>;
    #[verifier::external_body]
    pub fn pop_front(&mut self) -> (r: Option<QRec>)
        ensures old(self)@.len() == 0 ==> r is None && final(self)@ == old(self)@,
            old(self)@.len() > 0 ==> r == Some(old(self)@[0]) && final(self)@ == old(self)@.subrange(1, old(self)@.len() as int),
    { unimplemented!() }
    #[verifier::external_body]
    pub fn push_back(&mut self, r: QRec) ensures final(self)@ == old(self)@.push(r) { }
    #[verifier::external_body]
    pub fn is_empty(&self) -> (r: bool) ensures r == (self@.len() == 0) { unimplemented!() }
    /// intrusive unlink of the record the pointer names (the caller's obligation -- unsafe fn -- is that it is linked here)
    #[verifier::external_body]
    pub fn remove_from_ptr(&mut self, p: PtrT) -> (r: QRec)
        requires exists|i: int| 0 <= i < old(self)@.len() && old(self)@[i] == p.rec@,
        ensures r == p.rec@, exists|i: int| 0 <= i < old(self)@.len() && old(self)@[i] == p.rec@ && final(self)@ == #[trigger] old(self)@.remove(i),
    { unimplemented!() }
}

pub open spec fn ids(s: Seq<QRec>) -> Seq<int> { s.map_values(|r: QRec| r.id@) }
pub open spec fn qsum(s: Seq<QRec>) -> nat decreases s.len() { if s.len() == 0 { 0 } else { qsum(s.drop_last()) + s.last().w as nat } }
pub open spec fn tagged(s: Seq<QRec>, q: Queue) -> bool { forall|i: int| 0 <= i < s.len() ==> (#[trigger] s[i]).st.queue == q }
pub proof fn lemma_qsum_push(s: Seq<QRec>, x: QRec) ensures qsum(s.push(x)) == qsum(s) + x.w as nat { assert(s.push(x).drop_last() =~= s); }
pub proof fn lemma_qsum_pop_front(s: Seq<QRec>)
    requires s.len() > 0,
    ensures qsum(s.subrange(1, s.len() as int)) + s[0].w as nat == qsum(s),
    decreases s.len(),
{
    if s.len() == 1 { assert(s.subrange(1, 1) =~= Seq::empty()); assert(s.drop_last() =~= Seq::empty()); }
    else {
        let t = s.subrange(1, s.len() as int);
        lemma_qsum_pop_front(s.drop_last());
        assert(t.drop_last() =~= s.drop_last().subrange(1, s.len() - 1));
        assert(t.last() == s.last()); assert(s.drop_last()[0] == s[0]);
    }
}
pub proof fn lemma_qsum_remove(s: Seq<QRec>, i: int)
    requires 0 <= i < s.len(),
    ensures qsum(s.remove(i)) + s[i].w as nat == qsum(s),
    decreases s.len(),
{
    if i == s.len() - 1 { assert(s.remove(i) =~= s.drop_last()); }
    else {
        lemma_qsum_remove(s.drop_last(), i);
        assert(s.remove(i).drop_last() =~= s.drop_last().remove(i));
        assert(s.remove(i).last() == s.last());
        assert(s.drop_last()[i] == s[i]);
    }
}
pub proof fn lemma_qsum_empty(s: Seq<QRec>) requires s.len() == 0 ensures qsum(s) == 0 { }

/// `cur` is what is left of `full` after its k oldest records moved on, and moving the k-th was needed (the queue was over `cap`)
pub open spec fn moved_oldest(full: Seq<QRec>, k: int, cur: Seq<QRec>, cap: usize) -> bool {
    0 <= k <= full.len() && cur == full.subrange(k, full.len() as int) && (k > 0 ==> qsum(full.subrange(k - 1, full.len() as int)) > cap)
}

pub struct LfuT {
    pub window: ListT, pub probation: ListT, pub protected: ListT,
    pub window_weight: usize, pub probation_weight: usize, pub protected_weight: usize,
    pub window_weight_capacity: usize, pub protected_weight_capacity: usize,
    /// the hashes whose frequency was bumped, in order (count-min sketch, decay: not modelled)
    pub bumped: Ghost<Seq<u64>>,
}
impl LfuT {
    pub open spec fn wf(&self) -> bool {
        &&& self.window_weight == qsum(self.window@) && self.probation_weight == qsum(self.probation@) && self.protected_weight == qsum(self.protected@)
        &&& tagged(self.window@, Queue::Window) && tagged(self.probation@, Queue::Probation) && tagged(self.protected@, Queue::Protected)
        &&& qsum(self.window@) + qsum(self.probation@) + qsum(self.protected@) <= usize::MAX
    }
    pub open spec fn caps_kept(&self, o: &LfuT) -> bool { self.window_weight_capacity == o.window_weight_capacity && self.protected_weight_capacity == o.protected_weight_capacity }
    pub open spec fn queue_of(&self, q: Queue) -> Seq<QRec> { match q { Queue::Window => self.window@, Queue::Probation => self.probation@, Queue::Protected => self.protected@, Queue::None => Seq::empty() } }
    pub open spec fn weight_of(&self, q: Queue) -> int { match q { Queue::Window => self.window_weight as int, Queue::Probation => self.probation_weight as int, Queue::Protected => self.protected_weight as int, Queue::None => 0 } }

    #[verifier::external_body]
    fn update_frequencies(&mut self, hash: u64)
        ensures final(self).bumped@ == old(self).bumped@.push(hash),
            final(self).window == old(self).window, final(self).probation == old(self).probation, final(self).protected == old(self).protected,
            final(self).window_weight == old(self).window_weight, final(self).probation_weight == old(self).probation_weight, final(self).protected_weight == old(self).protected_weight,
            final(self).caps_kept(old(self)),
    { unimplemented!() }

//@fn foyer-memory/src/eviction/lfu.rs :: impl~^impl<K, V, P> Lfu<K, V, P>/fn increase_queue_weight
//@spec
        requires queue != Queue::None, old(self).weight_of(queue) + weight <= usize::MAX,
        ensures
            final(self).weight_of(queue) == old(self).weight_of(queue) + weight, // @label the_counter_of_the_named_queue_grows_by_the_weight
            queue != Queue::Window ==> final(self).window_weight == old(self).window_weight, // @label the_other_queue_counters_are_untouched
            queue != Queue::Probation ==> final(self).probation_weight == old(self).probation_weight, // @label the_other_queue_counters_are_untouched
            queue != Queue::Protected ==> final(self).protected_weight == old(self).protected_weight, // @label the_other_queue_counters_are_untouched
            final(self).window == old(self).window, final(self).probation == old(self).probation, final(self).protected == old(self).protected,
            final(self).caps_kept(old(self)), final(self).bumped == old(self).bumped,
//@end
//@fn foyer-memory/src/eviction/lfu.rs :: impl~^impl<K, V, P> Lfu<K, V, P>/fn decrease_queue_weight
//@spec
        requires queue != Queue::None, old(self).weight_of(queue) >= weight,
        ensures
            final(self).weight_of(queue) == old(self).weight_of(queue) - weight, // @label the_counter_of_the_named_queue_shrinks_by_the_weight
            queue != Queue::Window ==> final(self).window_weight == old(self).window_weight, // @label the_other_queue_counters_are_untouched
            queue != Queue::Probation ==> final(self).probation_weight == old(self).probation_weight, // @label the_other_queue_counters_are_untouched
            queue != Queue::Protected ==> final(self).protected_weight == old(self).protected_weight, // @label the_other_queue_counters_are_untouched
            final(self).window == old(self).window, final(self).probation == old(self).probation, final(self).protected == old(self).protected,
            final(self).caps_kept(old(self)), final(self).bumped == old(self).bumped,
//@end

// ---- Lfu::push: the record enters the window as its newest; the window then sheds its OLDEST records to probation until
// it is within its share
//@region foyer-memory/src/eviction/lfu.rs :: impl~^impl<K, V, P> Eviction for Lfu<K, V, P>/fn push name=lfu_push whole=1 rules=assert-eq sub=@let state = unsafe \{ &mut \*record\.state\(\)\.get\(\) \};@@ sub=@\bstate\.queue\b@record.st.queue@ subopt=@assert!\(!state\.link\.is_linked\(\)\);@@ sub=@let r = self\.window\.pop_front\(\)\.unwrap\(\);@let mut r = self.window.pop_front().unwrap();@ sub=@let s = unsafe \{ &mut \*r\.state\(\)\.get\(\) \};@@ sub=@\bs\.queue\b@r.st.queue@
//@head
    fn lfu_push(&mut self, mut record: QRec)
        requires old(self).wf(), record.st.queue == Queue::None, !record.in_ev,
            qsum(old(self).window@) + qsum(old(self).probation@) + qsum(old(self).protected@) + record.w <= usize::MAX,
        ensures
            final(self).wf(), // @label queue_weights_and_tags_stay_exact
            final(self).caps_kept(old(self)),
            final(self).bumped@ == old(self).bumped@.push(record.h), // @label an_inserted_key_counts_as_one_access
            final(self).protected@ == old(self).protected@,
            final(self).window_weight <= final(self).window_weight_capacity, // @label window_is_within_its_share_after_a_push
            ({
                let full = old(self).window@.push(QRec { st: StT { queue: Queue::Window }, ..record });
                exists|k: int| #[trigger] moved_oldest(full, k, final(self).window@, old(self).window_weight_capacity)
                    && ids(final(self).probation@) == ids(old(self).probation@) + ids(full.subrange(0, k))
            }), // @label window_overflow_moves_the_oldest_records_to_probation_in_order_and_no_more_than_needed
//@prologue
        let ghost w0 = self.window@;
        let ghost p0 = self.probation@;
        let ghost mut k: int = 0;
        let ghost mut full: Seq<QRec> = Seq::empty();
        let ghost mut before: Seq<QRec> = Seq::empty();
        let ghost mut pb: Seq<QRec> = Seq::empty();
//@before /while self\.window_weight\b/
        proof {
            full = self.window@;
            lemma_qsum_push(w0, full.last());
            assert(full =~= w0.push(QRec { st: StT { queue: Queue::Window }, ..record }));
            assert(full.subrange(0, full.len() as int) =~= full);
            assert(ids(full.subrange(0, 0)) =~= Seq::<int>::empty());
            assert(ids(p0) + Seq::<int>::empty() =~= ids(p0));
        }
//@loop 1
            invariant
                self.wf(), // @label queue_weights_and_tags_stay_exact
                self.caps_kept(old(self)), self.protected@ == old(self).protected@, self.bumped@ == old(self).bumped@.push(record.h),
                p0 == old(self).probation@, full == old(self).window@.push(QRec { st: StT { queue: Queue::Window }, ..record }),
                moved_oldest(full, k, self.window@, old(self).window_weight_capacity), // @label window_overflow_moves_the_oldest_records_to_probation_in_order_and_no_more_than_needed
                ids(self.probation@) == ids(p0) + ids(full.subrange(0, k)),
            decreases self.window@.len(),
//@before /let mut r = self\.window\.pop_front\(\)\.unwrap\(\);/
            proof {
                before = self.window@;
                pb = self.probation@;
                if before.len() == 0 { lemma_qsum_empty(before); }
                lemma_qsum_pop_front(before);
            }
//@after /self\.probation\.push_back\(r\);/
            proof {
                lemma_qsum_push(pb, self.probation@.last());
                assert(self.window@ =~= full.subrange(k + 1, full.len() as int));
                assert(before =~= full.subrange(k, full.len() as int));
                assert(ids(full.subrange(0, k + 1)) =~= ids(full.subrange(0, k)).push(full[k].id@));
                assert(ids(self.probation@) =~= ids(pb).push(full[k].id@));
                assert(ids(self.probation@) =~= ids(p0) + ids(full.subrange(0, k + 1)));
                k = k + 1;
            }
//@end

// ---- Lfu::acquire (the closure body): an access bumps the frequency; a record in the window or in protected moves to the
// MRU end of its queue; a record in probation is promoted to the MRU end of protected, and protected then sheds its OLDEST
// records to probation until it is within its share
//@region foyer-memory/src/eviction/lfu.rs :: impl~^impl<K, V, P> Eviction for Lfu<K, V, P>/fn acquire name=lfu_acquire start=/Op::mutable\(\|this: &mut Self, record\| \{/ body=1 rules=assert-eq sub=@let state = unsafe \{ &mut \*record\.state\(\)\.get\(\) \};@@ subopt=@assert!\(state\.link\.is_linked\(\)\);@@ sub=@match state\.queue \{@match record.st.queue {@ sub=@unsafe \{ this\.(\w+)\.remove_from_ptr\(Arc::as_ptr\(record\)\) \}@this.\1.remove_from_ptr(verif_ptr(record))@ sub=@let r = this\.probation\.remove_from_ptr@let mut r = this.probation.remove_from_ptr@ sub=@\bstate\.queue = @r.st.queue = @ sub=@let r = this\.protected\.pop_front\(\)\.unwrap\(\);@let mut r = this.protected.pop_front().unwrap();@ sub=@let s = unsafe \{ &mut \*r\.state\(\)\.get\(\) \};@@ sub=@\bs\.queue\b@r.st.queue@
//@head
    fn lfu_acquire(this: &mut LfuT, record: &QRec)
        requires old(this).wf(),
            // the record's tag and its in-eviction flag tell the truth (what push / pop / remove establish)
            record.in_ev ==> record.st.queue != Queue::None && exists|i: int| 0 <= i < old(this).queue_of(record.st.queue).len() && old(this).queue_of(record.st.queue)[i] == *record,
        ensures
            final(this).wf(), // @label queue_weights_and_tags_stay_exact
            final(this).caps_kept(old(this)),
            final(this).bumped@ == old(this).bumped@.push(record.h), // @label every_access_bumps_the_frequency_of_the_key_once
            !record.in_ev ==> final(this).window@ == old(this).window@ && final(this).probation@ == old(this).probation@ && final(this).protected@ == old(this).protected@,
            record.in_ev && record.st.queue == Queue::Window ==> final(this).probation@ == old(this).probation@ && final(this).protected@ == old(this).protected@
                && exists|i: int| 0 <= i < old(this).window@.len() && old(this).window@[i] == *record && final(this).window@ == #[trigger] old(this).window@.remove(i).push(*record), // @label accessed_window_record_moves_to_the_mru_end_of_the_window
            record.in_ev && record.st.queue == Queue::Protected ==> final(this).probation@ == old(this).probation@ && final(this).window@ == old(this).window@
                && exists|i: int| 0 <= i < old(this).protected@.len() && old(this).protected@[i] == *record && final(this).protected@ == #[trigger] old(this).protected@.remove(i).push(*record), // @label accessed_protected_record_moves_to_the_mru_end_of_protected
            record.in_ev && record.st.queue == Queue::Probation ==> final(this).window@ == old(this).window@
                && final(this).protected_weight <= final(this).protected_weight_capacity // @label protected_is_within_its_share_after_a_promotion
                && exists|i: int, k: int| 0 <= i < old(this).probation@.len() && old(this).probation@[i] == *record
                    && #[trigger] moved_oldest(old(this).protected@.push(QRec { st: StT { queue: Queue::Protected }, ..*record }), k, final(this).protected@, old(this).protected_weight_capacity)
                    && ids(final(this).probation@) == ids(#[trigger] old(this).probation@.remove(i)) + ids(old(this).protected@.push(QRec { st: StT { queue: Queue::Protected }, ..*record }).subrange(0, k)), // @label accessed_probation_record_is_promoted_and_protected_overflow_moves_its_oldest_records_back_in_order
//@prologue
        let ghost w0 = this.window@;
        let ghost p0 = this.probation@;
        let ghost q0 = this.protected@;
        let ghost mut k: int = 0;
        let ghost mut ri: int = 0;
        let ghost mut full: Seq<QRec> = Seq::empty();
        let ghost mut p1: Seq<QRec> = Seq::empty();
        let ghost mut before: Seq<QRec> = Seq::empty();
        let ghost mut pb: Seq<QRec> = Seq::empty();
        let ghost mut w1: Seq<QRec> = Seq::empty();
        let ghost mut q1: Seq<QRec> = Seq::empty();
//@after /let r = this\.window\.remove_from_ptr\(verif_ptr\(record\)\);/
                    proof {
                        let i = choose|i: int| 0 <= i < w0.len() && w0[i] == *record && this.window@ == #[trigger] w0.remove(i);
                        lemma_qsum_remove(w0, i);
                        w1 = this.window@;
                    }
//@after /this\.window\.push_back\(r\);/
                    proof { lemma_qsum_push(w1, *record); }
//@after /let mut r = this\.probation\.remove_from_ptr\(verif_ptr\(record\)\);/
                    proof {
                        ri = choose|i: int| 0 <= i < p0.len() && p0[i] == *record && this.probation@ == #[trigger] p0.remove(i);
                        lemma_qsum_remove(p0, ri);
                        p1 = this.probation@;
                    }
//@after /this\.protected\.push_back\(r\);/
                    proof {
                        full = this.protected@;
                        lemma_qsum_push(q0, full.last());
                        assert(full =~= q0.push(QRec { st: StT { queue: Queue::Protected }, ..*record }));
                        assert(full.subrange(0, full.len() as int) =~= full);
                        assert(ids(full.subrange(0, 0)) =~= Seq::<int>::empty());
                        assert(ids(p1) + Seq::<int>::empty() =~= ids(p1));
                    }
//@loop 1
                        invariant
                            this.wf(), // @label queue_weights_and_tags_stay_exact
                            this.caps_kept(old(this)), this.window@ == old(this).window@, this.bumped@ == old(this).bumped@.push(record.h),
                            q0 == old(this).protected@, p0 == old(this).probation@, p1 == p0.remove(ri), 0 <= ri < p0.len(), p0[ri] == *record,
                            full == q0.push(QRec { st: StT { queue: Queue::Protected }, ..*record }),
                            moved_oldest(full, k, this.protected@, old(this).protected_weight_capacity), // @label accessed_probation_record_is_promoted_and_protected_overflow_moves_its_oldest_records_back_in_order
                            ids(this.probation@) == ids(p1) + ids(full.subrange(0, k)),
                        decreases this.protected@.len(),
//@before /let mut r = this\.protected\.pop_front\(\)\.unwrap\(\);/
                        proof {
                            before = this.protected@;
                            pb = this.probation@;
                            if before.len() == 0 { lemma_qsum_empty(before); }
                            lemma_qsum_pop_front(before);
                        }
//@after /this\.probation\.push_back\(r\);/
                        proof {
                            lemma_qsum_push(pb, this.probation@.last());
                            assert(this.protected@ =~= full.subrange(k + 1, full.len() as int));
                            assert(before =~= full.subrange(k, full.len() as int));
                            assert(ids(full.subrange(0, k + 1)) =~= ids(full.subrange(0, k)).push(full[k].id@));
                            assert(ids(this.probation@) =~= ids(pb).push(full[k].id@));
                            assert(ids(this.probation@) =~= ids(p1) + ids(full.subrange(0, k + 1)));
                            k = k + 1;
                        }
//@after /let r = this\.protected\.remove_from_ptr\(verif_ptr\(record\)\);/
                    proof {
                        let i = choose|i: int| 0 <= i < q0.len() && q0[i] == *record && this.protected@ == #[trigger] q0.remove(i);
                        lemma_qsum_remove(q0, i);
                        q1 = this.protected@;
                    }
//@after 2:/this\.protected\.push_back\(r\);/
                    proof { lemma_qsum_push(q1, *record); }
//@end

// ---- Lfu::remove: the record leaves the queue its tag names, that queue's counter shrinks by its weight, the tag is cleared
//@region foyer-memory/src/eviction/lfu.rs :: impl~^impl<K, V, P> Eviction for Lfu<K, V, P>/fn remove name=lfu_remove whole=1 rules=assert-eq sub=@let state = unsafe \{ &mut \*record\.state\(\)\.get\(\) \};@@ subopt=@assert!\(!?state\.link\.is_linked\(\)\);@@ sub=@\bstate\.queue\b@record.st.queue@ sub=@unsafe \{ self\.(\w+)\.remove_from_ptr\(Arc::as_ptr\(record\)\) \}@self.\1.remove_from_ptr(verif_ptr(record))@
//@head
    fn lfu_remove(&mut self, record: &mut QRec)
        requires old(self).wf(), old(record).in_ev, old(record).st.queue != Queue::None,
            exists|i: int| 0 <= i < old(self).queue_of(old(record).st.queue).len() && old(self).queue_of(old(record).st.queue)[i] == *old(record),
        ensures
            final(self).wf(), // @label queue_weights_and_tags_stay_exact
            final(self).caps_kept(old(self)), final(self).bumped == old(self).bumped,
            final(record).st.queue == Queue::None, // @label a_removed_record_is_in_no_queue
            final(record).id == old(record).id && final(record).w == old(record).w && final(record).h == old(record).h,
            exists|i: int| 0 <= i < old(self).queue_of(old(record).st.queue).len() && old(self).queue_of(old(record).st.queue)[i] == *old(record)
                && final(self).queue_of(old(record).st.queue) == #[trigger] old(self).queue_of(old(record).st.queue).remove(i), // @label the_record_leaves_the_queue_its_tag_names
            forall|q: Queue| q != old(record).st.queue ==> final(self).queue_of(q) == old(self).queue_of(q), // @label the_other_queues_are_untouched
//@prologue
        let ghost tag = record.st.queue;
        let ghost q0 = self.queue_of(tag);
//@before /self\.decrease_queue_weight\(/
        proof {
            let i = choose|i: int| 0 <= i < q0.len() && q0[i] == *old(record) && self.queue_of(tag) == #[trigger] q0.remove(i);
            lemma_qsum_remove(q0, i);
        }
//@end

// ---- the end of Lfu::pop: the victim (already unlinked by the choice, unit ghost) gives its weight back to the counter of
// the queue its tag names, and leaves with the tag cleared
    /// every counter is exact except the one of queue `q`, which still includes a record of weight `w` that was just unlinked
    pub open spec fn wf_but(&self, q: Queue, w: usize) -> bool {
        &&& self.window_weight == qsum(self.window@) + (if q == Queue::Window { w as nat } else { 0 })
        &&& self.probation_weight == qsum(self.probation@) + (if q == Queue::Probation { w as nat } else { 0 })
        &&& self.protected_weight == qsum(self.protected@) + (if q == Queue::Protected { w as nat } else { 0 })
        &&& tagged(self.window@, Queue::Window) && tagged(self.probation@, Queue::Probation) && tagged(self.protected@, Queue::Protected)
        &&& qsum(self.window@) + qsum(self.probation@) + qsum(self.protected@) + w <= usize::MAX
    }
//@region foyer-memory/src/eviction/lfu.rs :: impl~^impl<K, V, P> Eviction for Lfu<K, V, P>/fn pop name=lfu_pop_finish start=/let state = / stmts=99 rules=assert-eq sub=@let state = unsafe \{ &mut \*record\.state\(\)\.get\(\) \};@@ subopt=@assert!\(!?state\.link\.is_linked\(\)\);@@ sub=@\bstate\.queue\b@record.st.queue@
//@head
    fn lfu_pop_finish(&mut self, mut record: QRec) -> (r: Option<QRec>)
        requires record.in_ev, record.st.queue != Queue::None, old(self).wf_but(record.st.queue, record.w),
        ensures
            final(self).wf(), // @label queue_weights_and_tags_stay_exact
            final(self).caps_kept(old(self)), final(self).bumped == old(self).bumped,
            final(self).window@ == old(self).window@ && final(self).probation@ == old(self).probation@ && final(self).protected@ == old(self).protected@,
            r matches Some(v) && v.id == record.id && v.st.queue == Queue::None, // @label the_victim_leaves_with_its_tag_cleared
//@end
}


// ---- Lfu::update_frequencies (TinyLFU aging): every access is counted in the sketch and in the sample counter; when the
// sample counter reaches the decay period ALL counters are halved -- the sample counter too (it restarts at half the
// period, not at 0), so agings come after W, 1.5 W, 2 W, .. accesses
pub struct CountMinKey(pub u64);
pub struct SketchT { pub updates: Ghost<Seq<u64>>, pub halvings: Ghost<nat> }
impl SketchT {
    #[verifier::external_body]
    pub fn update(&mut self, k: CountMinKey) ensures final(self).updates@ == old(self).updates@.push(k.0), final(self).halvings == old(self).halvings { unimplemented!() }
    #[verifier::external_body]
    pub fn halve(&mut self) ensures final(self).halvings@ == old(self).halvings@ + 1, final(self).updates == old(self).updates { unimplemented!() }
}
pub struct LfuFreqT { pub frequencies: SketchT, pub step: usize, pub decay: usize }
impl LfuFreqT {
//@fn foyer-memory/src/eviction/lfu.rs :: impl~^impl<K, V, P> Lfu<K, V, P>/fn update_frequencies
//@spec
        requires old(self).step < usize::MAX,
        ensures
            final(self).decay == old(self).decay,
            final(self).frequencies.updates@ == old(self).frequencies.updates@.push(hash), // @label every_access_is_counted_once_in_the_sketch
            old(self).step + 1 < old(self).decay ==> final(self).step == old(self).step + 1 && final(self).frequencies.halvings == old(self).frequencies.halvings, // @label no_aging_before_the_decay_period_is_reached
            old(self).step + 1 >= old(self).decay ==> final(self).step == (old(self).step + 1) / 2 && final(self).frequencies.halvings@ == old(self).frequencies.halvings@ + 1, // @label aging_halves_the_counters_and_the_sample_counter_together
//@before /self\.step >>= 1;/
            proof { let x = self.step; assert(x >> 1 == x / 2) by(bit_vector); }
//@end
}

} // verus!

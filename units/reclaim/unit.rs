// UNIT reclaim — block reclaim: an entry picked by the reinsertion filter is re-submitted with its ORIGINAL hash,
// length and sequence; every other entry is queued for sequence-guarded removal from the index (C01, parts of C09)
#![allow(unused_imports, unused_variables, dead_code, unused_mut)]
use vstd::prelude::*;
use vstd::std_specs::iter::IteratorSpec;
verus! {

global size_of usize == 8;

//@item foyer-storage/src/io/mod.rs :: const PAGE
//@item foyer-storage/src/engine/block/serde.rs :: type Sequence
//@item foyer-storage/src/engine/block/manager.rs :: type BlockId
//@item foyer-storage/src/engine/block/indexer.rs :: struct EntryAddress rules=derive-clone-copy
//@item foyer-storage/src/engine/block/scanner.rs :: struct EntryInfo rules=derive-clone-copy

#[derive(Debug)]
pub struct Error { pub e: u8 }
pub mod bits {
    use vstd::prelude::*;
    #[verifier::external_body]
    pub fn align_up(align: usize, v: usize) -> (r: usize)
        requires align == 4096, v + 4095 <= usize::MAX,
        ensures r >= v, r - v < 4096, r % 4096 == 0,
    { unimplemented!() }
}
pub struct IoSliceMut { pub n: usize }
impl IoSliceMut { #[verifier::external_body] pub fn new(n: usize) -> (r: IoSliceMut) ensures r.n == n { unimplemented!() } }
pub struct IoSlice { pub n: usize }
pub struct ReadBufT { pub n: usize }
impl ReadBufT {
    /// `buf.try_into_io_slice_mut().unwrap().into_io_slice()`
    #[verifier::external_body] pub fn verif_into_io_slice(self) -> (r: IoSlice) ensures r.n == self.n { unimplemented!() }
}
impl IoSlice {
    #[verifier::external_body] pub fn verif_slice_to(&self, end: usize) -> (r: IoSlice) requires end <= self.n, ensures r.n == end { unimplemented!() }
}
pub struct BlockT { pub id_: BlockId, pub reads: Ghost<Seq<(int, int)>> }
impl BlockT {
    pub fn id(&self) -> (r: BlockId) ensures r == self.id_ { self.id_ }
    /// `block.read(Box::new(buf), offset)`
    #[verifier::external_body]
    pub fn verif_read(&mut self, buf: IoSliceMut, offset: u64) -> (r: (ReadBufT, core::result::Result<(), Error>))
        ensures r.0.n == buf.n, final(self).reads@ == old(self).reads@.push((offset as int, buf.n as int)), final(self).id_ == old(self).id_ { unimplemented!() }
}
pub struct StatsT { pub s: u8 }
pub enum StorageFilterResult { Admit, Reject, Throttled(u64) }
impl StorageFilterResult { pub fn is_admitted(&self) -> (r: bool) ensures r == (*self is Admit) { matches!(self, StorageFilterResult::Admit) } }
pub struct PickerT { pub p: u8 }
pub uninterp spec fn spec_pick(hash: u64, len: usize) -> bool;
impl PickerT {
    #[verifier::external_body]
    pub fn filter(&self, s: &StatsT, hash: u64, len: usize) -> (r: StorageFilterResult) ensures (r is Admit) == spec_pick(hash, len) { unimplemented!() }
}
pub struct Reinsertion { pub hash: u64, pub len: usize, pub sequence: Sequence, pub slice: IoSlice }
pub enum Submission { Reinsertion { reinsertion: Reinsertion } }
pub struct FlushersT { pub n: usize, pub log: Ghost<Seq<(int, Submission)>> }
impl FlushersT {
    pub fn len(&self) -> (r: usize) ensures r == self.n { self.n }
    /// `flushers[i].clone().submit(s)`
    #[verifier::external_body]
    pub fn verif_submit_to(&mut self, i: usize, s: Submission)
        requires i < old(self).n,
        ensures final(self).n == old(self).n, final(self).log@ == old(self).log@.push((i as int, s)),
    { }
}

pub open spec fn reins_of(s: Submission, info: EntryInfo) -> bool {
    match s { Submission::Reinsertion { reinsertion } => spec_pick(info.hash, info.addr.len as usize)
        && reinsertion.hash == info.hash && reinsertion.sequence == info.addr.sequence && reinsertion.len == info.addr.len as usize }
}
pub open spec fn reins_ok(s: Submission, infos: Seq<EntryInfo>) -> bool { exists|i: int| 0 <= i < infos.len() && reins_of(s, #[trigger] infos[i]) }
pub open spec fn unpick_of(u: (u64, Sequence), info: EntryInfo) -> bool { !spec_pick(info.hash, info.addr.len as usize) && u == (info.hash, info.addr.sequence) }
pub open spec fn unpick_ok(u: (u64, Sequence), infos: Seq<EntryInfo>) -> bool { exists|i: int| 0 <= i < infos.len() && unpick_of(u, #[trigger] infos[i]) }

//@region foyer-storage/src/engine/block/reclaimer.rs :: impl~ReclaimerTrait for Reclaimer/fn reclaim name=reclaim_entries start=/for info in infos \{/ stmts=1 rules=drop-tracing,de-async sub=@info\.addr\.len as _\)\.is_admitted@info.addr.len as usize).is_admitted@ sub=@bits::align_up\(PAGE, info\.addr\.len as _\)@bits::align_up(PAGE, info.addr.len as usize)@ sub=@block\.read\(Box::new\(buf\), (.*?) as _\)@block.verif_read(buf, \1 as u64)@ sub=@buf\.try_into_io_slice_mut\(\)\.unwrap\(\)\.into_io_slice\(\)@buf.verif_into_io_slice()@ sub=@buf\.slice\(\.\.(.*)\);@buf.verif_slice_to(\1);@ sub=@let flusher = flushers\[(.*?)\]\.clone\(\);@let verif_flusher_idx = \1;@ sub=@flusher\.submit\(@flushers.verif_submit_to(verif_flusher_idx, @
//@head
#[verifier::exec_allows_no_decreases_clause]
fn reclaim_entries(infos: Vec<EntryInfo>, reinsertion_picker: &PickerT, statistics: &StatsT, block: &mut BlockT, flushers: &mut FlushersT,
                   picked_count_in: usize, unpicked: &mut Vec<(u64, Sequence)>) -> (picked_count_out: usize)
    requires old(flushers).n > 0, picked_count_in + infos@.len() <= usize::MAX,
    ensures
        // every submission made here re-inserts an entry of this block with its original hash / length / sequence
        forall|j: int| old(flushers).log@.len() <= j < final(flushers).log@.len() ==> reins_ok((#[trigger] final(flushers).log@[j]).1, infos@), // @label reinsertion_keeps_the_original_sequence
        // every entry queued for removal carries its own (hash, sequence): the guarded removal cannot hit a newer version
        forall|j: int| old(unpicked)@.len() <= j < final(unpicked)@.len() ==> unpick_ok(#[trigger] final(unpicked)@[j], infos@), // @label unpicked_entries_removed_under_their_own_sequence
        final(unpicked)@.subrange(0, old(unpicked)@.len() as int) == old(unpicked)@,
//@prologue
    let mut picked_count = picked_count_in;
    let ghost log0 = flushers.log@;
    let ghost un0 = unpicked@;
    'reinsert: loop
        invariant_except_break picked_count == picked_count_in, flushers.log@ == log0, unpicked@ == un0, flushers.n == old(flushers).n, flushers.n > 0, picked_count_in + infos@.len() <= usize::MAX,
        ensures
            forall|j: int| log0.len() <= j < flushers.log@.len() ==> reins_ok((#[trigger] flushers.log@[j]).1, infos@),
            forall|j: int| un0.len() <= j < unpicked@.len() ==> unpick_ok(#[trigger] unpicked@[j], infos@),
            unpicked@.subrange(0, un0.len() as int) == un0,
    {
//@loop 1 iter=it
            invariant
                flushers.n == old(flushers).n, flushers.n > 0,
                picked_count <= picked_count_in + it.index@, picked_count_in + infos@.len() <= usize::MAX, it.index@ <= infos@.len(),
                it.snapshot@.remaining() == infos@,
                flushers.log@.len() >= log0.len(), unpicked@.len() >= un0.len(),
                forall|j: int| log0.len() <= j < flushers.log@.len() ==> reins_ok((#[trigger] flushers.log@[j]).1, infos@),
                forall|j: int| un0.len() <= j < unpicked@.len() ==> unpick_ok(#[trigger] unpicked@[j], infos@),
                unpicked@.subrange(0, un0.len() as int) == un0,
//@before /if reinsertion_picker\.filter\(/
                    let ghost lg = flushers.log@;
                    let ghost ug = unpicked@;
                    proof { assert(info == infos@[it.index@ as int]); }
//@after /picked_count \+= 1;/
                        proof {
                            assert(reins_of(flushers.log@.last().1, infos@[it.index@ as int]));
                            assert forall|j: int| log0.len() <= j < flushers.log@.len() implies reins_ok((#[trigger] flushers.log@[j]).1, infos@) by {
                                if j < lg.len() { assert(flushers.log@[j] == lg[j]); }
                            }
                        }
//@after /unpicked\.push\(/
                        proof {
                            assert(unpick_of(unpicked@.last(), infos@[it.index@ as int]));
                            assert forall|j: int| un0.len() <= j < unpicked@.len() implies unpick_ok(#[trigger] unpicked@[j], infos@) by {
                                if j < ug.len() { assert(unpicked@[j] == ug[j]); }
                            }
                            assert(unpicked@.subrange(0, un0.len() as int) =~= un0);
                        }
//@tail
        break 'reinsert;
    }
    picked_count
//@end

} // verus!

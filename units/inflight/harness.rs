    // In-flight table contracts on the REAL InflightManager (hash table = Vec-backed hashbrown stand-in).
    // Symbolic hash / keys; the number of table entries per scenario is fixed (<= 2) => bounded in table size.
    use foyer_common::hasher::ModHasher;
    use crate::{cache::CacheProperties, eviction::fifo::Fifo, indexer::hash_table::HashTableIndexer};
    type VE = Fifo<u8, u8, CacheProperties>;
    type VM = InflightManager<VE, ModHasher, HashTableIndexer<VE>>;

    fn lead(m: &mut VM, hash: u64, key: &u8) -> Option<(usize, Arc<AtomicBool>)> {
        match m.enqueue::<u8, ()>(hash, key, None) {
            Enqueue::Lead { id, close, required_fetch_builder, waiter } => {
                assert!(required_fetch_builder.is_none(), "[lead_gets_its_own_builder_back]");
                // channel endpoints are forgotten, not dropped: their drop glue (wakers, atomics state machine)
                // is not part of the contract and dominates CBMC time
                std::mem::forget(waiter);
                std::mem::forget(required_fetch_builder);
                Some((id, close))
            }
            Enqueue::Wait(w) => { std::mem::forget(w); None }
        }
    }
    fn len_and_forget<T>(t: Option<Vec<T>>) -> Option<usize> {
        let n = t.as_ref().map(|v| v.len());
        std::mem::forget(t);
        n
    }
    fn is_wait(m: &mut VM, hash: u64, key: &u8) -> bool {
        let r = m.enqueue::<u8, ()>(hash, key, None);
        let w = matches!(r, Enqueue::Wait(_));
        std::mem::forget(r);
        w
    }

    /// C11: the close handle a leading fetch polls is the one `take` sets.
    #[kani::proof]
    #[kani::unwind(3)]
    fn lead_close_flag_is_set_by_take() {
        let mut m = VM::new();
        let hash: u64 = kani::any();
        let key: u8 = kani::any();
        let l = lead(&mut m, hash, &key);
        assert!(l.is_some(), "[first_caller_leads]");
        let (_id, close) = l.unwrap();
        assert!(!close.load(Ordering::Relaxed), "[fresh_lead_is_not_closed]");
        let taken = len_and_forget(m.take(hash, &key, None));
        assert!(taken.is_some(), "[insert_take_finds_the_entry]");
        assert!(taken == Some(1), "[take_returns_every_waiter]");
        assert!(close.load(Ordering::Relaxed), "[leader_close_flag_is_set_by_take]");
        assert!(len_and_forget(m.take(hash, &key, None)).is_none(), "[taken_entry_is_gone]");
        std::mem::forget(m);
    }

    /// C06: a later caller for the same key joins the leader's fetch (it waits, it does not start a second fetch), and
    /// whoever finishes the fetch gets every waiter back.
    #[kani::proof]
    #[kani::unwind(3)]
    fn later_caller_joins_the_leaders_fetch() {
        let mut m = VM::new();
        let hash: u64 = kani::any();
        let key: u8 = kani::any();
        let l = lead(&mut m, hash, &key);
        assert!(l.is_some(), "[first_caller_leads]");
        assert!(is_wait(&mut m, hash, &key), "[later_caller_of_the_same_key_waits_instead_of_fetching]");
        let t = len_and_forget(m.take(hash, &key, None));
        assert!(t == Some(2), "[take_returns_every_waiter]");
        std::mem::forget((m, l));
    }

    /// C06: a leader that has no fetch of its own and was donated none asks the table under its OWN id: it then takes its
    /// waiters (to answer them with the lookup result) and the entry is gone, closed; a foreign id gets nothing.
    #[kani::proof]
    #[kani::unwind(3)]
    fn leader_without_fetch_takes_its_waiters_by_its_own_id() {
        let mut m = VM::new();
        let hash: u64 = kani::any();
        let key: u8 = kani::any();
        let (id, close) = lead(&mut m, hash, &key).unwrap();
        let other: usize = kani::any();
        kani::assume(other != id);
        let r0 = m.fetch_or_take::<u8, ()>(hash, &key, other);
        assert!(r0.is_none(), "[fetch_or_take_with_a_foreign_id_gets_nothing]");
        assert!(!close.load(Ordering::Relaxed), "[foreign_id_does_not_close]");
        std::mem::forget(r0);
        let r = m.fetch_or_take::<u8, ()>(hash, &key, id);
        match r {
            Some(FetchOrTake::Notifiers(n)) => { assert!(n.len() == 1, "[leader_without_any_fetch_takes_every_waiter]"); std::mem::forget(n); }
            Some(FetchOrTake::Fetch(f)) => { assert!(false, "[no_fetch_was_donated_so_none_is_returned]"); std::mem::forget(f); }
            None => assert!(false, "[own_id_finds_its_registration]"),
        }
        assert!(close.load(Ordering::Relaxed), "[taking_the_waiters_closes_the_entry]");
        assert!(lead(&mut m, hash, &key).is_some(), "[entry_is_gone_so_the_next_caller_leads_again]");
        std::mem::forget(m); std::mem::forget(close);
    }

    /// id-guarded take (error / drop paths): a stale leader cannot take a newer registration.
    #[kani::proof]
    #[kani::unwind(3)]
    fn take_is_guarded_by_leader_id() {
        let mut m = VM::new();
        let hash: u64 = kani::any();
        let key: u8 = kani::any();
        let (id, close) = lead(&mut m, hash, &key).unwrap();
        let other: usize = kani::any();
        kani::assume(other != id);
        assert!(len_and_forget(m.take(hash, &key, Some(other))).is_none(), "[foreign_id_takes_nothing]");
        assert!(!close.load(Ordering::Relaxed), "[foreign_id_does_not_close]");
        assert!(is_wait(&mut m, hash, &key), "[entry_still_registered_after_foreign_take]");
        let t = len_and_forget(m.take(hash, &key, Some(id)));
        assert!(t == Some(2), "[own_id_takes_all_waiters]");
        assert!(close.load(Ordering::Relaxed), "[own_id_take_closes]");
        std::mem::forget(m); std::mem::forget(close);
    }

    /// C17: two distinct keys with the same 64-bit hash are two registrations.
    #[kani::proof]
    #[kani::unwind(4)]
    fn colliding_keys_are_separate_entries() {
        let mut m = VM::new();
        let hash: u64 = kani::any();
        let k1: u8 = kani::any();
        let k2: u8 = kani::any();
        kani::assume(k1 != k2);
        let a = lead(&mut m, hash, &k1);
        let b = lead(&mut m, hash, &k2);
        assert!(a.is_some() && b.is_some(), "[colliding_keys_both_lead]");
        let (ida, ca) = a.unwrap();
        let (idb, cb) = b.unwrap();
        assert!(ida != idb, "[lead_ids_are_fresh]");
        let first: bool = kani::any();
        let (kt, ko) = if first { (k1, k2) } else { (k2, k1) };
        let t1 = len_and_forget(m.take(hash, &kt, None));
        assert!(t1 == Some(1), "[take_returns_only_that_keys_waiters]");
        assert!(if first { ca.load(Ordering::Relaxed) && !cb.load(Ordering::Relaxed) } else { cb.load(Ordering::Relaxed) && !ca.load(Ordering::Relaxed) }, "[take_closes_only_that_keys_fetch]");
        assert!(is_wait(&mut m, hash, &ko), "[colliding_key_still_registered]");
        std::mem::forget(m); std::mem::forget(ca); std::mem::forget(cb);
    }

    /// C17 / C06 (quick): two different keys in flight, their 64-bit hashes equal or not: the second leads its own fetch (it does
    /// not join the other's), an insert of one key takes and closes that key's fetch only, and the other key's fetch stays
    /// registered and reachable. The table stand-in also checks hashbrown's contract for every re-hash closure it is given.
    #[kani::proof]
    #[kani::unwind(4)]
    fn colliding_key_leads_its_own_fetch() {
        let mut m = VM::new();
        let hash: u64 = kani::any();
        let hash2: u64 = if kani::any() { hash } else { !hash };
        let k1: u8 = kani::any();
        let k2: u8 = kani::any();
        kani::assume(k1 != k2);
        let a = lead(&mut m, hash, &k1);
        assert!(a.is_some(), "[first_caller_leads]");
        let b = lead(&mut m, hash2, &k2);
        assert!(b.is_some(), "[colliding_key_is_not_joined_to_the_other_keys_fetch]");
        // an insert of the SECOND registered key takes that key's fetch, not the first entry with the same hash
        let (_ida, ca) = a.unwrap();
        let (_idb, cb) = b.unwrap();
        let t = len_and_forget(m.take(hash2, &k2, None));
        assert!(t == Some(1), "[insert_of_one_key_takes_that_keys_waiters]");
        assert!(cb.load(Ordering::Relaxed) && !ca.load(Ordering::Relaxed), "[insert_of_one_key_closes_only_that_keys_fetch]");
        std::mem::forget((m, ca, cb));
    }

    /// C06 (thorough): taking one key's fetch leaves the fetch of another key registered and reachable
    #[kani::proof]
    #[kani::unwind(4)]
    fn other_keys_fetch_survives_a_take() {
        let mut m = VM::new();
        let hash: u64 = kani::any();
        let hash2: u64 = if kani::any() { hash } else { !hash };
        let k1: u8 = kani::any();
        let k2: u8 = kani::any();
        kani::assume(k1 != k2);
        let a = lead(&mut m, hash, &k1);
        let b = lead(&mut m, hash2, &k2);
        kani::assume(a.is_some() && b.is_some());
        let t = len_and_forget(m.take(hash2, &k2, None));
        kani::assume(t == Some(1));
        let t1 = len_and_forget(m.take(hash, &k1, None));
        assert!(t1 == Some(1), "[the_other_keys_fetch_stays_registered_and_reachable]");
        std::mem::forget((m, a, b));
    }

    #[kani::proof]
    #[kani::unwind(3)]
    fn canary_inflight_reaches_assertions() {
        let mut m = VM::new();
        let hash: u64 = kani::any();
        let key: u8 = kani::any();
        let l = lead(&mut m, hash, &key);
        assert!(l.is_none(), "[canary]");
        std::mem::forget(l); std::mem::forget(m);
    }

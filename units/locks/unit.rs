// UNIT locks — C16: user callbacks (event listener, weighter, filter, the pipe that leads to the disk tier's admission
// filter) are called only while no shard lock is held. The lifetime of every lock guard in the functions below is
// made explicit by rule lock-scope (guard binding + ghost counter `verif_locks`); every callback stand-in REQUIRES
// the counter to be zero at the call. Together with unit shard (every record that leaves the index under the lock is
// kept alive on the garbage list / in the returned handle, so no key/value destructor runs under the lock) this is the
// "garbage after the guard" discipline of RawCache. Not covered: lock ORDER between threads (schedules), the in-flight
// table mutex inside emplace, destructors run by `Arc` reference counting itself.
#![allow(unused_imports, unused_variables, dead_code, unused_mut, unused_must_use, unused_braces)]
use vstd::prelude::*;
verus! {

global size_of usize == 8;

//@item foyer-common/src/event.rs :: enum Event rules=derive-structural
//@item foyer-common/src/properties.rs :: enum Source rules=derive-structural

pub struct PropsT { }
impl PropsT { #[verifier::external_body] pub fn phantom(&self) -> Option<bool> { unimplemented!() } }
#[verifier::external_body]
pub fn verif_unwrap_or_default(o: Option<bool>) -> bool { unimplemented!() }
/// `Arc<Record<E>>`
pub struct RecT { }
impl RecT {
    #[verifier::external_body] pub fn key(&self) -> &u64 { unimplemented!() }
    #[verifier::external_body] pub fn value(&self) -> &u64 { unimplemented!() }
    #[verifier::external_body] pub fn hash(&self) -> u64 { unimplemented!() }
    #[verifier::external_body] pub fn clone(&self) -> RecT { unimplemented!() }
    #[verifier::external_body] pub fn dec_refs(&self, n: usize) -> usize { unimplemented!() }
    #[verifier::external_body] pub fn inc_refs(&self, n: usize) -> usize { unimplemented!() }
    #[verifier::external_body] pub fn refs(&self) -> usize { unimplemented!() }
    #[verifier::external_body] pub fn properties(&self) -> &PropsT { unimplemented!() }
}
//@item foyer-common/src/properties.rs :: enum Location rules=derive-structural
pub struct CachePropsT { }
impl CachePropsT {
    #[verifier::external_body] pub fn with_phantom(self, phantom: bool) -> CachePropsT { unimplemented!() }
    #[verifier::external_body] pub fn location(&self) -> Option<Location> { unimplemented!() }
}
/// `Arc::new(Record::new(Data { key, value, properties, hash, weight }))`
#[verifier::external_body]
pub fn verif_record(key: u64, value: u64, properties: CachePropsT, hash: u64, weight: usize) -> RecT { unimplemented!() }
pub struct Piece { }
impl Piece { #[verifier::external_body] pub fn new(r: RecT) -> Piece { unimplemented!() } }

// ---- user code: each call REQUIRES that no shard lock is held (the ghost argument is supplied mechanically by the
// `sub` rules of the regions below: `listener.on_leave(` -> `listener.on_leave(Ghost(verif_locks), ` etc.)
pub struct ListenerT { }
impl ListenerT {
    #[verifier::external_body]
    pub fn on_leave(&self, Ghost(locks): Ghost<int>, reason: Event, key: &u64, value: &u64)
        requires locks == 0, // @label listener_is_called_with_no_shard_lock_held
    { }
}
pub struct ListenerSlotT { }
impl ListenerSlotT {
    #[verifier::external_body] pub fn is_some(&self) -> bool { unimplemented!() }
    #[verifier::external_body] pub fn as_ref(&self) -> Option<&ListenerT> { unimplemented!() }
}
pub struct PipeT { }
impl PipeT {
    #[verifier::external_body] pub fn is_enabled(&self) -> bool { unimplemented!() }
    #[verifier::external_body] pub fn clone(&self) -> PipeT { unimplemented!() }
    /// leads to Store::enqueue and its user-supplied admission filter
    #[verifier::external_body]
    pub fn send(&self, Ghost(locks): Ghost<int>, piece: Piece)
        requires locks == 0, // @label pipe_is_called_with_no_shard_lock_held
    { }
    #[verifier::external_body]
    pub fn flush(&self, Ghost(locks): Ghost<int>, pieces: Vec<Piece>)
        requires locks == 0, // @label pipe_is_called_with_no_shard_lock_held
    { }
}
pub struct WeighterT { }
impl WeighterT {
    #[verifier::external_body]
    pub fn call(&self, Ghost(locks): Ghost<int>, key: &u64, value: &u64) -> usize
        requires locks == 0, // @label weighter_is_called_with_no_shard_lock_held
    { unimplemented!() }
}
pub struct FilterT { }
impl FilterT {
    #[verifier::external_body]
    pub fn call(&self, Ghost(locks): Ghost<int>, key: &u64, value: &u64) -> bool
        requires locks == 0, // @label filter_is_called_with_no_shard_lock_held
    { unimplemented!() }
}

// ---- the shard behind its lock: only the guard gives access to the shard methods
pub struct NotifierT { }
impl NotifierT { #[verifier::external_body] pub fn send(self, v: core::result::Result<Option<EntryT>, ()>) -> core::result::Result<(), ()> { unimplemented!() } }
pub struct EvictionT { }
impl EvictionT { #[verifier::external_body] pub fn update(&mut self, capacity: usize, config: Option<u8>) -> core::result::Result<(), ErrT> { unimplemented!() } }
pub struct ErrT { }
pub struct GuardT { pub capacity: usize, pub eviction: EvictionT }
impl GuardT {
    #[verifier::external_body] pub fn emplace(&mut self, record: RecT, garbages: &mut Vec<(Event, RecT)>, notifiers: &mut Vec<NotifierT>) { }
    #[verifier::external_body] pub fn evict(&mut self, target: usize, garbages: &mut Vec<(Event, RecT)>) { }
    #[verifier::external_body] pub fn remove(&mut self, hash: u64, key: &u64) -> Option<RecT> { unimplemented!() }
    #[verifier::external_body] pub fn clear(&mut self, garbages: &mut Vec<RecT>) { }
    #[verifier::external_body] pub fn get_noop(&self, hash: u64, key: &u64) -> Option<RecT> { unimplemented!() }
    #[verifier::external_body] pub fn get_immutable(&self, hash: u64, key: &u64) -> Option<RecT> { unimplemented!() }
    #[verifier::external_body] pub fn get_mutable(&mut self, hash: u64, key: &u64) -> Option<RecT> { unimplemented!() }
    #[verifier::external_body] pub fn release_immutable(&self, record: &RecT) { }
    #[verifier::external_body] pub fn release_mutable(&mut self, record: &RecT) { }
}
pub struct ShardLockT { }
impl ShardLockT {
    #[verifier::external_body] pub fn verif_lock_write(&self) -> GuardT { unimplemented!() }
    #[verifier::external_body] pub fn verif_lock_read(&self) -> GuardT { unimplemented!() }
    /// parking_lot::RwLock::try_write / try_read: None when the lock is busy (any other thread may hold it at any time)
    #[verifier::external_body] pub fn try_write(&self) -> Option<GuardT> { unimplemented!() }
    #[verifier::external_body] pub fn try_read(&self) -> Option<GuardT> { unimplemented!() }
}
pub struct HasherT { }
impl HasherT { #[verifier::external_body] pub fn hash_one(&self, key: &u64) -> u64 { unimplemented!() } }
pub struct InnerT { pub shards: Vec<ShardLockT>, pub event_listener: ListenerSlotT, pub weighter: WeighterT, pub filter: FilterT, pub hash_builder: HasherT }
impl InnerT { #[verifier::external_body] pub fn clone(&self) -> InnerRefT { unimplemented!() } }
pub struct InnerRefT { }
pub struct RawCacheEntry { pub pipe: PipeT, pub record: RecT, pub inner: InnerRefT, pub source: Source }
pub type EntryT = RawCacheEntry;
impl RawCacheEntry {
    #[verifier::external_body] pub fn key(&self) -> &u64 { unimplemented!() }
    #[verifier::external_body] pub fn value(&self) -> &u64 { unimplemented!() }
}
/// `shard.remove(hash, key).map(|record| RawCacheEntry { .. })` (closure): wraps the removed record into a handle
#[verifier::external_body]
pub fn verif_into_entry(c: &CacheT, r: Option<RecT>) -> Option<RawCacheEntry> { unimplemented!() }
/// `garbages.into_iter().map(|(_, record)| Piece::new(record)).collect_vec()`
#[verifier::external_body]
pub fn pieces_of(g: Vec<(Event, RecT)>) -> Vec<Piece> { unimplemented!() }
/// `shard.eviction.update(cap, None).inspect(|_| { shard.capacity = cap; shard.evict(cap, &mut garbages) })` under the lock
#[verifier::external_body]
pub fn verif_resize_locked(shard: &mut GuardT, cap: usize, garbages: &mut Vec<(Event, RecT)>) -> core::result::Result<(), ErrT> { unimplemented!() }
pub enum Op { Noop, Immutable(u8), Mutable(u8) }
#[verifier::external_body]
pub fn verif_release_op() -> Op { unimplemented!() }
#[verifier::external_body]
pub fn verif_acquire_op() -> Op { unimplemented!() }
pub struct CacheT { pub inner: InnerT, pub pipe: PipeT }
pub open spec fn shards_ok(c: &CacheT) -> bool { c.inner.shards@.len() > 0 }

impl CacheT {
    #[verifier::external_body]
    pub fn shard(&self, hash: u64) -> (r: usize) ensures r < self.inner.shards@.len() { unimplemented!() }

// ---- RawCache::insert_inner (whole): emplace under the shard lock, waiters / listener / pipe after it
//@region foyer-memory/src/raw.rs :: impl~^impl<E, S, I> RawCache<E, S, I> where/fn insert_inner name=insert_inner whole=1 rules=lock-scope,for-tuple-pattern sub=@listener\.on_leave\(@listener.on_leave(Ghost(verif_locks), @ sub=@self\.pipe\.send\(@self.pipe.send(Ghost(verif_locks), @
//@head
    fn insert_inner(&self, record: RecT, source: Source) -> (r: EntryT)
        requires shards_ok(self),
//@prologue
        let ghost mut verif_locks: int = 0;
//@loop 1 iter=it
            invariant verif_locks == 0, // @label no_shard_lock_is_held_while_waiters_listeners_and_pipe_are_served
//@loop 2 iter=it2
                invariant verif_locks == 0, // @label no_shard_lock_is_held_while_waiters_listeners_and_pipe_are_served
//@end

// ---- RawCache::insert_with_properties_inner (whole): weighter and filter run before any shard lock is taken
//@region foyer-memory/src/raw.rs :: impl~^impl<E, S, I> RawCache<E, S, I> where/fn insert_with_properties_inner name=insert_with_properties_inner whole=1 rules=lock-scope,let-chain sub=@\(self\.inner\.weighter\)\(@self.inner.weighter.call(Ghost(verif_locks), @ sub=@\(self\.inner\.filter\)\(@self.inner.filter.call(Ghost(verif_locks), @ sub=@(?s)Arc::new\(Record::new\(Data \{.*?\}\)\)@verif_record(key, value, properties, hash, weight)@
//@head
    fn insert_with_properties_inner(&self, key: u64, value: u64, mut properties: CachePropsT, source: Source) -> (r: EntryT)
        requires shards_ok(self),
//@prologue
        let ghost mut verif_locks: int = 0;
//@end

// ---- RawCache::evict_all (whole)
//@region foyer-memory/src/raw.rs :: impl~^impl<E, S, I> RawCache<E, S, I> where/fn evict_all name=evict_all whole=1 rules=lock-scope,for-tuple-pattern sub=@listener\.on_leave\(@listener.on_leave(Ghost(verif_locks), @ sub=@self\.pipe\.send\(@self.pipe.send(Ghost(verif_locks), @
//@head
    fn evict_all(&self)
//@prologue
        let ghost mut verif_locks: int = 0;
//@loop 1 iter=it
            invariant verif_locks == 0, // @label no_shard_lock_is_held_while_waiters_listeners_and_pipe_are_served
//@loop 2 iter=it2
                invariant verif_locks == 0, // @label no_shard_lock_is_held_while_waiters_listeners_and_pipe_are_served
//@end

// ---- RawCache::flush (whole)
//@region foyer-memory/src/raw.rs :: impl~^impl<E, S, I> RawCache<E, S, I> where/fn flush name=flush whole=1 rules=lock-scope,for-tuple-pattern,de-async sub=@listener\.on_leave\(@listener.on_leave(Ghost(verif_locks), @ sub=@self\.pipe\.flush\(@self.pipe.flush(Ghost(verif_locks), @ sub=@garbages\.into_iter\(\)\.map\(\|\(_, record\)\| Piece::new\(record\)\)\.collect_vec\(\)@pieces_of(garbages)@
//@head
    fn flush(&self)
//@prologue
        let ghost mut verif_locks: int = 0;
//@loop 1 iter=it
            invariant verif_locks == 0, // @label no_shard_lock_is_held_while_waiters_listeners_and_pipe_are_served
//@loop 2 iter=it2
                invariant verif_locks == 0, // @label no_shard_lock_is_held_while_waiters_listeners_and_pipe_are_served
//@end

// ---- RawCache::remove (whole): the record is removed and wrapped under the lock, the listener runs after it
//@region foyer-memory/src/raw.rs :: impl~^impl<E, S, I> RawCache<E, S, I> where/fn remove name=remove whole=1 rules=option-map,lock-scope,option-inspect sub=@listener\.on_leave\(@listener.on_leave(Ghost(verif_locks), @
//@head
    fn remove(&self, key: &u64) -> (r: Option<RawCacheEntry>)
        requires shards_ok(self),
//@prologue
        let ghost mut verif_locks: int = 0;
//@end
}

impl InnerT {
// ---- RawCacheInner::clear (whole): every shard is cleared under its own lock, the listener runs after all of them
//@region foyer-memory/src/raw.rs :: impl~^impl<E, S, I> RawCacheInner<E, S, I> where/fn clear name=clear whole=1 rules=guard-for-each,lock-scope sub=@listener\.on_leave\(@listener.on_leave(Ghost(verif_locks), @
//@head
    fn clear(&self)
//@prologue
        let ghost mut verif_locks: int = 0;
//@loop 1 iter=it
            invariant verif_locks == 0, // @label no_shard_lock_is_held_while_waiters_listeners_and_pipe_are_served
//@loop 2 iter=it2
                invariant verif_locks == 0, // @label no_shard_lock_is_held_while_waiters_listeners_and_pipe_are_served
//@end
}

// ---- RawCache::resize, body of the per-shard thread: capacity update + evict under the lock, dispatch after it
//@region foyer-memory/src/raw.rs :: impl~^impl<E, S, I> RawCache<E, S, I> where/fn resize name=resize_thread start=/std::thread::spawn\(move \|\| \{/ body=1 rules=result-inspect,lock-scope,for-tuple-pattern sub=@listener\.on_leave\(@listener.on_leave(Ghost(verif_locks), @ sub=@pipe\.send\(@pipe.send(Ghost(verif_locks), @
//@head
fn resize_thread(inner: &InnerT, pipe: &PipeT, i: usize, shard_capacity: usize) -> (r: core::result::Result<(), ErrT>)
    requires i < inner.shards@.len(),
//@prologue
    let ghost mut verif_locks: int = 0;
//@loop 1 iter=it
                            invariant verif_locks == 0, // @label no_shard_lock_is_held_while_waiters_listeners_and_pipe_are_served
//@end

// ---- Drop for RawCacheEntry (whole): phantom hand-off without any lock; release under the shard lock calls no user code
pub struct DropEntryT { pub pipe: PipeT, pub record: RecT, pub inner: InnerT, pub source: Source }
impl DropEntryT {
//@region foyer-memory/src/raw.rs :: impl~Drop for RawCacheEntry/fn drop name=entry_drop whole=1 rules=lock-scope sub=@listener\.on_leave\(@listener.on_leave(Ghost(verif_locks), @ sub=@self\.pipe\.send\(@self.pipe.send(Ghost(verif_locks), @ sub=@E::release\(\)@verif_release_op()@ sub=@\.release_immutable\(&self\.record\)@.release_immutable({ proof { verif_released = verif_released + 1; } &self.record })@ sub=@\.release_mutable\(&self\.record\)@.release_mutable({ proof { verif_released = verif_released + 1; } &self.record })@ sub=@if self\.record\.dec_refs\(1\) == 0 \{@if self.record.dec_refs(1) == 0 { proof { verif_last = true; }@ sub=@Op::Noop => \{\}@Op::Noop => { proof { verif_noop = true; } }@
//@head
    fn entry_drop(&mut self)
        requires old(self).inner.shards@.len() > 0,
//@prologue
        let ghost mut verif_locks: int = 0;
        let ghost mut verif_released: int = 0;
        let ghost mut verif_last: bool = false;
        let ghost mut verif_noop: bool = false;
//@tail
        // C18: the drop of the last handle of a resident (non-phantom) record gives the record back to the eviction container
        // exactly once -- unconditionally: under LRU that is what moves it from the pin list back to an evictable list
        proof { assert(verif_last && !verif_noop ==> verif_released == 1); } // @label the_last_drop_releases_the_record_exactly_once_whatever_else_holds_the_shard_lock
//@end
}

} // verus!

    // Executable restatement of the LOCKS contracts on the real RawCache (replay only): a listener that looks at the
    // shard locks of the cache it is registered on. It records instead of re-entering, so a violation shows up as a
    // finding, not as a deadlock. Prints `WITNESS <label> :: <input>`.
    use std::sync::{Mutex as StdMutex, OnceLock, Weak};
    use foyer_common::hasher::ModHasher;
    use crate::{
        eviction::{fifo::{Fifo, FifoConfig}, test_utils::TestProperties},
        indexer::hash_table::HashTableIndexer,
    };
    type E = Fifo<u64, u64, TestProperties>;
    type Inner = RawCacheInner<E, ModHasher, HashTableIndexer<E>>;
    #[derive(Default)]
    struct Probe { inner: OnceLock<Weak<Inner>>, under_lock: StdMutex<Vec<(Event, u64)>> }
    impl Probe {
        fn locked(&self) -> bool {
            self.inner.get().and_then(|w| w.upgrade()).map(|i| i.shards.iter().any(|s| s.is_locked())).unwrap_or(false)
        }
    }
    impl EventListener for Probe {
        type Key = u64;
        type Value = u64;
        fn on_leave(&self, reason: Event, key: &u64, _value: &u64) {
            if self.locked() { self.under_lock.lock().unwrap().push((reason, *key)); }
        }
    }

    #[test]
    fn verif_witness_locks() {
        let mut found: Vec<String> = vec![];
        let probe = Arc::new(Probe::default());
        let pw = probe.clone();
        let pf = probe.clone();
        let bad_callbacks = Arc::new(StdMutex::new(Vec::<&'static str>::new()));
        let (bw, bf) = (bad_callbacks.clone(), bad_callbacks.clone());
        let cache: RawCache<E, ModHasher, HashTableIndexer<E>> = RawCache::new(RawCacheConfig {
            capacity: 4, shards: 2, eviction_config: FifoConfig::default(), hash_builder: Default::default(),
            weighter: Arc::new(move |_, _| { if pw.locked() { bw.lock().unwrap().push("weighter"); } 1 }),
            filter: Arc::new(move |_, _| { if pf.locked() { bf.lock().unwrap().push("filter"); } true }),
            event_listener: Some(probe.clone()), metrics: Arc::new(Metrics::noop()),
        });
        probe.inner.set(Arc::downgrade(&cache.inner)).ok();
        let mut step = |name: &str, found: &mut Vec<String>| {
            let l = std::mem::take(&mut *probe.under_lock.lock().unwrap());
            if !l.is_empty() {
                found.push(format!("WITNESS listener_is_called_with_no_shard_lock_held :: fifo capacity=4 shards=2, after {name}: on_leave{l:?} ran while a shard lock was held (a re-entrant listener would deadlock)"));
            }
            let b = std::mem::take(&mut *bad_callbacks.lock().unwrap());
            if !b.is_empty() {
                found.push(format!("WITNESS weighter_is_called_with_no_shard_lock_held :: after {name}: {b:?} ran while a shard lock was held"));
            }
        };
        for k in 0..8u64 { cache.insert(k, k); }
        step("insert(0..8) [evictions]", &mut found);
        cache.insert(7, 70);
        step("insert(7) [replace]", &mut found);
        let r = cache.remove(&7);
        step("remove(7)", &mut found);
        drop(r);
        cache.resize(2).unwrap();
        step("resize(2)", &mut found);
        cache.evict_all();
        step("evict_all()", &mut found);
        for k in 10..13u64 { cache.insert(k, k); }
        cache.clear();
        step("insert(10..13); clear()", &mut found);
        for f in found.iter().take(3) { println!("{f}"); }
        println!("WITNESS-SEARCH-DONE found={}", found.len());
    }

// UNIT facade — `Cache` (foyer-memory/src/cache.rs) is an enum over the five algorithm instantiations of RawCache; its
// accounting getters must report the SAME quantity of whichever instantiation is inside (C05: usage() / entries() /
// capacity() are the property's observation points; unit shard proves what the inner getters' per-shard terms mean)
#![allow(unused_imports, unused_variables, dead_code, unused_mut)]
use vstd::prelude::*;
verus! {

/// one RawCache instantiation as seen by the facade: three independent quantities
pub struct RawT { pub cap: usize, pub usg: usize, pub ent: usize, pub shd: usize }
impl RawT {
    pub fn capacity(&self) -> (r: usize) ensures r == self.cap { self.cap }
    pub fn usage(&self) -> (r: usize) ensures r == self.usg { self.usg }
    pub fn entries(&self) -> (r: usize) ensures r == self.ent { self.ent }
    pub fn shards(&self) -> (r: usize) ensures r == self.shd { self.shd }
}
pub enum Cache { Fifo(RawT), S3Fifo(RawT), Lru(RawT), Lfu(RawT), Sieve(RawT) }
impl Cache {
    pub open spec fn raw(&self) -> RawT {
        match self { Cache::Fifo(c) => *c, Cache::S3Fifo(c) => *c, Cache::Lru(c) => *c, Cache::Lfu(c) => *c, Cache::Sieve(c) => *c }
    }
//@fn foyer-memory/src/cache.rs :: impl~^impl<K, V, S, P> Cache<K, V, S, P>/fn capacity ret=r
//@spec
        ensures r == self.raw().cap, // @label capacity_is_the_capacity_of_the_cache_inside_for_every_algorithm
//@end
//@fn foyer-memory/src/cache.rs :: impl~^impl<K, V, S, P> Cache<K, V, S, P>/fn usage ret=r
//@spec
        ensures r == self.raw().usg, // @label usage_is_the_usage_of_the_cache_inside_for_every_algorithm
//@end
//@fn foyer-memory/src/cache.rs :: impl~^impl<K, V, S, P> Cache<K, V, S, P>/fn entries ret=r
//@spec
        ensures r == self.raw().ent, // @label entries_is_the_entry_count_of_the_cache_inside_for_every_algorithm
//@end
//@fn foyer-memory/src/cache.rs :: impl~^impl<K, V, S, P> Cache<K, V, S, P>/fn shards ret=r
//@spec
        ensures r == self.raw().shd, // @label shards_is_the_shard_count_of_the_cache_inside
//@end
}

} // verus!

// UNIT facade — `Cache` (foyer-memory/src/cache.rs) is an enum over the five algorithm instantiations of RawCache; its
// accounting getters must report the SAME quantity of whichever instantiation is inside (C05: usage() / entries() /
// capacity() are the property's observation points; unit shard proves what the inner getters' per-shard terms mean)
#![allow(unused_imports, unused_variables, dead_code, unused_mut)]
use vstd::prelude::*;
use vstd::std_specs::iter::IteratorSpec;
verus! {

global size_of usize == 8;

/// one RawCache instantiation as seen by the facade: three independent quantities
pub struct RawT { pub cap: usize, pub usg: usize, pub ent: usize, pub shd: usize }
impl RawT {
    pub fn capacity(&self) -> (r: usize) ensures r == self.cap { self.cap }
    pub fn usage(&self) -> (r: usize) ensures r == self.usg { self.usg }
    pub fn entries(&self) -> (r: usize) ensures r == self.ent { self.ent }
    pub fn shards(&self) -> (r: usize) ensures r == self.shd { self.shd }
}
pub enum Cache { Fifo(RawT), S3Fifo(RawT), Lru(RawT), Lfu(RawT), Sieve(RawT) }
impl Cache {
    pub open spec fn raw(&self) -> RawT {
        match self { Cache::Fifo(c) => *c, Cache::S3Fifo(c) => *c, Cache::Lru(c) => *c, Cache::Lfu(c) => *c, Cache::Sieve(c) => *c }
    }
//@fn foyer-memory/src/cache.rs :: impl~^impl<K, V, S, P> Cache<K, V, S, P>/fn capacity ret=r
//@spec
        ensures r == self.raw().cap, // @label capacity_is_the_capacity_of_the_cache_inside_for_every_algorithm
//@end
//@fn foyer-memory/src/cache.rs :: impl~^impl<K, V, S, P> Cache<K, V, S, P>/fn usage ret=r
//@spec
        ensures r == self.raw().usg, // @label usage_is_the_usage_of_the_cache_inside_for_every_algorithm
//@end
//@fn foyer-memory/src/cache.rs :: impl~^impl<K, V, S, P> Cache<K, V, S, P>/fn entries ret=r
//@spec
        ensures r == self.raw().ent, // @label entries_is_the_entry_count_of_the_cache_inside_for_every_algorithm
//@end
//@fn foyer-memory/src/cache.rs :: impl~^impl<K, V, S, P> Cache<K, V, S, P>/fn shards ret=r
//@spec
        ensures r == self.raw().shd, // @label shards_is_the_shard_count_of_the_cache_inside
//@end
}


// ---- RawCache::usage / entries: the sum over ALL shards of that shard's usage / entry count (the iterator sum is written
// as the loop it is by rule iter-arg; `.sum()` panics on overflow, the precondition excludes it)
pub struct ShardViewT { pub usage: usize, pub entries: usize }
pub struct ShardLockT { pub v: ShardViewT }
impl ShardLockT { pub fn read(&self) -> (r: &ShardViewT) ensures *r == self.v { &self.v } }
pub struct InnerT { pub shards: Vec<ShardLockT> }
pub struct RawCacheT { pub inner: InnerT }
/// sum of the shards' usage from shard i on
pub open spec fn usage_from(s: Seq<ShardLockT>, i: int) -> nat decreases s.len() - i { if i < 0 || i >= s.len() { 0 } else { s[i].v.usage as nat + usage_from(s, i + 1) } }
pub open spec fn entries_from(s: Seq<ShardLockT>, i: int) -> nat decreases s.len() - i { if i < 0 || i >= s.len() { 0 } else { s[i].v.entries as nat + entries_from(s, i + 1) } }
pub fn verif_zero() -> (r: usize) ensures r == 0 { 0 }
impl RawCacheT {
//@fn foyer-memory/src/raw.rs :: impl~^impl<E, S, I> RawCache<E, S, I> where/fn usage ret=r rules=iter-arg
//@spec
        requires usage_from(self.inner.shards@, 0) <= usize::MAX,
        ensures r == usage_from(self.inner.shards@, 0), // @label usage_is_the_sum_of_the_usage_of_every_shard
//@loop 1 iter=it
            invariant
                it.snapshot@.remaining().len() == self.inner.shards@.len(),
                forall|i: int| 0 <= i < self.inner.shards@.len() ==> *(#[trigger] it.snapshot@.remaining()[i]) == self.inner.shards@[i],
                verif_s + usage_from(self.inner.shards@, it.index@ as int) == usage_from(self.inner.shards@, 0),
                usage_from(self.inner.shards@, 0) <= usize::MAX,
//@end
//@fn foyer-memory/src/raw.rs :: impl~^impl<E, S, I> RawCache<E, S, I> where/fn entries ret=r rules=iter-arg
//@spec
        requires entries_from(self.inner.shards@, 0) <= usize::MAX,
        ensures r == entries_from(self.inner.shards@, 0), // @label entries_is_the_sum_of_the_entry_count_of_every_shard
//@loop 1 iter=it
            invariant
                it.snapshot@.remaining().len() == self.inner.shards@.len(),
                forall|i: int| 0 <= i < self.inner.shards@.len() ==> *(#[trigger] it.snapshot@.remaining()[i]) == self.inner.shards@[i],
                verif_s + entries_from(self.inner.shards@, it.index@ as int) == entries_from(self.inner.shards@, 0),
                entries_from(self.inner.shards@, 0) <= usize::MAX,
//@end
}

} // verus!

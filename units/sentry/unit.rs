// UNIT sentry — Sentry<I>, the wrapper that keeps the IN_INDEXER flag of every record equal to "the wrapped index maps
// this record's key to this record" (C18: is_outdated() reads that flag; unit shard models the flag as index membership
// by rule flag-as-membership -- this unit is the justification of that rule for insert / remove / get).
// The flag lives in the record behind an atomic (`&self` setters); here the flags of all records are one ghost-viewed
// table passed alongside, and `r.set_in_indexer(b)` / `r.is_in_indexer()` become calls on it (mechanical `sub`s).
// Not covered: `drain` (a lazy iterator adapter: the flags are cleared only as far as the iterator is consumed).
#![allow(unused_imports, unused_variables, dead_code, unused_mut)]
use vstd::prelude::*;
verus! {

/// `Arc<Record<E>>`: identity (allocation) and key
#[derive(Clone, Copy)]
pub struct RecT { pub id: int_id, pub key: u64 }
#[derive(Clone, Copy, PartialEq, Eq, Structural)]
pub struct int_id { pub v: u64 }
/// IN_INDEXER flags of all records
pub struct FlagsT { pub set: Ghost<Set<int_id>> }
impl FlagsT {
    #[verifier::external_body]
    pub fn set_in_indexer(&mut self, r: &RecT, b: bool)
        ensures final(self).set@ == (if b { old(self).set@.insert(r.id) } else { old(self).set@.remove(r.id) }) { }
    #[verifier::external_body]
    pub fn is_in_indexer(&self, r: &RecT) -> (b: bool) ensures b == self.set@.contains(r.id) { unimplemented!() }
}
/// the wrapped index: key -> record (contract of HashTableIndexer: unit tables)
pub struct InnerIndexT { pub m: Ghost<Map<u64, RecT>> }
impl InnerIndexT {
    #[verifier::external_body]
    pub fn insert(&mut self, record: RecT) -> (r: Option<RecT>)
        ensures final(self).m@ == old(self).m@.insert(record.key, record),
            r == (if old(self).m@.contains_key(record.key) { Some(old(self).m@[record.key]) } else { None::<RecT> }),
    { unimplemented!() }
    #[verifier::external_body]
    pub fn remove(&mut self, hash: u64, key: &u64) -> (r: Option<RecT>)
        ensures final(self).m@ == old(self).m@.remove(*key),
            r == (if old(self).m@.contains_key(*key) { Some(old(self).m@[*key]) } else { None::<RecT> }),
    { unimplemented!() }
    #[verifier::external_body]
    pub fn get(&self, hash: u64, key: &u64) -> (r: Option<&RecT>)
        ensures r.is_some() == self.m@.contains_key(*key), r.is_some() ==> *r.unwrap() == self.m@[*key],
    { unimplemented!() }
}
/// the flag of a record is set exactly when the index maps its key to it (records of the index have their own keys and
/// distinct identities)
pub open spec fn flags_match(flags: Set<int_id>, m: Map<u64, RecT>) -> bool {
    &&& forall|k: u64| m.contains_key(k) ==> (#[trigger] m[k]).key == k && flags.contains(m[k].id)
    &&& forall|k1: u64, k2: u64| m.contains_key(k1) && m.contains_key(k2) && k1 != k2 ==> (#[trigger] m[k1]).id != (#[trigger] m[k2]).id
    &&& forall|i: int_id| flags.contains(i) ==> exists|k: u64| m.contains_key(k) && (#[trigger] m[k]).id == i
}
pub struct Sentry { pub indexer: InnerIndexT }
impl Sentry {
//@region foyer-memory/src/indexer/sentry.rs :: impl~^impl<I> Indexer for Sentry<I>/fn insert name=sentry_insert whole=1 rules=assert-eq,option-inspect sub=@(\w+)\.set_in_indexer\(@flags.set_in_indexer(&\1, @ sub=@(\w+)\.is_in_indexer\(\)@flags.is_in_indexer(&\1)@
//@head
    fn sentry_insert(&mut self, flags: &mut FlagsT, record: RecT) -> (r: Option<RecT>)
        requires flags_match(old(flags).set@, old(self).indexer.m@), !old(flags).set@.contains(record.id),
        ensures
            flags_match(final(flags).set@, final(self).indexer.m@), // @label in_indexer_flag_is_set_exactly_for_the_records_the_index_maps_to
            final(self).indexer.m@ == old(self).indexer.m@.insert(record.key, record),
            r == (if old(self).indexer.m@.contains_key(record.key) { Some(old(self).indexer.m@[record.key]) } else { None::<RecT> }),
            r matches Some(old_rec) ==> !final(flags).set@.contains(old_rec.id), // @label replaced_record_is_flagged_out_of_the_index
            final(flags).set@.contains(record.id), // @label inserted_record_is_flagged_in_the_index
//@prologue
        let ghost m0 = self.indexer.m@;
        let ghost f0 = flags.set@;
        let verif_r = {
//@tail
        };
        proof {
            let m1 = self.indexer.m@; let f1 = flags.set@;
            assert forall|k: u64| m1.contains_key(k) implies (#[trigger] m1[k]).key == k && f1.contains(m1[k].id) by {
                if k != record.key { assert(m0.contains_key(k) && m1[k] == m0[k]); assert(f0.contains(m0[k].id)); }
            }
            assert forall|i: int_id| f1.contains(i) implies exists|k: u64| m1.contains_key(k) && (#[trigger] m1[k]).id == i by {
                if i == record.id { assert(m1.contains_key(record.key) && m1[record.key].id == i); }
                else {
                    assert(f0.contains(i));
                    let k = choose|k: u64| m0.contains_key(k) && (#[trigger] m0[k]).id == i;
                    assert(k != record.key);
                    assert(m1.contains_key(k) && m1[k].id == i);
                }
            }
        }
        verif_r
//@end
//@region foyer-memory/src/indexer/sentry.rs :: impl~^impl<I> Indexer for Sentry<I>/fn remove name=sentry_remove whole=1 rules=assert-eq,option-inspect sub=@(\w+)\.set_in_indexer\(@flags.set_in_indexer(&\1, @ sub=@(\w+)\.is_in_indexer\(\)@flags.is_in_indexer(&\1)@
//@head
    fn sentry_remove(&mut self, flags: &mut FlagsT, hash: u64, key: &u64) -> (r: Option<RecT>)
        requires flags_match(old(flags).set@, old(self).indexer.m@),
        ensures
            flags_match(final(flags).set@, final(self).indexer.m@), // @label in_indexer_flag_is_set_exactly_for_the_records_the_index_maps_to
            final(self).indexer.m@ == old(self).indexer.m@.remove(*key),
            r matches Some(rec) ==> !final(flags).set@.contains(rec.id), // @label removed_record_is_flagged_out_of_the_index
//@prologue
        let ghost m0 = self.indexer.m@;
        let ghost f0 = flags.set@;
        let verif_r = {
//@tail
        };
        proof {
            let m1 = self.indexer.m@; let f1 = flags.set@;
            assert forall|k: u64| m1.contains_key(k) implies (#[trigger] m1[k]).key == k && f1.contains(m1[k].id) by {
                assert(m0.contains_key(k) && m1[k] == m0[k] && k != *key); assert(f0.contains(m0[k].id));
            }
            assert forall|i: int_id| f1.contains(i) implies exists|k: u64| m1.contains_key(k) && (#[trigger] m1[k]).id == i by {
                assert(f0.contains(i));
                let k = choose|k: u64| m0.contains_key(k) && (#[trigger] m0[k]).id == i;
                assert(k != *key);
                assert(m1.contains_key(k) && m1[k].id == i);
            }
        }
        verif_r
//@end
}

} // verus!

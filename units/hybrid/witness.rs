    // Executable restatement of HYBRID contracts on the real hybrid cache (replay only): the admission recorder
    // sees every Store::enqueue, i.e. every attempt to start a disk write.
    use foyer_storage::test_utils::{Record, Recorder};

    #[tokio::test]
    async fn verif_witness_hybrid() {
        let mut found: Vec<String> = vec![];
        const KB: usize = 1024;
        // (1) write-on-insertion: a memory hit through get_or_fetch must not enqueue again
        {
            let dir = tempfile::tempdir().unwrap();
            let recorder = Recorder::default();
            let hybrid = tests::open_with_for_witness(dir.path(), HybridCachePolicy::WriteOnInsertion, true, recorder.clone()).await;
            hybrid.insert(1, vec![1; 7 * KB]);
            hybrid.storage().wait().await;
            let before = recorder.dump().len();
            let _ = hybrid.get_or_fetch(&1, || async move { Ok::<_, Error>(vec![9; 7 * KB]) }).await.unwrap();
            hybrid.storage().wait().await;
            let after = recorder.dump();
            if after.len() != before {
                found.push(format!("WITNESS cache_hits_cause_no_disk_writes :: WriteOnInsertion: insert(1); get_or_fetch(1) [memory hit] => enqueues {:?}", after));
            }
        }
        // (1b) write-on-insertion: a DISK hit through get_or_fetch (memory copy gone) must not enqueue either
        {
            let dir = tempfile::tempdir().unwrap();
            let recorder = Recorder::default();
            let hybrid = tests::open_with_for_witness(dir.path(), HybridCachePolicy::WriteOnInsertion, true, recorder.clone()).await;
            hybrid.insert(1, vec![1; 7 * KB]);
            hybrid.storage().wait().await;
            hybrid.memory().remove(&1);
            let before = recorder.dump().len();
            let e = hybrid.get_or_fetch(&1, || async move { Ok::<_, Error>(vec![9; 7 * KB]) }).await.unwrap();
            hybrid.storage().wait().await;
            let after = recorder.dump();
            if e.source() != Source::Outer && after.len() != before {
                found.push(format!("WITNESS cache_hits_cause_no_disk_writes :: WriteOnInsertion: insert(1); memory.remove(1); get_or_fetch(1) [{:?} hit] => enqueues {:?}", e.source(), after));
            }
        }
        // (2) flush on close must skip entries advised in-memory-only
        {
            let dir = tempfile::tempdir().unwrap();
            let recorder = Recorder::default();
            let hybrid = tests::open_with_for_witness(dir.path(), HybridCachePolicy::WriteOnEviction, true, recorder.clone()).await;
            hybrid.insert_with_properties(2, vec![2; 7 * KB], HybridCacheProperties::default().with_location(Location::InMem));
            hybrid.insert_with_properties(3, vec![3; 7 * KB], HybridCacheProperties::default().with_location(Location::Default));
            hybrid.close().await.unwrap();
            let recs = recorder.dump();
            if recs.iter().any(|r| matches!(r, Record::Admit(2))) {
                found.push(format!("WITNESS flush_writes_every_resident_entry_once_except_in_memory_only :: WriteOnEviction, flush_on_close: insert(2, InMem); insert(3); close() => enqueues {:?}", recs));
            }
            if recs.iter().filter(|r| matches!(r, Record::Admit(3))).count() != 1 {
                found.push(format!("WITNESS flush_writes_every_resident_entry_once_except_in_memory_only :: entry 3 enqueued {:?}", recs));
            }
        }
        // (3) dropping the last copy without close() runs the same graceful close
        {
            let dir = tempfile::tempdir().unwrap();
            let recorder = Recorder::default();
            let hybrid = tests::open_with_for_witness(dir.path(), HybridCachePolicy::WriteOnEviction, true, recorder.clone()).await;
            hybrid.insert(4, vec![4; 7 * KB]);
            let store = hybrid.storage().clone();
            drop(hybrid);
            let mut flushed = false;
            for _ in 0..100 {
                if recorder.dump().iter().any(|r| matches!(r, Record::Admit(4))) { flushed = true; break; }
                tokio::time::sleep(std::time::Duration::from_millis(50)).await;
            }
            if !flushed {
                found.push(format!("WITNESS drop_without_close_flushes_memory_when_flush_on_close :: WriteOnEviction, flush_on_close: insert(4); drop(last copy) without close(); 5 s later the disk tier was offered {:?}", recorder.dump()));
            }
            store.wait().await;
        }
        // (4) a disk hit is not rewritten by its next eviction (its block is far from being reclaimed): device write counter,
        //     through get() and through get_or_fetch()
        for via_fetch in [false, true] {
            let dir = tempfile::tempdir().unwrap();
            let recorder = Recorder::default();
            let hybrid = tests::open_with_for_witness(dir.path(), HybridCachePolicy::WriteOnEviction, false, recorder.clone()).await;
            hybrid.insert(5, vec![5; 7 * KB]);
            hybrid.memory().evict_all();
            hybrid.storage().wait().await;
            let written = hybrid.statistics().disk_write_bytes();
            let age = if via_fetch {
                let e = hybrid.get_or_fetch(&5, || async move { Ok::<_, Error>(vec![0; 7 * KB]) }).await.unwrap();
                (e.source(), e.properties().age())
            } else {
                let e = hybrid.get(&5).await.unwrap().unwrap();
                (e.source(), e.properties().age())
            };
            hybrid.memory().evict_all();
            hybrid.storage().wait().await;
            let after = hybrid.statistics().disk_write_bytes();
            if written > 0 && after != written {
                let how = if via_fetch { "get_or_fetch(5)" } else { "get(5)" };
                let label = if age.1 != Age::Young { if via_fetch { "disk_hit_re_enters_memory_with_the_age_the_disk_tier_reported" } else { "disk_hit_re_enters_memory_with_the_age_the_disk_tier_reported" } } else { "just_loaded_young_entry_is_not_rewritten" };
                found.push(format!("WITNESS {label} :: WriteOnEviction: insert(5); evict_all [{written} bytes written]; {how} [{:?}, {:?}]; evict_all => {after} bytes written: the disk hit was written again", age.0, age.1));
            }
        }
        // (5) flush on close with several flushers: a resident set far below the submit-queue threshold and the flush buffer
        //     is written completely (close enqueues it in one go; nothing may be shed as "overload")
        {
            let dir = tempfile::tempdir().unwrap();
            let hybrid = tests::open_flushers_for_witness(dir.path(), 4).await;
            for k in 0..80u64 { hybrid.insert(k, vec![k as u8; 64 * KB]); }
            hybrid.close().await.unwrap();
            drop(hybrid);
            let hybrid = tests::open_flushers_for_witness(dir.path(), 4).await;
            let mut lost = vec![];
            for k in 0..80u64 { if hybrid.get(&k).await.unwrap().is_none() { lost.push(k); } }
            if !lost.is_empty() {
                found.push(format!("WITNESS admitted_write_is_submitted_once_with_a_fresh_sequence :: write-on-eviction, flush on close, 4 flushers, default submit-queue threshold and buffer pool: insert 80 entries of 64 KiB (5 MiB); close(); reopen => keys {:?} are not on disk", lost));
            }
            hybrid.close().await.unwrap();
        }
        for f in found.iter().take(3) { println!("{f}"); }
        println!("WITNESS-SEARCH-DONE found={}", found.len());
    }

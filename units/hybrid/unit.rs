// UNIT hybrid — which call sites may start a disk write (C12), graceful close (C15), key check after disk load (C01c, C17)
#![allow(unused_imports, unused_variables, dead_code, unused_mut)]
use vstd::prelude::*;
verus! {

global size_of usize == 8;

// =====================================================================================================
// extracted data types
// =====================================================================================================
//@item foyer-common/src/properties.rs :: enum Location rules=derive-structural
//@item foyer-common/src/properties.rs :: enum Age rules=derive-structural
//@item foyer-common/src/properties.rs :: enum Hint rules=derive-structural
//@item foyer-common/src/properties.rs :: enum Source rules=derive-structural
//@item foyer/src/hybrid/cache.rs :: enum HybridCachePolicy rules=derive-structural
//@item foyer/src/hybrid/cache.rs :: struct HybridCacheProperties rules=derive-clone-copy,pub-fields

impl HybridCacheProperties {
//@fn foyer/src/hybrid/cache.rs :: impl~^impl HybridCacheProperties$/fn location ret=r
//@spec
        ensures r == self.location, // @label location_getter_returns_the_advice
//@end
//@fn foyer/src/hybrid/cache.rs :: impl~^impl HybridCacheProperties$/fn age ret=r
//@spec
        ensures r == self.age, // @label age_getter
//@end
}

// =====================================================================================================
// PRELUDE: collaborators as sequential effect logs (they are Arc-shared handles behind &self in the real code)
// =====================================================================================================
#[derive(Debug)]
pub struct Error { pub e: u8 }
pub type Result<T> = core::result::Result<T, Error>;
#[derive(Clone, Copy)]
pub enum Ordering { Relaxed, Acquire, Release, SeqCst }

#[derive(Clone, Copy)]
pub struct PieceT { pub props: HybridCacheProperties, pub id: int }
impl PieceT {
    pub fn properties(&self) -> (r: &HybridCacheProperties) ensures *r == self.props { &self.props }
    #[verifier::external_body]
    pub fn key(&self) -> (r: &u64) { unimplemented!() }
    #[verifier::external_body]
    pub fn value(&self) -> (r: &u64) { unimplemented!() }
}
pub struct EntryT { pub props: HybridCacheProperties, pub src: Source, pub id: int }
impl EntryT {
    pub fn properties(&self) -> (r: &HybridCacheProperties) ensures *r == self.props { &self.props }
    pub fn source(&self) -> (r: Source) ensures r == self.src { self.src }
    pub fn piece(&self) -> (r: PieceT) ensures r.props == self.props, r.id == self.id { PieceT { props: self.props, id: self.id } }
}

/// the disk tier. `enqueue` is the ONLY way an entry starts its way to the device. Its precondition is property C12's
/// first sentence: an entry advised in-memory-only never reaches the disk.
pub struct StoreT { pub enabled: bool, pub enqueued: Ghost<Seq<PieceT>>, pub closes: Ghost<nat>, pub waits: Ghost<nat>,
    /// for every wait so far: how many pieces had been enqueued when the write queue was waited for (drained)
    pub drains: Ghost<Seq<nat>> }
impl StoreT {
    #[verifier::external_body]
    pub fn enqueue(&mut self, piece: PieceT, force: bool)
        requires piece.props.location != Location::InMem, // @label in_memory_only_entry_is_never_enqueued_to_disk
        ensures final(self).enqueued@ == old(self).enqueued@.push(piece), final(self).enabled == old(self).enabled,
            final(self).closes@ == old(self).closes@, final(self).waits@ == old(self).waits@, final(self).drains == old(self).drains,
    { }
    /// `store.wait().await`: returns when everything enqueued so far has been written
    #[verifier::external_body]
    pub fn wait(&mut self)
        ensures final(self).waits@ == old(self).waits@ + 1, final(self).drains@ == old(self).drains@.push(old(self).enqueued@.len()), final(self).enqueued == old(self).enqueued,
            final(self).enabled == old(self).enabled, final(self).closes == old(self).closes,
    { }
    #[verifier::external_body]
    pub fn device(&self) -> DeviceT { unimplemented!() }
    #[verifier::external_body]
    pub fn is_enabled(&self) -> (b: bool) ensures b == self.enabled { unimplemented!() }
    #[verifier::external_body]
    pub fn close(&mut self) -> (r: Result<()>)
        ensures final(self).closes@ == old(self).closes@ + 1, final(self).enqueued@ == old(self).enqueued@, final(self).enabled == old(self).enabled,
    { unimplemented!() }
    #[verifier::external_body]
    pub fn entry_estimated_size(&self, key: &u64, value: &u64) -> usize { unimplemented!() }
    pub fn clone(&self) -> StoreRefT { StoreRefT { } }
    pub fn spawner(&self) -> SpawnerT { SpawnerT { } }
}
pub struct MemT { pub flushes: Ghost<nat>, pub policy_piped: bool }
impl MemT {
    #[verifier::external_body]
    pub fn usage(&self) -> usize { unimplemented!() }
    pub fn clone(&self) -> MemRefT { MemRefT { } }
    #[verifier::external_body]
    pub fn flush(&mut self) ensures final(self).flushes@ == old(self).flushes@ + 1, { }
    /// memory insert without properties: default placement advice, source = Outer (RawCache::insert -> Default::default())
    #[verifier::external_body]
    pub fn insert(&mut self, key: u64, value: u64) -> (r: EntryT)
        ensures r.props.location == Location::Default, r.src == Source::Outer, final(self).flushes@ == old(self).flushes@,
    { unimplemented!() }
    #[verifier::external_body]
    pub fn insert_with_properties(&mut self, key: u64, value: u64, properties: HybridCacheProperties) -> (r: EntryT)
        ensures r.props.location == properties.location, r.src == Source::Outer, final(self).flushes@ == old(self).flushes@,
    { unimplemented!() }
}
pub struct FlagT { pub v: bool }
impl FlagT {
    #[verifier::external_body]
    pub fn fetch_or(&mut self, val: bool, o: Ordering) -> (r: bool) ensures r == old(self).v, final(self).v == (old(self).v || val) { unimplemented!() }
    #[verifier::external_body]
    pub fn load(&self, o: Ordering) -> (r: bool) ensures r == self.v { unimplemented!() }
    #[verifier::external_body]
    pub fn store(&mut self, val: bool, o: Ordering) ensures final(self).v == val { unimplemented!() }
    #[verifier::external_body]
    pub fn swap(&mut self, val: bool, o: Ordering) -> (r: bool) ensures r == old(self).v, final(self).v == val { unimplemented!() }
    #[verifier::external_body]
    pub fn fetch_and(&mut self, val: bool, o: Ordering) -> (r: bool) ensures r == old(self).v, final(self).v == (old(self).v && val) { unimplemented!() }
    /// Arc::clone of the shared flag: a second handle on the SAME flag (see `inner_drop`)
    pub fn clone(&self) -> FlagRefT { FlagRefT { } }
}
pub struct FlagRefT { }
pub struct MemRefT { }
pub struct StoreRefT { }
pub struct NameT { }
impl NameT { pub fn clone(&self) -> NameT { NameT { } } }
pub struct SpawnerT { }
impl SpawnerT {
    /// the runtime is trusted to run a spawned task to completion; with rule de-async the task body is evaluated in
    /// place (eagerly) and its value handed to `spawn`
    pub fn spawn<T>(&self, task: T) { }
}
pub struct Instant { pub t: u64 }
pub struct Duration { pub d: u64 }
impl Instant {
    #[verifier::external_body] pub fn now() -> Instant { unimplemented!() }
    #[verifier::external_body] pub fn elapsed(&self) -> Duration { unimplemented!() }
}
impl Duration {
    #[verifier::external_body] pub fn is_zero(&self) -> bool { unimplemented!() }
}
pub struct DeviceT { }
/// `device.statistics().throttle().write_throughput.map(|v| RateLimiter::new(v.get() as _))`
#[verifier::external_body]
pub fn verif_throttler(d: &DeviceT) -> Option<RateLimiter> { unimplemented!() }
pub struct RateLimiter { pub r: u64 }
impl RateLimiter {
    #[verifier::external_body] pub fn consume(&self, weight: usize) -> Duration { unimplemented!() }
}
pub struct tokio_time { }
#[verifier::external_body] pub fn verif_sleep(d: Duration) { }

// =====================================================================================================
// C12: eviction pipe
// =====================================================================================================
pub struct HybridCachePipe { pub store: StoreT }
impl HybridCachePipe {
//@region foyer/src/hybrid/cache.rs :: impl~Pipe for HybridCachePipe/fn send name=pipe_send whole=1
//@head
    fn pipe_send(&mut self, piece: PieceT)
        ensures
            piece.props.location == Location::InMem ==> final(self).store.enqueued@ == old(self).store.enqueued@, // @label evicted_in_memory_only_entry_not_written
            piece.props.location != Location::InMem ==> final(self).store.enqueued@ == old(self).store.enqueued@.push(piece), // @label capacity_eviction_is_written_to_disk
//@end
}

// flush at close: every piece not advised in-memory-only is enqueued exactly once, in order; in-memory-only ones never
pub open spec fn on_disk_pieces(p: Seq<PieceT>) -> Seq<PieceT>
    decreases p.len()
{
    if p.len() == 0 { Seq::empty() } else {
        let q = on_disk_pieces(p.drop_last());
        if p.last().props.location != Location::InMem { q.push(p.last()) } else { q }
    }
}
pub proof fn lemma_on_disk_push(p: Seq<PieceT>, x: PieceT)
    ensures on_disk_pieces(p.push(x)) == (if x.props.location != Location::InMem { on_disk_pieces(p).push(x) } else { on_disk_pieces(p) }),
{
    assert(p.push(x).drop_last() =~= p);
}
//@region foyer/src/hybrid/cache.rs :: impl~Pipe for HybridCachePipe/fn flush name=pipe_flush start=/let store = / body=1 rules=de-async sub=@bytes as _@bytes@ sub=@tokio::time::sleep\(wait\)@verif_sleep(wait)@ sub=@(?s)let throttler = .*?;@let throttler = verif_throttler(&device);@
//@head
fn pipe_flush(store: &mut StoreT, pieces: Vec<PieceT>)
    ensures
        final(store).enqueued@ == old(store).enqueued@ + on_disk_pieces(pieces@), // @label flush_writes_every_resident_entry_once_except_in_memory_only
        // the write queue is drained BEFORE the resident set is enqueued (the close-time burst must meet an empty queue: the
        // engine sheds writes beyond its queue threshold), not merely afterwards
        exists|i: int| old(store).drains@.len() <= i < final(store).drains@.len() && #[trigger] final(store).drains@[i] == old(store).enqueued@.len(), // @label write_queue_is_drained_before_the_resident_set_is_enqueued
//@loop 1 iter=it
                invariant
                    store.enqueued@ == old(store).enqueued@ + on_disk_pieces(pieces@.subrange(0, it.index@ as int)),
                    store.drains@.len() > old(store).drains@.len(), store.drains@[old(store).drains@.len() as int] == old(store).enqueued@.len(),
//@before /\/\/ Entries advised in-memory-only never reach the disk cache/
                proof {
                    assert(pieces@.subrange(0, it.index@ + 1) =~= pieces@.subrange(0, it.index@ as int).push(piece));
                    lemma_on_disk_push(pieces@.subrange(0, it.index@ as int), piece);
                }
//@tail
    proof { assert(pieces@.subrange(0, pieces@.len() as int) == pieces@); }
//@end

// =====================================================================================================
// C12: insert paths
// =====================================================================================================
pub struct InnerT { pub policy: HybridCachePolicy, pub memory: MemT, pub storage: StoreT }
pub struct HybridT { pub inner: InnerT }
impl HybridT {
//@region foyer/src/hybrid/cache.rs :: impl~^impl<K, V, S> HybridCache<K, V, S> where/fn insert name=hybrid_insert start=/let entry = self\.inner\.memory\.insert\b/ stmts=2
//@head
    fn hybrid_insert(&mut self, key: u64, value: u64) -> (r: EntryT)
        ensures
            final(self).inner.policy == old(self).inner.policy,
            old(self).inner.policy == HybridCachePolicy::WriteOnInsertion ==> final(self).inner.storage.enqueued@ == old(self).inner.storage.enqueued@.push(PieceT { props: r.props, id: r.id }), // @label write_on_insertion_insert_is_written_at_once
            old(self).inner.policy == HybridCachePolicy::WriteOnEviction ==> final(self).inner.storage.enqueued@ == old(self).inner.storage.enqueued@, // @label write_on_eviction_insert_writes_nothing
//@tail
        entry
//@end

//@region foyer/src/hybrid/cache.rs :: impl~^impl<K, V, S> HybridCache<K, V, S> where/fn insert_with_properties name=hybrid_insert_with_properties start=/let entry = self\.inner\.memory\.insert_with_properties\(/ stmts=2
//@head
    fn hybrid_insert_with_properties(&mut self, key: u64, value: u64, properties: HybridCacheProperties) -> (r: EntryT)
        ensures
            final(self).inner.policy == old(self).inner.policy,
            r.props.location == properties.location,
            old(self).inner.policy == HybridCachePolicy::WriteOnInsertion && properties.location != Location::InMem ==>
                final(self).inner.storage.enqueued@ == old(self).inner.storage.enqueued@.push(PieceT { props: r.props, id: r.id }), // @label write_on_insertion_insert_is_written_at_once
            old(self).inner.policy == HybridCachePolicy::WriteOnEviction || properties.location == Location::InMem ==>
                final(self).inner.storage.enqueued@ == old(self).inner.storage.enqueued@, // @label nothing_written_under_write_on_eviction_or_in_memory_only
//@tail
        entry
//@end
}

// =====================================================================================================
// C12: post-fetch enqueue in HybridGetOrFetch::poll — only a fresh origin fetch is written, hits write nothing
// =====================================================================================================
pub struct CtxT { pub throttled: FlagT }
pub struct PollT { pub policy: HybridCachePolicy, pub store: StoreT, pub ctx: CtxT }
//@region foyer/src/hybrid/cache.rs :: impl~Future for HybridGetOrFetch/fn poll name=get_or_fetch_post_enqueue start=/if let Ok\(entry\) = res\.as_ref\(\)/ stmts=1 rules=let-chain sub=@\*this\.policy@this.policy@
//@head
fn get_or_fetch_post_enqueue(this: &mut PollT, res: &Result<EntryT>)
    ensures
        final(this).policy == old(this).policy,
        // hits (memory or disk) and errors cause no disk write
        !(res.is_ok() && res.unwrap().src == Source::Outer) ==> final(this).store.enqueued@ == old(this).store.enqueued@, // @label cache_hits_cause_no_disk_writes
        // an origin fetch is written exactly when policy / advice / switches say so
        res.is_ok() && res.unwrap().src == Source::Outer ==> (
            if res.unwrap().props.location != Location::InMem && old(this).policy == HybridCachePolicy::WriteOnInsertion
                && old(this).store.enabled && !old(this).ctx.throttled.v
            { final(this).store.enqueued@ == old(this).store.enqueued@.push(PieceT { props: res.unwrap().props, id: res.unwrap().id }) }
            else { final(this).store.enqueued@ == old(this).store.enqueued@ }), // @label origin_fetch_written_iff_write_on_insertion_and_not_in_memory_only
//@end

// =====================================================================================================
// C12: what a disk hit turns into (HybridCache::get and ::get_or_fetch, disk-load closures): the entry re-enters memory
// with the AGE the disk tier reported (Young / Old), default placement advice, not phantom -- the engine skips Young
// entries on their next eviction (store.engine_enqueue), so a disk hit is rewritten only when its block is about to be
// reclaimed (Old). A throttled load sets the context flag and is a miss for this step.
// =====================================================================================================
impl HybridCacheProperties {
    /// `#[derive(Default)]`: field defaults; the enum defaults come from the extracted `#[default]` variants
    pub fn default() -> (r: Self)
        ensures !r.phantom, r.location == Location::Default, r.age == Age::Fresh, // @label default_properties_are_default_advice_and_fresh
    { HybridCacheProperties { phantom: false, hint: Hint::default(), location: Location::default(), age: Age::default() } }
    /// `fn with_age(mut self, age) -> Self { self.age = age; self }` (`mut self` parameters are outside the Verus subset)
    pub fn with_age(self, age: Age) -> (r: Self)
        ensures r.age == age, r.phantom == self.phantom, r.hint == self.hint, r.location == self.location,
    { let mut s = self; s.age = age; s }
    pub fn with_location(self, location: Location) -> (r: Self)
        ensures r.location == location, r.phantom == self.phantom, r.hint == self.hint, r.age == self.age,
    { let mut s = self; s.location = location; s }
}
//@item foyer-storage/src/engine/mod.rs :: struct Populated rules=derive-clone-copy,pub-fields
pub enum Load { Entry { key: u64, value: u64, populated: Populated }, Piece { piece: PieceT, populated: Populated }, Throttled, Miss }
pub enum FetchTarget { Entry { value: u64, properties: HybridCacheProperties }, Piece(PieceT) }
pub struct LoadStoreT { pub answer: Result<Load> }
impl LoadStoreT {
    #[verifier::external_body]
    pub fn load(&self, key: &u64) -> (r: Result<Load>) ensures r == self.answer { unimplemented!() }
}
pub open spec fn disk_hit_target(answer: Result<Load>, r: Result<Option<FetchTarget>>) -> bool {
    match answer {
        Ok(Load::Entry { key, value, populated }) => r matches Ok(Some(FetchTarget::Entry { value: v, properties: p }))
            && v == value && p.age == populated.age && p.location == Location::Default && !p.phantom,
        Ok(Load::Piece { piece, populated }) => r matches Ok(Some(FetchTarget::Piece(q))) && q == piece,
        Ok(Load::Throttled) => r matches Ok(None),
        Ok(Load::Miss) => r matches Ok(None),
        Err(e) => r is Err,
    }
}
//@region foyer/src/hybrid/cache.rs :: impl~^impl<K, V, S> HybridCache<K, V, S> where/fn get name=get_disk_hit start=/match store\.load\(&key\)\.await \{/ stmts=1 rules=de-async
//@head
fn get_disk_hit(store: &LoadStoreT, key: u64, ctx: &mut CtxT) -> (r: Result<Option<FetchTarget>>)
    ensures
        disk_hit_target(store.answer, r), // @label disk_hit_re_enters_memory_with_the_age_the_disk_tier_reported
        final(ctx).throttled.v == (old(ctx).throttled.v || store.answer matches Ok(Load::Throttled)), // @label throttled_load_sets_the_context_flag
//@end
//@region foyer/src/hybrid/cache.rs :: impl~^impl<K, V, S> HybridCache<K, V, S> where/fn get_or_fetch name=get_or_fetch_disk_hit start=/let load = / stmts=3 rules=de-async,drop-tracing
//@head
fn get_or_fetch_disk_hit(store: &LoadStoreT, key: u64, ctx: &mut CtxT) -> (r: Result<Option<FetchTarget>>)
    ensures
        disk_hit_target(store.answer, r), // @label disk_hit_re_enters_memory_with_the_age_the_disk_tier_reported
        final(ctx).throttled.v == (old(ctx).throttled.v || store.answer matches Ok(Load::Throttled)), // @label throttled_load_sets_the_context_flag
//@end

// =====================================================================================================
// C01: HybridCache::remove and ::clear reach BOTH tiers unconditionally: remove takes the key out of memory and always
// tells the disk tier to delete it (the disk tier orders the delete against writes still in its queue by sequence; a
// "is it on disk?" pre-check would miss exactly those); clear clears memory and destroys the disk content.
// =====================================================================================================
pub struct RemMemT { pub removed: Ghost<Seq<u64>>, pub clears: Ghost<nat> }
impl RemMemT {
    #[verifier::external_body] pub fn remove(&mut self, key: &u64) -> Option<EntryT> ensures final(self).removed@ == old(self).removed@.push(*key), final(self).clears == old(self).clears { unimplemented!() }
    #[verifier::external_body] pub fn contains(&self, key: &u64) -> bool { unimplemented!() }
    #[verifier::external_body] pub fn clear(&mut self) ensures final(self).clears@ == old(self).clears@ + 1, final(self).removed == old(self).removed { }
}
pub struct RemStoreT { pub deleted: Ghost<Seq<u64>>, pub destroys: Ghost<nat> }
impl RemStoreT {
    #[verifier::external_body] pub fn delete(&mut self, key: &u64) ensures final(self).deleted@ == old(self).deleted@.push(*key), final(self).destroys == old(self).destroys { }
    #[verifier::external_body] pub fn may_contains(&self, key: &u64) -> bool { unimplemented!() }
    #[verifier::external_body] pub fn destroy(&mut self) -> (r: Result<()>) ensures final(self).destroys@ == old(self).destroys@ + 1, final(self).deleted == old(self).deleted { unimplemented!() }
}
pub struct RemInnerT { pub memory: RemMemT, pub storage: RemStoreT }
pub struct RemHybridT { pub inner: RemInnerT }
impl RemHybridT {
//@region foyer/src/hybrid/cache.rs :: impl~^impl<K, V, S> HybridCache<K, V, S> where/fn remove name=hybrid_remove start=/let now = / stmts=99 rules=drop-metrics,drop-tracing subopt=@try_cancel!\([^;]*\);@@
//@head
    fn hybrid_remove(&mut self, key: &u64)
        ensures
            final(self).inner.memory.removed@ == old(self).inner.memory.removed@.push(*key), // @label remove_takes_the_key_out_of_memory
            final(self).inner.storage.deleted@ == old(self).inner.storage.deleted@.push(*key), // @label remove_always_tells_the_disk_tier_to_delete_the_key
//@end
//@region foyer/src/hybrid/cache.rs :: impl~^impl<K, V, S> HybridCache<K, V, S> where/fn clear name=hybrid_clear whole=1 rules=de-async
//@head
    fn hybrid_clear(&mut self) -> (r: Result<()>)
        ensures
            final(self).inner.memory.clears@ == old(self).inner.memory.clears@ + 1, // @label clear_clears_memory
            final(self).inner.storage.destroys@ == old(self).inner.storage.destroys@ + 1, // @label clear_destroys_the_disk_content
//@end
}

// =====================================================================================================
// C15: graceful close
// =====================================================================================================
//@region foyer/src/hybrid/cache.rs :: impl~^impl<K, V, S> Inner<K, V, S> where/fn close_inner name=close_inner start=/if closed\.fetch_or\(/ stmts=4 rules=drop-tracing,de-async
//@head
fn close_inner(closed: &mut FlagT, memory: &mut MemT, storage: &mut StoreT, flush_on_close: bool) -> (r: Result<()>)
    ensures
        final(closed).v, // @label closed_after_close
        old(closed).v ==> r.is_ok() && final(memory).flushes@ == old(memory).flushes@ && final(storage).closes@ == old(storage).closes@, // @label second_close_has_no_effects
        !old(closed).v && flush_on_close ==> final(memory).flushes@ == old(memory).flushes@ + 1, // @label close_flushes_memory_when_flush_on_close
        !old(closed).v && !flush_on_close ==> final(memory).flushes@ == old(memory).flushes@, // @label nothing_flushed_when_flush_on_close_disabled
        !old(closed).v ==> final(storage).closes@ == old(storage).closes@ + 1, // @label close_always_closes_the_store
        final(storage).enqueued@ == old(storage).enqueued@, // @label close_itself_enqueues_nothing
//@tail
    Ok(())
//@end

// C15: the last copy dropped WITHOUT an explicit close: Drop for Inner spawns the same close_inner on clones of the shared
// flag / memory / store. Arc clones denote the same objects, so the extracted call is rewritten (sub) to borrow the
// fields the clones alias; the callee seen here is the contract of `close_inner` above, not its body.
pub struct DropInnerT { pub name: NameT, pub closed: FlagT, pub memory: MemT, pub storage: StoreT, pub flush_on_close: bool }
impl DropInnerT {
//@region foyer/src/hybrid/cache.rs :: impl~^impl<K, V, S> Drop for Inner<K, V, S>/fn drop name=inner_drop whole=1 rules=drop-tracing,de-async sub=@Self::close_inner\((\w+), (\w+), (\w+), ([^()]*)\)@close_inner(verif_same(\1, &mut self.closed), verif_same_mem(\2, &mut self.memory), verif_same_store(\3, &mut self.storage), \4)@
//@head
    fn inner_drop(&mut self)
        ensures
            final(self).closed.v, // @label closed_after_last_drop
            !old(self).closed.v && old(self).flush_on_close ==> final(self).memory.flushes@ == old(self).memory.flushes@ + 1, // @label drop_without_close_flushes_memory_when_flush_on_close
            !old(self).closed.v ==> final(self).storage.closes@ == old(self).storage.closes@ + 1, // @label drop_without_close_closes_the_store
            old(self).closed.v ==> final(self).memory.flushes@ == old(self).memory.flushes@ && final(self).storage.closes@ == old(self).storage.closes@, // @label drop_after_close_has_no_further_effects
            final(self).storage.enqueued@ == old(self).storage.enqueued@,
//@end
}
pub fn verif_same<'a>(h: FlagRefT, t: &'a mut FlagT) -> (r: &'a mut FlagT) ensures *r == *old(t), *final(r) == *final(t) { t }
pub fn verif_same_mem<'a>(h: MemRefT, t: &'a mut MemT) -> (r: &'a mut MemT) ensures *r == *old(t), *final(r) == *final(t) { t }
pub fn verif_same_store<'a>(h: StoreRefT, t: &'a mut StoreT) -> (r: &'a mut StoreT) ensures *r == *old(t), *final(r) == *final(t) { t }

// =====================================================================================================
// C12: pipe installed only for write-on-eviction over a real store
// =====================================================================================================
pub struct BuilderT { pub noop: bool }
impl BuilderT { pub fn is_noop(&self) -> (b: bool) ensures b == self.noop { self.noop } }
pub struct OptionsT { pub policy: HybridCachePolicy }
pub struct BuildSelfT { pub options: OptionsT }
//@region foyer/src/hybrid/builder.rs :: impl~HybridCacheBuilderPhaseStorage/fn build name=build_piped start=/let piped = / stmts=1 sub=@self\.options@this.options@
//@head
fn build_piped(builder: &BuilderT, this: &BuildSelfT) -> (r: bool)
    ensures r == (!builder.noop && this.options.policy == HybridCachePolicy::WriteOnEviction), // @label evictions_are_piped_to_disk_iff_write_on_eviction_over_a_real_store
//@tail
    piped
//@end

// =====================================================================================================
// C12: storage writer (disk-only insert): skipped when not admitted and not forced; otherwise inserted as a PHANTOM
// (not retained in memory, handed to the disk tier when the handle drops)
// =====================================================================================================
impl HybridCacheProperties {
    /// HybridCacheProperties::with_phantom (`mut self` setter, not extractable): sets only the phantom flag
    #[verifier::external_body]
    pub fn with_phantom(self, phantom: bool) -> (r: Self)
        ensures r.phantom == phantom, r.location == self.location, r.hint == self.hint, r.age == self.age,
    { unimplemented!() }
}
#[derive(Clone, Copy)]
pub enum StorageFilterResult { Admit, Reject, Throttled(u64) }
impl StorageFilterResult { pub fn is_admitted(&self) -> (r: bool) ensures r == (*self is Admit) { matches!(self, StorageFilterResult::Admit) } }
pub struct HistT { pub h: u8 }
impl HistT { #[verifier::external_body] pub fn record(&self, v: u64) { } }
pub struct CtrT { pub c: u8 }
impl CtrT { #[verifier::external_body] pub fn increase(&self, v: u64) { } }
pub struct WMetricsT { pub hybrid_insert: CtrT, pub hybrid_insert_duration: HistT }
pub struct WHybridT { pub inserted: Ghost<Seq<(u64, HybridCacheProperties)>>, pub m: WMetricsT }
impl WHybridT {
    #[verifier::external_body]
    pub fn insert_with_properties(&mut self, key: u64, value: u64, properties: HybridCacheProperties) -> (r: EntryT)
        ensures final(self).inserted@ == old(self).inserted@.push((key, properties)), r.props == properties,
    { unimplemented!() }
    pub fn metrics(&self) -> (r: &WMetricsT) { &self.m }
}
pub struct ValT { pub v: u64 }
pub struct WriterT { pub hybrid: WHybridT, pub key: u64, pub hash: u64, pub force: bool, pub filter_result: Option<StorageFilterResult>, pub admit: Ghost<bool> }
impl WriterT {
    /// may_pick: the cached or fresh verdict of the admission filter for this key
    #[verifier::external_body]
    fn may_pick(&mut self, estimated_size: usize) -> (r: StorageFilterResult)
        ensures (r is Admit) == old(self).admit@, final(self).hybrid == old(self).hybrid, final(self).key == old(self).key, final(self).force == old(self).force, final(self).admit == old(self).admit,
    { unimplemented!() }
    #[verifier::external_body] fn verif_est(&self, value: &u64) -> (r: usize) { unimplemented!() }

//@region foyer/src/hybrid/writer.rs :: impl~^impl<K, V, S> HybridCacheStorageWriter<K, V, S> where/fn insert_inner name=writer_insert whole=1 rules=drop-metrics sub=@self\.key\.estimated_size\(\) \+ value\.estimated_size\(\)@self.verif_est(&value)@ sub=@let now = Instant::now\(\);@@
//@head
    fn writer_insert(&mut self, value: u64, properties: HybridCacheProperties) -> (r: Option<EntryT>)
        ensures
            !old(self).force && !old(self).admit@ ==> r is None && final(self).hybrid.inserted@ == old(self).hybrid.inserted@, // @label rejected_writer_insert_writes_nothing
            old(self).force || old(self).admit@ ==> r is Some
                && final(self).hybrid.inserted@ == old(self).hybrid.inserted@.push((old(self).key, HybridCacheProperties { phantom: true, hint: properties.hint, location: properties.location, age: properties.age })), // @label disk_only_insert_is_a_phantom_with_the_given_advice
//@end
}

} // verus!

    // Executable restatement of the COMPRESS contracts on the real serializer (replay only): whatever
    // EntrySerializer::serialize(key, value, compression, ..) wrote is read back by EntryDeserializer::deserialize(..,
    // compression, ..) with the SAME compression tag as the same key and value, for every compression mode and for small
    // and large values. Prints `WITNESS <label> :: <input>`.
    #[test]
    fn verif_witness_compress() {
        let mut found: Vec<String> = vec![];
        for compression in [Compression::None, Compression::Zstd, Compression::Lz4] {
            for len in [0usize, 1, 7, 16, 55, 56, 63, 64, 65, 200, 3000, 70000] {
                let key: u64 = 42;
                let value: Vec<u8> = (0..len).map(|i| (i * 7 % 251) as u8).collect();
                let mut buf: Vec<u8> = vec![];
                let info = match EntrySerializer::serialize(&key, &value, compression, &mut buf) {
                    Ok(i) => i,
                    Err(e) => { found.push(format!("WITNESS the_value_is_written_through_the_codec_the_caller_named_and_nothing_else :: serialize(u64 key, Vec<u8> of {len} bytes, {compression:?}) failed: {e}")); continue; }
                };
                let res = std::panic::catch_unwind(|| EntryDeserializer::deserialize::<u64, Vec<u8>>(&buf, info.key_len, info.value_len, compression, None));
                let ok = matches!(&res, Ok(Ok((k, v))) if *k == key && *v == value);
                if !ok {
                    let what = match res { Ok(Ok(_)) => "another key / value".to_string(), Ok(Err(e)) => format!("error: {e}"), Err(_) => "panic".to_string() };
                    found.push(format!("WITNESS the_value_is_written_through_the_codec_the_caller_named_and_nothing_else :: serialize(u64 key, Vec<u8> of {len} bytes, {compression:?}) then deserialize(.., {compression:?}) gives {what}"));
                }
            }
        }
        for f in found.iter().take(3) { println!("{f}"); }
        println!("WITNESS-SEARCH-DONE found={}", found.len());
    }

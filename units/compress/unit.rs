// UNIT compress — the value of an entry goes through exactly the codec the caller names, on the way out and on the way in
// (C08): `EntrySerializer::serialize_value(value, writer, compression)` writes the value's encoding through the encoder of
// `compression` (none / zstd, finished / lz4) and nothing else, and `EntryDeserializer::deserialize_value(buf, compression)`
// yields a value only by decoding the buffer through the decoder of `compression`. The caller (Buffer::push) records the
// SAME `compression` in the entry header and the engine's load passes the header's tag to the deserializer, so what was
// written can be read back. The codecs themselves (zstd, lz4 crates) and `Code::encode / decode` are stand-ins: output is
// a ghost list of pieces (codec, value, finished).
#![allow(unused_imports, unused_variables, dead_code, unused_mut)]
use vstd::prelude::*;
verus! {

global size_of usize == 8;

//@item foyer-storage/src/compress.rs :: enum Compression rules=derive-structural

pub struct Error { pub e: u8 }
pub type Result<T> = core::result::Result<T, Error>;
#[derive(PartialEq, Eq, Structural, Clone, Copy)]
pub struct Piece { pub codec: Compression, pub val: int, pub finished: bool }
/// the underlying `W: Write` (moved into the tracked writer)
pub struct SinkT { pub s: u8 }
/// names a ghost log by a number (lets `written()` expose what was written to the contract)
pub uninterp spec fn log_of(n: usize) -> Seq<Piece>;
pub struct TrackedWriter { pub log: Ghost<Seq<Piece>> }
impl TrackedWriter {
    #[verifier::external_body] pub fn new(w: SinkT) -> (r: TrackedWriter) ensures r.log@ == Seq::<Piece>::empty() { unimplemented!() }
    #[verifier::external_body] pub fn written(&self) -> (r: usize) ensures log_of(r) == self.log@ { unimplemented!() }
}
/// a streaming encoder wrapped around the tracked writer
pub struct EncoderT<'a> { pub codec: Compression, pub inner: &'a mut TrackedWriter }
pub mod zstd {
    use super::*;
    pub struct Encoder { }
    impl Encoder {
        #[verifier::external_body]
        pub fn new<'a>(w: &'a mut TrackedWriter, level: i32) -> (r: Result<EncoderT<'a>>)
            ensures r matches Ok(e) ==> e.codec == Compression::Zstd && *e.inner == *old(w) && *final(e.inner) == *final(w),
                r is Err ==> *final(w) == *old(w),
        { unimplemented!() }
    }
    pub struct Decoder { }
    impl Decoder {
        #[verifier::external_body]
        pub fn new(buf: &BufT) -> (r: Result<DecoderT>) ensures r matches Ok(d) ==> d.codec == Compression::Zstd && d.src@ == buf.pieces@ { unimplemented!() }
    }
}
pub mod lz4 {
    use super::*;
    #[verifier::external_body]
    pub fn verif_lz4_encoder<'a>(w: &'a mut TrackedWriter) -> (r: Result<EncoderT<'a>>)
        ensures r matches Ok(e) ==> e.codec == Compression::Lz4 && *e.inner == *old(w) && *final(e.inner) == *final(w),
            r is Err ==> *final(w) == *old(w),
    { unimplemented!() }
    pub struct Decoder { }
    impl Decoder {
        #[verifier::external_body]
        pub fn new(buf: &BufT) -> (r: Result<DecoderT>) ensures r matches Ok(d) ==> d.codec == Compression::Lz4 && d.src@ == buf.pieces@ { unimplemented!() }
    }
}
impl<'a> EncoderT<'a> {
    /// zstd: `finish()` flushes the frame end (without it the frame cannot be decoded)
    #[verifier::external_body]
    pub fn finish(self) -> (r: Result<()>)
        ensures r is Ok ==> old(self.inner).log@.len() > 0 ==> final(self.inner).log@ == old(self.inner).log@.drop_last().push(Piece { finished: true, ..old(self.inner).log@.last() }),
            r is Ok && old(self.inner).log@.len() == 0 ==> final(self.inner).log@ == old(self.inner).log@,
    { unimplemented!() }
}
/// the value (`V: StorageValue`): named by an id
pub struct ValT { pub id: Ghost<int> }
impl ValT {
    /// Code::encode straight into the tracked writer
    #[verifier::external_body]
    pub fn encode_plain(&self, w: &mut TrackedWriter) -> (r: Result<()>)
        ensures r is Ok ==> final(w).log@ == old(w).log@.push(Piece { codec: Compression::None, val: self.id@, finished: true }),
    { unimplemented!() }
    /// Code::encode into a streaming encoder: the value's bytes go out through that encoder's codec
    #[verifier::external_body]
    pub fn encode<'a>(&self, e: &mut EncoderT<'a>) -> (r: Result<()>)
        ensures final(e).codec == old(e).codec, *final(final(e).inner) == *final(old(e).inner),
            r is Ok ==> final(e).inner.log@ == old(e).inner.log@.push(Piece { codec: old(e).codec, val: self.id@, finished: old(e).codec != Compression::Zstd }),
    { unimplemented!() }
    #[verifier::external_body] pub fn estimated_size(&self) -> (r: usize) { unimplemented!() }
    /// Code::decode from the raw buffer
    #[verifier::external_body]
    pub fn decode_plain(buf: &BufT) -> (r: Result<ValT>)
        ensures r matches Ok(v) ==> buf.pieces@ == seq![Piece { codec: Compression::None, val: v.id@, finished: true }],
    { unimplemented!() }
    /// Code::decode from a streaming decoder: succeeds only on a finished frame of that decoder's codec
    #[verifier::external_body]
    pub fn decode(d: &mut DecoderT) -> (r: Result<ValT>)
        ensures r matches Ok(v) ==> old(d).src@ == seq![Piece { codec: old(d).codec, val: v.id@, finished: true }],
    { unimplemented!() }
}
pub struct BufT { pub pieces: Ghost<Seq<Piece>> }
pub struct DecoderT { pub codec: Compression, pub src: Ghost<Seq<Piece>> }

//@region foyer-storage/src/serde.rs :: impl~^impl EntrySerializer/fn serialize_value name=serialize_value whole=1 sub=@\.map_err\(Error::io_error\)@@ sub=@value\.encode\(&mut writer\)@value.encode_plain(&mut writer)@ sub=@(?s)lz4::EncoderBuilder::new\(\)\s*\.checksum\(lz4::ContentChecksum::NoChecksum\)\s*\.auto_flush\(true\)\s*\.build\(&mut writer\)@lz4::verif_lz4_encoder(&mut writer)@
//@head
fn serialize_value(value: &ValT, writer: SinkT, compression: Compression) -> (r: Result<usize>)
    ensures
        r matches Ok(n) ==> log_of(n) == seq![Piece { codec: compression, val: value.id@, finished: true }], // @label the_value_is_written_through_the_codec_the_caller_named_and_nothing_else
//@end

//@region foyer-storage/src/serde.rs :: impl~^impl EntryDeserializer/fn deserialize_value name=deserialize_value whole=1 sub=@\.map_err\(Error::io_error\)@@ sub=@V::decode\(&mut &buf\[\.\.\]\)@ValT::decode_plain(buf)@ sub=@V::decode\(&mut decoder\)@ValT::decode(&mut decoder)@
//@head
fn deserialize_value(buf: &BufT, compression: Compression) -> (r: Result<ValT>)
    ensures
        r matches Ok(v) ==> buf.pieces@ == seq![Piece { codec: compression, val: v.id@, finished: true }], // @label a_value_is_decoded_only_through_the_codec_the_header_names
//@end

/// corollary: what serialize_value(c) wrote is read back by deserialize_value(.., c2) only as the same value, with c2 == c
proof fn lemma_roundtrip(n: usize, c: Compression, v: int, buf: BufT, c2: Compression, v2: int)
    requires log_of(n) == seq![Piece { codec: c, val: v, finished: true }], buf.pieces@ == log_of(n),
        buf.pieces@ == seq![Piece { codec: c2, val: v2, finished: true }],
    ensures c == c2 && v == v2, // @label written_and_read_back_agree_on_codec_and_value
{
    assert(buf.pieces@[0] == Piece { codec: c, val: v, finished: true });
}

} // verus!
